"""Abstract dataflow programs over a small ONNX vocabulary — generator, independent numpy evaluator,
several Python *realisations* of one abstract program with the real spox constructors, extraction
of the nested emission from the built ModelProto, and runtime runners.

Shared by the build properties (C01 first; C03/C04/C12 may reuse it).  Nothing in this file uses the
Lean model.  Everything C01 needs works through the public API and the returned ModelProto only
(`extract_emission` derives the NodeProto ↔ abstract-node correspondence by demand from the model's
results).  Optional extras for other properties read internals defensively: `Realised.node_id`
(`Var._op`) and `capture_builds` (`Builder.build_main`'s BuildResult); when they are not there the
fields stay empty / `unobservable` is set — nothing raises.

Abstract program (JSON-able dict, so it can be written into replay files as is):

    prog = {"nodes": [node...], "outputs": [[node, idx]...], "opset": 17}
    node = {"op": str, "ins": [[node, idx] | None ...], "subs": [{"args": [id...], "res": [[node, idx]...]}...],
            "attrs": {...}, "ty": [[dtype, shape, loose]...]}

* node ids are list positions; every reference points to a smaller id (ids are *an* abstract
  creation order; realisations are free to create nodes in any order compatible with the dataflow).
* also: LabelEncoder / Scaler / Binarizer (domain ai.onnx.ml), BitAnd / BitOr / BitXor / BitNot
  (opset ≥ 18), and — only in `skeleton4_programs` — Gelu, DFT (opset 20; compared with atol 1e-4).
* `op` ∈ arg, init, Constant, Add, Sub, Mul, Max / Min (variadic), Transpose, Neg, Abs, Identity, Not, Less, Cast, Where, Concat (variadic),
  Clip (inner / trailing optional inputs), ReduceSum (trailing optional input omitted),
  Split (multi-output, optional `split` input), TopK (multi-output), Reshape (to rank 1),
  Scan (ins = states + scan inputs; body args = state formals + slice formals; body res = states +
  scan-output slices), If (subs = [then, else]),
  Loop (ins = [M?, cond?, state...]; subs = [body]; body args = [iter, cond, state...];
  body res = [cond, state..., scan...]; outputs = final states then stacked scan outputs).
* Constant / init nodes carry `attrs.layout` ∈ C, T, F, strided, rev, broadcast: the memory layout of
  the source ndarray handed to spox (`layout_view`); the logical value is `attrs.value`.
* `arg` nodes with attrs.role == "main" are the model inputs (named `in<id>`); role "formal" are
  body formals.  A body may refer to any older node (closure); a node that depends on a formal is
  only ever used inside that formal's body (leak-free by construction).
* excluded on purpose (runtime hygiene, not spox's business): Cast applied directly to a Cast result
  (onnxruntime's always-on duplicate-cast removal loses implicit inputs of bodies), float ReduceSum
  (summation order), Where on bool operands (no kernel), values leaving ±2^40 / ±1e25 (the binding is
  skipped: `stats["wild"]`).
* types: dtype ∈ i64, f32, bool; shape = list of ints (None = dimension only known at run time);
  `loose` marks Loop's iteration counter / condition formals and what is derived from them: spox
  declares them with shape (1,) while runtimes pass scalars, so they are only used where both
  readings broadcast to the same result (never as results, states or Concat inputs).

API
    gen_program(rng, size=…, max_depth=…) -> prog          seeded random, well-typed by construction
    skeleton_programs(...) -> iterator of prog              exhaustive placement/use-set family
    eval_numpy(prog, binding) -> (outputs, stats)           independent evaluator (the specification)
    random_binding(prog, rng) -> {arg id: ndarray}
    realise(prog, rng, style) -> Realised                   builds the program with real spox
    capture_builds()                                        context manager recording Builder results
    extract_emission(prog, model) -> (emission, problems)
    renumber(prog, realised.created) / rename_emission      the program in its REAL creation order
    lean_request(prog, emission, ...) -> dict               request for the C01 driver handler
    ort_session(model) / ort_run(sess, feeds) / run_reference(model, feeds) / same_value(got, want)
"""
from __future__ import annotations

import contextlib
import itertools
import json
import random
import warnings
from typing import Any, Iterator, Optional

import numpy as np

DT = {"i64": np.int64, "f32": np.float32, "bool": np.bool_, "f64": np.float64, "i32": np.int32, "f16": np.float16}
NUMERIC = ("i64", "f32", "f64", "i32", "f16")  # (the last three only through `retype`: the generators draw i64 / f32)
N = 3  # base vector length

ONNX_NAME = {
    "Constant": "Constant", "Add": "Add", "Mul": "Mul", "Neg": "Neg", "Abs": "Abs",
    "Identity": "Identity", "Not": "Not", "Less": "Less", "Cast": "Cast", "Where": "Where",
    "Concat": "Concat", "Clip": "Clip", "ReduceSum": "ReduceSum", "Split": "Split", "TopK": "TopK",
    "If": "If", "Loop": "Loop", "Scan": "Scan", "Reshape": "Reshape",
    "Sub": "Sub", "Max": "Max", "Min": "Min", "Transpose": "Transpose",
    "Sum": "Sum", "Mean": "Mean", "Einsum": "Einsum",
    "LabelEncoder": "LabelEncoder", "Scaler": "Scaler", "Binarizer": "Binarizer",
    "BitAnd": "BitwiseAnd", "BitOr": "BitwiseOr", "BitXor": "BitwiseXor", "BitNot": "BitwiseNot",
    "Gelu": "Gelu", "DFT": "DFT",
    "ConstScalar": "Constant", "Div": "Div", "LeakyRelu": "LeakyRelu", "Gather": "Gather",
}
ML_OPS = ("LabelEncoder", "Scaler", "Binarizer")  # domain ai.onnx.ml
MIN_OPSET = {"BitAnd": 18, "BitOr": 18, "BitXor": 18, "BitNot": 18, "Gelu": 20, "DFT": 20}
SUB_ATTRS = {"If": ["then_branch", "else_branch"], "Loop": ["body"], "Scan": ["body"]}
LAYOUTS = ["C", "T", "F", "strided", "rev", "broadcast"]

MAG_INT = 2 ** 40
MAG_FLOAT = 1e25


class HarnessError(Exception):
    """Trouble inside this library (generator bug, spox internal not observable): never a verdict."""


class PartialOp(Exception):
    """The numpy evaluator was asked to evaluate a partial operator outside its domain (Gather index
    out of range …): the dataflow has no value for this binding."""


class ConstructorShapeMismatch(Exception):
    """A spox constructor handed a callback another number of formals, or returned another number of
    outputs, than the operator has — the program cannot be written as described."""


# --------------------------------------------------------------------------------------- types
def ty(dt: str, shape, loose: bool = False):
    return [dt, list(shape), bool(loose)]


def concrete(t) -> bool:
    return all(d is not None for d in t[1])


def same_ty(a, b) -> bool:
    return a[0] == b[0] and a[1] == b[1] and a[2] == b[2]


def bshape(a, b):
    """Result type info of a broadcasting binary op on (possibly loose) operands, or None."""
    if a[2] and b[2]:
        return [], True
    if a[2] or b[2]:
        o = b if a[2] else a
        if not concrete(o):
            return None
        if len(o[1]) == 0:
            return [], True
        if len(o[1]) >= 1 and all(d >= 1 for d in o[1]):
            return list(o[1]), False
        return None
    if a[1] == b[1] and concrete(a):
        return list(a[1]), False
    if len(a[1]) == 0 and len(b[1]) >= 1:
        return list(b[1]), False
    if len(b[1]) == 0 and len(a[1]) >= 1:
        return list(a[1]), False
    return None


# ----------------------------------------------------------------------------------- generator
class _Gen:
    def __init__(self, rng: random.Random, size: int, max_depth: int, opset: int = 17):
        self.opset = opset
        self.rng = rng
        self.size = size
        self.max_depth = max_depth
        self.nodes: list[dict] = []
        self.dep: list[frozenset] = []
        self.uniq = 0
        self.bias = False  # prefer values that depend on body formals (sharing below a body)

    # -- node creation
    def add(self, op, ins=(), subs=(), attrs=None, tys=(), extra_dep=frozenset()):
        d = set(extra_dep)
        for r in ins:
            if r is not None:
                d |= self.dep[r[0]]
        for s in subs:
            inner = set()
            for r in s["res"]:
                inner |= self.dep[r[0]]
            inner |= s.get("_dep", set())
            d |= inner - set(s["args"])
        self.nodes.append(
            {
                "op": op,
                "ins": [list(r) if r is not None else None for r in ins],
                "subs": [{"args": list(s["args"]), "res": [list(r) for r in s["res"]]} for s in subs],
                "attrs": dict(attrs or {}),
                "ty": [list(t) for t in tys],
            }
        )
        self.dep.append(frozenset(d))
        return len(self.nodes) - 1

    def tyof(self, r):
        return self.nodes[r[0]]["ty"][r[1]]

    def usable(self, active: frozenset, pred=None, recent: Optional[int] = None):
        out = []
        for k, n in enumerate(self.nodes):
            if not self.dep[k] <= active:
                continue
            for i, t in enumerate(n["ty"]):
                if pred is None or pred(t):
                    out.append((k, i))
        return out

    def pick(self, cands):
        """Bias towards recent values (depth) while keeping old ones in play (sharing)."""
        if not cands:
            return None
        if self.bias:
            sub = [c for c in cands if self.dep[c[0]]]
            if sub:
                return self.rng.choice(sub)
        if self.rng.random() < 0.6:
            return cands[-1 - min(len(cands) - 1, int(self.rng.expovariate(0.5)))]
        return self.rng.choice(cands)

    def const_value(self, t, layout="C"):
        self.uniq += 1
        shape = [d if d is not None else 2 for d in t[1]]
        n = int(np.prod(shape)) if shape else 1
        if layout == "broadcast":  # all leading-axis slices equal: the source is a broadcast view
            inner = n // shape[0]
            row = self.const_value(ty(t[0], shape[1:]))
            return row[:inner] * shape[0]
        if t[0] == "bool":
            vals = [bool((self.uniq + i) % 2) for i in range(n)]
        elif t[0] == "i64":
            vals = [int(self.rng.randint(-3, 3)) for _ in range(n)]
        else:
            vals = [self.rng.randint(-6, 6) / 2.0 for _ in range(n)]
        return vals

    def make_const(self, t, init_ok=True):
        t = ty(t[0], [d if d is not None else 2 for d in t[1]])
        op = "init" if (init_ok and self.rng.random() < 0.35) else "Constant"
        # how the source ndarray handed to spox is laid out in memory (its logical value is `value`)
        layout = "C"
        if t[1] and self.rng.random() < 0.6:
            layout = self.rng.choice([l for l in LAYOUTS[1:] if len(t[1]) >= 2 or l not in ("T", "F")])
        k = self.add(op, attrs={"value": self.const_value(t, layout), "uid": self.uniq, "layout": layout}, tys=[t])
        return (k, 0)

    def find_or_make(self, active, t, prefer_from: int = 0, p_reuse=0.85):
        cands = self.usable(active, lambda u: same_ty(u, t))
        fresh = [c for c in cands if c[0] >= prefer_from]
        if fresh and self.rng.random() < 0.8:
            return self.rng.choice(fresh)
        if cands and self.rng.random() < p_reuse:
            return self.pick(cands)
        # derive from something of the same shape through Cast, else a constant
        alt = [r for r in self.usable(active, lambda u: u[1] == t[1] and not u[2] and u[0] != t[0] and concrete(u))
               if self.nodes[r[0]]["op"] != "Cast"]
        if alt and self.rng.random() < 0.5:
            k = self.add("Cast", [self.pick(alt)], attrs={"to": t[0]}, tys=[t])
            return (k, 0)
        return self.make_const(t)

    # -- ordinary operator applications
    def gen_op(self, active: frozenset, depth: int) -> None:
        rng = self.rng
        num = lambda u: u[0] in NUMERIC  # noqa: E731
        self.bias = bool(active) and rng.random() < 0.4
        deep = depth < self.max_depth
        choice = rng.choices(
            ["un", "bin", "less", "cast", "where", "concat", "clip", "rsum", "split", "topk", "const", "flat", "if", "loop", "scan",
             "maxmin", "transpose", "ml", "bit"],
            [14, 22, 6, 8, 7, 7, 8, 5, 6, 5, 6, 5, 10 if deep else 0, (7 if self.opset <= 18 else 0) if deep else 0,
             (4 if self.opset <= 18 else 9) if deep else 0, 5, 4, 3, 5 if self.opset >= 18 else 0],
        )[0]
        if choice == "const":
            self.make_const(rng.choice([ty("i64", [N]), ty("f32", [N]), ty("i64", []), ty("f32", []), ty("bool", [N]),
                                        ty("i64", [2, N]), ty("f32", [N, 2]), ty("i64", [2, 2, N])]))
            return
        if choice == "flat":
            x = self.pick(self.usable(active, lambda u: not u[2] and concrete(u) and len(u[1]) >= 2))
            if x is None:
                x = self.make_const(rng.choice([ty("i64", [2, N]), ty("f32", [N, 2])]))
            t = self.tyof(x)
            self.uniq += 1
            sh = self.add("Constant", attrs={"value": [-1], "uid": self.uniq}, tys=[ty("i64", [1])])
            self.add("Reshape", [x, (sh, 0)], tys=[ty(t[0], [int(np.prod(t[1]))])])
            return
        if choice == "scan":
            self.gen_scan(active, depth)
            return
        if choice == "ml":  # operators of the ai.onnx.ml domain
            kind = rng.choice(ML_OPS)
            want = "i64" if kind == "LabelEncoder" else "f32"
            x = self.pick(self.usable(active, lambda u: u[0] == want and not u[2] and concrete(u) and len(u[1]) >= 1))
            if x is None:
                return
            t = self.tyof(x)
            if kind == "LabelEncoder":
                keys = rng.sample(range(-4, 5), rng.randint(1, 4))
                attrs = {"keys": keys, "values": [rng.randint(-9, 9) for _ in keys], "default": rng.randint(-9, 9)}
            elif kind == "Scaler":
                attrs = {"offset": rng.randint(-4, 4) / 2.0, "scale": rng.choice([0.5, 1.0, 2.0, -1.0, -2.0])}
            else:
                attrs = {"threshold": rng.randint(-4, 4) / 2.0}
            self.add(kind, [x], attrs=attrs, tys=[t])
            return
        if choice == "bit":  # since opset 18
            a = self.pick(self.usable(active, lambda u: u[0] == "i64"))
            if a is None:
                return
            ta = self.tyof(a)
            if rng.random() < 0.25:
                self.add("BitNot", [a], tys=[ta])
                return
            cands = [b for b in self.usable(active, lambda u: u[0] == "i64") if bshape(ta, self.tyof(b)) is not None]
            b = self.pick(cands) if cands and rng.random() < 0.9 else self.make_const(ty("i64", [] if (ta[2] or not concrete(ta)) else rng.choice([ta[1], []])))
            sh = bshape(ta, self.tyof(b))
            if sh is None:
                return
            self.add(rng.choice(["BitAnd", "BitOr", "BitXor"]), [a, b], tys=[ty("i64", sh[0], sh[1])])
            return
        if choice == "maxmin":  # variadic, 1-3 operands of one type
            x = self.pick(self.usable(active, lambda u: num(u) and not u[2] and concrete(u)))
            if x is None:
                return
            t = self.tyof(x)
            parts = [x] + [self.find_or_make(active, t, p_reuse=0.9) for _ in range(rng.choice([0, 1, 1, 2]))]
            rng.shuffle(parts)
            kinds = ["Max", "Min"]
            if t[0] == "f32":
                kinds += ["Sum", "Sum"] + (["Mean"] if len(parts) in (1, 2) else [])
            if len(t[1]) >= 1 and len(parts) >= 2:
                kinds += ["Einsum"]
            kind = rng.choice(kinds)
            attrs = {"equation": ",".join(["..."] * len(parts)) + "->..."} if kind == "Einsum" else None
            self.add(kind, parts, attrs=attrs, tys=[t])
            return
        if choice == "transpose":
            x = self.pick(self.usable(active, lambda u: not u[2] and concrete(u) and len(u[1]) >= 2))
            if x is None:
                x = self.make_const(rng.choice([ty("i64", [2, N]), ty("f32", [N, 2]), ty("i64", [2, 2, N])]))
            t = self.tyof(x)
            perm = list(range(len(t[1])))
            while perm == sorted(perm):
                rng.shuffle(perm)
            self.add("Transpose", [x], attrs={"perm": perm}, tys=[ty(t[0], [t[1][i] for i in perm])])
            return
        if choice == "un":
            a = self.pick(self.usable(active))
            if a is None:
                return
            t = self.tyof(a)
            ops = ["Identity"] + (["Not"] if t[0] == "bool" else ["Neg", "Abs"])
            self.add(rng.choice(ops), [a], tys=[t])
            return
        if choice in ("bin", "less"):
            a = self.pick(self.usable(active, num))
            if a is None:
                return
            ta = self.tyof(a)
            cands = [b for b in self.usable(active, lambda u: u[0] == ta[0]) if bshape(ta, self.tyof(b)) is not None]
            if cands and rng.random() < 0.9:
                b = self.pick(cands)
            else:
                if ta[2] or not concrete(ta):
                    b = self.make_const(ty(ta[0], []))
                else:
                    b = self.make_const(ty(ta[0], rng.choice([ta[1], []])))
            if rng.random() < 0.5:
                a, b = b, a
            sh = bshape(self.tyof(a), self.tyof(b))
            if sh is None:
                return
            if choice == "less":
                self.add("Less", [a, b], tys=[ty("bool", sh[0], sh[1])])
            else:
                self.add(rng.choice(["Add", "Add", "Mul", "Sub"]), [a, b], tys=[ty(ta[0], sh[0], sh[1])])
            return
        if choice == "cast":
            # never Cast directly on a Cast result: onnxruntime's mandatory duplicate-cast removal
            # (runs even with optimisations disabled) loses the value when only bodies consume it
            a = self.pick([r for r in self.usable(active) if self.nodes[r[0]]["op"] != "Cast"])
            if a is None:
                return
            t = self.tyof(a)
            to = rng.choice([d for d in ("i64", "f32", "bool") if d != t[0]])
            self.add("Cast", [a], attrs={"to": to}, tys=[ty(to, t[1], t[2])])
            return
        if choice == "where":
            # (onnxruntime has no Where kernel for bool operands)
            x = self.pick(self.usable(active, lambda u: num(u) and not u[2] and concrete(u) and len(u[1]) == 1))
            if x is None:
                return
            t = self.tyof(x)
            y = self.find_or_make(active, t, p_reuse=0.9)
            c = self.find_or_make(active, ty("bool", rng.choice([t[1], []])), p_reuse=0.9)
            self.add("Where", [c, x, y], tys=[t])
            return
        if choice == "concat":
            x = self.pick(self.usable(active, lambda u: not u[2] and concrete(u) and len(u[1]) == 1))
            if x is None:
                return
            t = self.tyof(x)
            parts = [x]
            for _ in range(rng.choice([0, 1, 1, 2])):
                c = self.usable(active, lambda u: u[0] == t[0] and not u[2] and concrete(u) and len(u[1]) == 1)
                parts.append(self.pick(c))
            rng.shuffle(parts)
            n = sum(self.tyof(p)[1][0] for p in parts)
            if n > 12:
                return
            self.add("Concat", parts, attrs={"axis": 0}, tys=[ty(t[0], [n])])
            return
        if choice == "clip":
            x = self.pick(self.usable(active, lambda u: num(u) and not u[2]))
            if x is None:
                return
            t = self.tyof(x)
            st = ty(t[0], [])
            form = rng.choice(["both", "min", "max", "none"])
            lo = self.find_or_make(active, st, p_reuse=0.7) if form in ("both", "min") else None
            hi = self.find_or_make(active, st, p_reuse=0.7) if form in ("both", "max") else None
            self.add("Clip", [x, lo, hi], tys=[t])
            return
        if choice == "rsum":
            # integers only: a float sum is the one place where numpy and a runtime may round differently
            x = self.pick(self.usable(active, lambda u: u[0] == "i64" and not u[2] and len(u[1]) >= 1))
            if x is None:
                return
            self.add("ReduceSum", [x, None], attrs={"keepdims": 0}, tys=[ty(self.tyof(x)[0], [])])
            return
        if choice == "split":
            x = self.pick(self.usable(active, lambda u: not u[2] and concrete(u) and len(u[1]) == 1 and u[1][0] >= 2))
            if x is None:
                return
            t = self.tyof(x)
            n = t[1][0]
            k = rng.choice([c for c in (2, 3) if c <= n])
            if self.opset >= 18 and n % k != 0:
                return  # explicit sizes cannot be written at opset >= 18 (listed finding)
            if n % k == 0 and (rng.random() < 0.5 or self.opset >= 18):
                sizes = [n // k] * k
                self.add("Split", [x, None], attrs={"axis": 0, "outputs": k}, tys=[ty(t[0], [s]) for s in sizes])
            else:
                cuts = sorted(rng.sample(range(1, n), k - 1))
                sizes = [b - a for a, b in zip([0] + cuts, cuts + [n])]
                self.uniq += 1
                s = self.add("Constant", attrs={"value": sizes, "uid": self.uniq}, tys=[ty("i64", [k])])
                self.add("Split", [x, (s, 0)], attrs={"axis": 0, "outputs": k}, tys=[ty(t[0], [z]) for z in sizes])
            return
        if choice == "topk":
            x = self.pick(self.usable(active, lambda u: num(u) and not u[2] and concrete(u) and len(u[1]) == 1 and u[1][0] >= 1))
            if x is None:
                return
            t = self.tyof(x)
            k = rng.randint(1, min(3, t[1][0]))
            self.uniq += 1
            kk = self.add("Constant", attrs={"value": [k], "uid": self.uniq}, tys=[ty("i64", [1])])
            self.add("TopK", [x, (kk, 0)], attrs={"axis": -1, "largest": 1}, tys=[ty(t[0], [k]), ty("i64", [k])])
            return
        if choice == "if":
            self.gen_if(active, depth)
            return
        if choice == "loop":
            self.gen_loop(active, depth)
            return

    def result_types(self, active, n_out):
        out = []
        for _ in range(n_out):
            c = self.usable(active, lambda u: not u[2] and concrete(u))
            if c and self.rng.random() < 0.8:
                out.append(ty(*self.tyof(self.pick(c))[:2]))
            else:
                out.append(self.rng.choice([ty("i64", [N]), ty("f32", [N]), ty("i64", [])]))
        return out

    def gen_block(self, active, depth, budget):
        for _ in range(budget):
            if len(self.nodes) >= self.size:
                break
            self.gen_op(active, depth)

    def gen_if(self, active, depth):
        rng = self.rng
        cond = self.find_or_make(active, ty("bool", []), p_reuse=0.95)
        rts = self.result_types(active, rng.choice([1, 1, 2]))
        subs = []
        for _ in range(2):
            start = len(self.nodes)
            self.gen_block(active, depth + 1, rng.choice([0, 1, 2, 3, 4]))
            res = [self.find_or_make(active, t, prefer_from=start) for t in rts]
            subs.append({"args": [], "res": res})
        self.add("If", [cond], subs, tys=rts)

    def gen_loop(self, active, depth):
        rng = self.rng
        states = self.result_types(active, rng.choice([0, 1, 1, 2]))
        inits = [self.find_or_make(active, t) for t in states]
        mform = rng.choice(["const", "const", "arg", "none"])
        if mform == "const":
            self.uniq += 1
            m = (self.add("Constant", attrs={"value": [rng.randint(0, 3)], "scalar": True, "uid": self.uniq}, tys=[ty("i64", [])]), 0)
        elif mform == "arg":
            trips = [r for r in self.usable(active) if self.nodes[r[0]]["attrs"].get("range") == "trip"]
            if trips:
                m = rng.choice(trips)
            else:
                self.uniq += 1
                m = (self.add("Constant", attrs={"value": [2], "scalar": True, "uid": self.uniq}, tys=[ty("i64", [])]), 0)
        else:
            m = None
        # initial condition: shape (1,) — spox declares the body's condition formal with shape (1,), so a
        # rank-0 condition input is refused by the constructor (see findings: loop-scalar-cond)
        cond0 = self.find_or_make(active, ty("bool", [1]), p_reuse=0.95) if rng.random() < 0.3 else None
        it = self.add("arg", attrs={"role": "formal"}, tys=[ty("i64", [], True)])
        cn = self.add("arg", attrs={"role": "formal"}, tys=[ty("bool", [], True)])
        formals = [it, cn]
        for t in states:
            formals.append(self.add("arg", attrs={"role": "formal"}, tys=[t]))
        for f in formals:
            self.dep[f] = frozenset([f])
        inner = active | frozenset(formals)
        start = len(self.nodes)
        self.gen_block(inner, depth + 1, rng.choice([1, 2, 3, 4, 5]))
        # condition result
        if m is None:
            self.uniq += 1
            lim = self.add("Constant", attrs={"value": [rng.randint(0, 2)], "scalar": True, "uid": self.uniq}, tys=[ty("i64", [])])
            cres = (self.add("Less", [(it, 0), (lim, 0)], tys=[ty("bool", [], True)]), 0)
        else:
            form = rng.choice(["pass", "true", "less"])
            if form == "pass":
                cres = (cn, 0)
            elif form == "true":
                self.uniq += 1
                cres = (self.add("Constant", attrs={"value": [True], "scalar": True, "uid": self.uniq}, tys=[ty("bool", [])]), 0)
            else:
                self.uniq += 1
                lim = self.add("Constant", attrs={"value": [rng.randint(0, 3)], "scalar": True, "uid": self.uniq}, tys=[ty("i64", [])])
                cres = (self.add("Less", [(it, 0), (lim, 0)], tys=[ty("bool", [], True)]), 0)
        sres = [self.find_or_make(inner, t, prefer_from=start) for t in states]
        scans = []
        for _ in range(rng.choice([0, 0, 1, 1, 2]) if states else rng.choice([1, 2])):
            c = [r for r in self.usable(inner, lambda u: not u[2] and concrete(u) and len(u[1]) <= 1)]
            fresh = [r for r in c if r[0] >= start]
            r = rng.choice(fresh) if fresh and rng.random() < 0.8 else self.pick(c)
            if r is not None:
                scans.append(r)
        if not states and not scans:
            scans.append(self.make_const(ty("i64", [N])))
        body = {"args": formals, "res": [cres] + sres + scans}
        tys = list(states) + [ty(self.tyof(r)[0], [None] + self.tyof(r)[1]) for r in scans]
        self.add("Loop", [m, cond0] + inits, [body], tys=tys)


def _gen_scan(self, active, depth):
    """Scan: ins = states + scan inputs; body args = state formals + slice formals;
    body res = states + scan output slices; outputs = final states + stacked scan outputs."""
    rng = self.rng
    states = self.result_types(active, rng.choice([0, 1, 1, 2]))
    inits = [self.find_or_make(active, t) for t in states]
    # scan inputs: concrete rank >= 1, common leading length
    first = self.pick(self.usable(active, lambda u: not u[2] and concrete(u) and len(u[1]) >= 1 and u[1][0] >= 1))
    if first is None:
        first = self.make_const(ty("i64", [2, N]))
    T = self.tyof(first)[1][0]
    scans_in = [first]
    if rng.random() < 0.4:
        c = self.usable(active, lambda u: not u[2] and concrete(u) and len(u[1]) >= 1 and u[1][0] == T)
        scans_in.append(self.pick(c))
    formals = [self.add("arg", attrs={"role": "formal"}, tys=[t]) for t in states]
    for r in scans_in:
        t = self.tyof(r)
        formals.append(self.add("arg", attrs={"role": "formal"}, tys=[ty(t[0], t[1][1:])]))
    for f in formals:
        self.dep[f] = frozenset([f])
    inner = active | frozenset(formals)
    start = len(self.nodes)
    self.gen_block(inner, depth + 1, rng.choice([1, 2, 3, 4, 5]))
    sres = [self.find_or_make(inner, t, prefer_from=start) for t in states]
    outs = []
    for _ in range(rng.choice([0, 1, 1, 2]) if states else rng.choice([1, 2])):
        c = [r for r in self.usable(inner, lambda u: not u[2] and concrete(u) and len(u[1]) <= 1)]
        fresh = [r for r in c if r[0] >= start]
        r = rng.choice(fresh) if fresh and rng.random() < 0.8 else self.pick(c)
        if r is not None:
            outs.append(r)
    if not states and not outs:
        outs.append((formals[-1], 0) if len(self.tyof((formals[-1], 0))[1]) <= 1 else self.make_const(ty("i64", [N])))
    body = {"args": formals, "res": sres + outs}
    tys = list(states) + [ty(self.tyof(r)[0], [T] + self.tyof(r)[1]) for r in outs]
    self.add("Scan", inits + scans_in, [body], attrs={"num_scan_inputs": len(scans_in)}, tys=tys)


_Gen.gen_scan = _gen_scan


def gen_program(rng: random.Random, size: int = 20, max_depth: int = 3, opset: int = 17) -> dict:
    """A seeded random, well-typed, leak-free program with about `size` nodes."""
    g = _Gen(rng, size, max_depth, opset)
    kinds = [ty("i64", [N]), ty("f32", [N]), ty("i64", []), ty("bool", []), ty("bool", [N]), ty("f32", []),
             ty("i64", [2, N]), ty("f32", [N, 2])]
    chosen = [kinds[0], kinds[rng.randrange(2)]] + [rng.choice(kinds) for _ in range(rng.randint(0, 3))]
    rng.shuffle(chosen)
    for t in chosen:
        g.add("arg", attrs={"role": "main"}, tys=[t])
    if rng.random() < 0.5:
        g.add("arg", attrs={"role": "main", "range": "trip"}, tys=[ty("i64", [])])
    while len(g.nodes) < size:
        before = len(g.nodes)
        g.gen_op(frozenset(), 0)
        if len(g.nodes) == before and rng.random() < 0.05:
            break
    # requested outputs: closed values, biased to the end of the program
    cands = [r for r in g.usable(frozenset(), lambda u: not u[2]) if g.nodes[r[0]]["op"] != "arg"]
    if not cands:
        k = g.add("Identity", [(0, 0)], tys=[g.nodes[0]["ty"][0]])
        cands = [(k, 0)]
    outs = [cands[-1]]
    for _ in range(rng.choice([0, 1, 1, 2])):
        c = g.pick(cands)
        if c not in outs or rng.random() < 0.15:  # now and then the same value is requested twice
            outs.append(c)
    if rng.random() < 0.1:  # … or a model input is passed through
        a = rng.choice([k for k, n in enumerate(g.nodes) if n["op"] == "arg" and n["attrs"].get("role") == "main"])
        outs.append((a, 0))
    rng.shuffle(outs)
    return {"nodes": g.nodes, "outputs": [list(o) for o in outs], "opset": opset}


# --------------------------------------------------------------------------- program utilities
def main_args(prog) -> list[int]:
    return [k for k, n in enumerate(prog["nodes"]) if n["op"] == "arg" and n["attrs"].get("role") == "main"]


def formal_deps(prog) -> list[frozenset]:
    """For every node, the set of body formals it (transitively) depends on."""
    dep: list[frozenset] = []
    for k, n in enumerate(prog["nodes"]):
        if n["op"] == "arg" and n["attrs"].get("role") == "formal":
            dep.append(frozenset([k]))
            continue
        d: set = set()
        for r in n["ins"]:
            if r is not None:
                d |= dep[r[0]]
        for s in n["subs"]:
            inner: set = set()
            for r in s["res"]:
                inner |= dep[r[0]]
            d |= inner - set(s["args"])
        dep.append(frozenset(d))
    return dep


def reachable(prog) -> set[int]:
    """Nodes the requested outputs depend on (through inputs and body results)."""
    seen: set[int] = set()
    stack = [r[0] for r in prog["outputs"]]
    while stack:
        k = stack.pop()
        if k in seen:
            continue
        seen.add(k)
        n = prog["nodes"][k]
        stack.extend(r[0] for r in n["ins"] if r is not None)
        for s in n["subs"]:
            stack.extend(r[0] for r in s["res"])
            stack.extend(s["args"])
    return seen


def depth_of(prog) -> int:
    """Nesting depth of bodies below the requested outputs (iterative: ids are topological)."""
    nodes = prog["nodes"]
    d = [0] * len(nodes)
    for k, n in enumerate(nodes):
        best = 0
        for r in n["ins"]:
            if r is not None:
                best = max(best, d[r[0]])
        for s_ in n["subs"]:
            for r in s_["res"]:
                best = max(best, 1 + d[r[0]])
        d[k] = best
    return max((d[r[0]] for r in prog["outputs"]), default=0)


def check_wellformed(prog) -> list[str]:
    """Generator self-check: references go backwards, formals are used only inside their body."""
    bad = []
    dep = formal_deps(prog)
    for k, n in enumerate(prog["nodes"]):
        for r in n["ins"]:
            if r is not None and not (r[0] < k and r[1] < len(prog["nodes"][r[0]]["ty"])):
                bad.append(f"node {k}: bad input ref {r}")
        for s in n["subs"]:
            for r in s["res"]:
                if not r[0] < k:
                    bad.append(f"node {k}: bad body result ref {r}")
    for r in prog["outputs"]:
        if dep[r[0]]:
            bad.append(f"output {r} depends on formals {sorted(dep[r[0]])}")
    return bad


def typecheck(prog) -> list[str]:
    """Re-derive every node's output types from its inputs and attributes by the vocabulary's typing
    rules (independent of how the generator chose them) and compare with the recorded types.  Used as
    generator self-check and to keep the shrinker inside the well-typed programs."""
    nodes = prog["nodes"]
    bad: list[str] = []

    def T(r):
        return nodes[r[0]]["ty"][r[1]]

    def const_of(r):
        n = nodes[r[0]]
        return n["attrs"].get("value") if n["op"] == "Constant" else None

    for k, n in enumerate(nodes):
        op, ins, out = n["op"], n["ins"], n["ty"]
        err = None
        try:
            if op in ("arg",):
                ok = len(out) == 1 and not ins
            elif op in ("init", "Constant"):
                cnt = int(np.prod(out[0][1])) if out[0][1] else 1
                ok = not ins and concrete(out[0]) and not out[0][2] and len(n["attrs"]["value"]) == cnt
                ok = ok and n["attrs"].get("layout", "C") in LAYOUTS
            elif op == "ConstScalar":
                f_, v_ = n["attrs"]["form"], n["attrs"]["value"]
                want = {"float": ty("f32", []), "int": ty("i64", []),
                        "floats": ty("f32", [len(v_)] if isinstance(v_, list) else [0]),
                        "ints": ty("i64", [len(v_)] if isinstance(v_, list) else [0]),
                        "np": ty(n["attrs"].get("dtype", "f32"), [])}[f_]
                ok = not ins and same_ty(out[0], want)
            elif op == "Div":
                a, b = T(ins[0]), T(ins[1])
                sh = bshape(a, b)
                ok = a[0] == b[0] == "f32" and sh is not None and same_ty(out[0], ty("f32", sh[0], sh[1]))
            elif op == "LeakyRelu":
                ok = T(ins[0])[0] == "f32" and same_ty(out[0], T(ins[0]))
            elif op == "Gather":  # partial: the index must lie in [-n, n)
                t_, i_ = T(ins[0]), T(ins[1])
                ok = (not t_[2] and concrete(t_) and len(t_[1]) == 1 and i_[0] == "i64" and i_[1] == []
                      and same_ty(out[0], ty(t_[0], [], i_[2])))
            elif op == "LabelEncoder":
                x = T(ins[0])
                a_ = n["attrs"]
                ok = x[0] == "i64" and not x[2] and concrete(x) and same_ty(out[0], x) and len(a_["keys"]) == len(a_["values"]) >= 1 \
                    and len(set(a_["keys"])) == len(a_["keys"])
            elif op in ("Scaler", "Binarizer", "Gelu"):
                x = T(ins[0])
                ok = x[0] == "f32" and not x[2] and concrete(x) and len(x[1]) >= 1 and same_ty(out[0], x)
            elif op == "DFT":
                x = T(ins[0])
                ok = (x[0] == "f32" and not x[2] and concrete(x) and len(x[1]) >= 3 and x[1][-1] == 2 and same_ty(out[0], x)
                      and ins[1] is None and ins[2] is None)
            elif op == "BitNot":
                ok = T(ins[0])[0] == "i64" and same_ty(out[0], T(ins[0]))
            elif op in ("BitAnd", "BitOr", "BitXor"):
                a, b = T(ins[0]), T(ins[1])
                sh = bshape(a, b)
                ok = a[0] == b[0] == "i64" and sh is not None and same_ty(out[0], ty("i64", sh[0], sh[1]))
            elif op in ("Max", "Min"):
                ts = [T(r) for r in ins]
                ok = 1 <= len(ts) <= 3 and ts[0][0] in NUMERIC and not ts[0][2] and concrete(ts[0]) and all(
                    same_ty(t, ts[0]) for t in ts) and same_ty(out[0], ts[0])
            elif op in ("Sum", "Mean", "Einsum"):
                ts = [T(r) for r in ins]
                ok = 1 <= len(ts) <= 4 and not ts[0][2] and concrete(ts[0]) and all(same_ty(t, ts[0]) for t in ts) and same_ty(out[0], ts[0])
                if op == "Einsum":
                    ok = ok and ts[0][0] in NUMERIC and len(ts[0][1]) >= 1 and len(ts) >= 2 and n["attrs"]["equation"] == ",".join(["..."] * len(ts)) + "->..."
                else:
                    ok = ok and ts[0][0] == "f32" and (op == "Sum" or len(ts) in (1, 2, 4))
            elif op == "Transpose":
                x = T(ins[0])
                pm = n["attrs"]["perm"]
                ok = (not x[2] and concrete(x) and sorted(pm) == list(range(len(x[1]))) and len(x[1]) >= 2
                      and same_ty(out[0], ty(x[0], [x[1][i] for i in pm])))
            elif op in ("Add", "Mul", "Less", "Sub"):
                a, b = T(ins[0]), T(ins[1])
                sh = bshape(a, b)
                ok = a[0] == b[0] and a[0] in NUMERIC and sh is not None and same_ty(
                    out[0], ty("bool" if op == "Less" else a[0], sh[0], sh[1]))
            elif op in ("Neg", "Abs"):
                ok = T(ins[0])[0] in NUMERIC and same_ty(out[0], T(ins[0]))
            elif op == "Identity":
                ok = same_ty(out[0], T(ins[0]))
            elif op == "Not":
                ok = T(ins[0])[0] == "bool" and same_ty(out[0], T(ins[0]))
            elif op == "Cast":
                a = T(ins[0])
                ok = n["attrs"]["to"] in DT and same_ty(out[0], ty(n["attrs"]["to"], a[1], a[2])) and nodes[ins[0][0]]["op"] != "Cast"
            elif op == "Where":
                c, x, y = T(ins[0]), T(ins[1]), T(ins[2])
                ok = (c[0] == "bool" and not c[2] and c[1] in (x[1], []) and same_ty(x, y) and x[0] in NUMERIC
                      and not x[2] and concrete(x) and len(x[1]) == 1 and same_ty(out[0], x))
            elif op == "Concat":
                ts = [T(r) for r in ins]
                ok = (len(ts) >= 1 and all(t[0] == ts[0][0] and not t[2] and concrete(t) and len(t[1]) == 1 for t in ts)
                      and same_ty(out[0], ty(ts[0][0], [sum(t[1][0] for t in ts)])))
            elif op == "Clip":
                x = T(ins[0])
                ok = x[0] in NUMERIC and not x[2] and same_ty(out[0], x) and all(
                    r is None or same_ty(T(r), ty(x[0], [])) for r in ins[1:3]) and len(ins) == 3
            elif op == "ReduceSum":
                x = T(ins[0])
                ok = x[0] == "i64" and not x[2] and len(x[1]) >= 1 and ins[1] is None and same_ty(out[0], ty(x[0], []))
            elif op == "Split":
                x = T(ins[0])
                sizes = [t[1][0] for t in out]
                ok = (not x[2] and concrete(x) and len(x[1]) == 1 and sum(sizes) == x[1][0] and len(sizes) == n["attrs"]["outputs"]
                      and all(same_ty(t, ty(x[0], [z])) for t, z in zip(out, sizes))
                      and ((ins[1] is None and len(set(sizes)) == 1) or (ins[1] is not None and const_of(ins[1]) == sizes)))
            elif op == "TopK":
                x = T(ins[0])
                kv = const_of(ins[1])
                ok = (x[0] in NUMERIC and not x[2] and concrete(x) and len(x[1]) == 1 and kv is not None and len(kv) == 1
                      and 1 <= kv[0] <= x[1][0] and same_ty(out[0], ty(x[0], [kv[0]])) and same_ty(out[1], ty("i64", [kv[0]])))
            elif op == "Reshape":
                x = T(ins[0])
                ok = (not x[2] and concrete(x) and len(x[1]) >= 1 and const_of(ins[1]) == [-1]
                      and same_ty(out[0], ty(x[0], [int(np.prod(x[1]))])))
            elif op == "Scan":
                body = n["subs"][0]
                m = n["attrs"]["num_scan_inputs"]
                its = [T(r) for r in ins]
                states, sin = its[: len(its) - m], its[len(its) - m:]
                ns = len(states)
                ok = m >= 1 and all(not t[2] and concrete(t) for t in its) and all(len(t[1]) >= 1 for t in sin)
                ok = ok and len({t[1][0] for t in sin}) == 1
                fts = [nodes[a]["ty"][0] for a in body["args"]]
                ok = ok and len(fts) == len(its) and all(same_ty(f, t) for f, t in zip(fts, states))
                ok = ok and all(same_ty(f, ty(t[0], t[1][1:])) for f, t in zip(fts[ns:], sin))
                rts = [T(r) for r in body["res"]]
                ok = ok and len(rts) >= ns and all(same_ty(r, t) for r, t in zip(rts[:ns], states))
                so = rts[ns:]
                ok = ok and all(not t[2] and concrete(t) and len(t[1]) <= 1 for t in so)
                ok = ok and len(out) == ns + len(so) and all(same_ty(o, t) for o, t in zip(out, states))
                ok = ok and all(same_ty(o, ty(t[0], [sin[0][1][0]] + t[1])) for o, t in zip(out[ns:], so))
            elif op == "If":
                ok = same_ty(T(ins[0]), ty("bool", [])) and len(n["subs"]) == 2 and all(
                    not s["args"] and len(s["res"]) == len(out) and all(same_ty(T(r), t) and concrete(t) for r, t in zip(s["res"], out))
                    for s in n["subs"])
            elif op == "Loop":
                body = n["subs"][0]
                states = [T(r) for r in ins[2:]]
                ns = len(states)
                ok = (ins[0] is None or same_ty(T(ins[0]), ty("i64", []))) and (ins[1] is None or same_ty(T(ins[1]), ty("bool", [1])))
                ok = ok and all(not t[2] and concrete(t) for t in states)
                fts = [nodes[a]["ty"][0] for a in body["args"]]
                ok = ok and len(fts) == 2 + ns and same_ty(fts[0], ty("i64", [], True)) and same_ty(fts[1], ty("bool", [], True))
                ok = ok and all(same_ty(f, t) for f, t in zip(fts[2:], states))
                rts = [T(r) for r in body["res"]]
                ok = ok and len(rts) >= 1 + ns and rts[0][0] == "bool" and rts[0][1] == []
                ok = ok and all(same_ty(r, t) for r, t in zip(rts[1:1 + ns], states))
                scans = rts[1 + ns:]
                ok = ok and all(not t[2] and concrete(t) and len(t[1]) <= 1 for t in scans)
                ok = ok and len(out) == ns + len(scans) and all(same_ty(o, t) for o, t in zip(out, states))
                ok = ok and all(same_ty(o, ty(t[0], [None] + t[1])) for o, t in zip(out[ns:], scans))
                ok = ok and (ins[0] is not None or nodes[body["res"][0][0]]["op"] == "Less")
            else:
                ok = False
        except Exception as e:  # noqa: BLE001
            ok, err = False, f"{type(e).__name__}: {e}"
        if not ok:
            bad.append(f"node {k} ({op}) is ill-typed" + (f" [{err}]" if err else ""))
    for r in prog["outputs"]:
        t = T(r)
        if t[2]:
            bad.append(f"output {r} has a loose type")
    for k, n in enumerate(nodes):
        if MIN_OPSET.get(n["op"], 0) > prog.get("opset", 17):
            bad.append(f"node {k} ({n['op']}) needs opset {MIN_OPSET[n['op']]}")
    return bad


# ------------------------------------------------------------------------- numpy specification
def np_const(node) -> np.ndarray:
    t = node["ty"][0]
    arr = np.array(node["attrs"]["value"], dtype=DT[t[0]])
    return arr.reshape([d for d in t[1]])


class _Level:
    __slots__ = ("formals", "vals", "parent")

    def __init__(self, formals, parent):
        self.formals = formals
        self.vals: dict[int, list] = {}
        self.parent = parent


def eval_numpy(prog, binding: dict[int, np.ndarray]):
    """Evaluate the dataflow directly, operator by operator, with numpy.  Independent of spox and of
    the Lean model.  Returns (list of output arrays, stats) with stats['wild'] set when a value left
    the range in which numpy and runtimes are guaranteed to agree (overflow, non-finite)."""
    nodes = prog["nodes"]
    dep = formal_deps(prog)
    stats = {"wild": False, "loop_iters": 0, "evals": 0}
    special = bool(prog.get("special"))

    def note(a):
        if special:
            return a
        if a.dtype == np.float32:
            if a.size and (not np.all(np.isfinite(a)) or np.max(np.abs(a)) > MAG_FLOAT):
                stats["wild"] = True
        elif a.dtype == np.int64:
            if a.size and np.max(np.abs(a)) > MAG_INT:
                stats["wild"] = True
        return a

    def bound_of(lv) -> frozenset:
        out: set = set()
        while lv is not None:
            out |= lv.formals
            lv = lv.parent
        return frozenset(out)

    def ev(k: int, lv: _Level) -> list:
        L = lv
        while L.parent is not None and not (dep[k] & L.formals):
            L = L.parent
        if k in L.vals:
            return L.vals[k]
        n = nodes[k]
        stats["evals"] += 1

        def inp(j):
            r = n["ins"][j]
            return None if r is None else ev(r[0], L)[r[1]]

        op = n["op"]
        with np.errstate(all="ignore"):
            if op == "arg":
                raise KeyError(f"unbound argument {k}")
            elif op in ("init", "Constant"):
                out = [np_const(n)]
            elif op == "Add":
                out = [np.add(inp(0), inp(1))]
            elif op == "Mul":
                out = [np.multiply(inp(0), inp(1))]
            elif op == "Sub":
                out = [np.subtract(inp(0), inp(1))]
            elif op == "ConstScalar":
                f_, v_ = n["attrs"]["form"], n["attrs"]["value"]
                dt_ = {"float": np.float32, "floats": np.float32, "int": np.int64, "ints": np.int64}.get(f_) or DT[n["attrs"]["dtype"]]
                out = [np.array(v_, dtype=dt_)]
            elif op == "Div":
                out = [np.divide(inp(0), inp(1)).astype(np.float32)]
            elif op == "Gather":
                t_, i_ = inp(0), int(np.asarray(inp(1)).reshape(-1)[0])
                if not -t_.shape[0] <= i_ < t_.shape[0]:
                    raise PartialOp(f"Gather index {i_} outside [-{t_.shape[0]}, {t_.shape[0]})")
                out = [np.asarray(t_[i_])]
            elif op == "LeakyRelu":
                x = inp(0)
                out = [np.where(x < 0, np.float32(n["attrs"]["alpha"]) * x, x).astype(np.float32)]
            elif op == "LabelEncoder":
                a_ = n["attrs"]
                table = dict(zip(a_["keys"], a_["values"]))
                x = inp(0)
                out = [np.array([table.get(int(v), a_["default"]) for v in x.reshape(-1)], dtype=np.int64).reshape(x.shape)]
            elif op == "Scaler":
                out = [((inp(0) - np.float32(n["attrs"]["offset"])) * np.float32(n["attrs"]["scale"])).astype(np.float32)]
            elif op == "Binarizer":
                out = [(inp(0) > np.float32(n["attrs"]["threshold"])).astype(np.float32)]
            elif op == "Gelu":
                import math

                x = inp(0).astype(np.float64)
                out = [(0.5 * x * (1.0 + np.vectorize(math.erf)(x / math.sqrt(2.0)))).astype(np.float32)]
            elif op == "DFT":  # complex input [..., n, 2], transform along axis -2
                x = inp(0).astype(np.float64)
                z = np.fft.fft(x[..., 0] + 1j * x[..., 1], axis=-1)
                out = [np.stack([z.real, z.imag], axis=-1).astype(np.float32)]
            elif op == "BitNot":
                out = [np.bitwise_not(inp(0))]
            elif op == "BitAnd":
                out = [np.bitwise_and(inp(0), inp(1))]
            elif op == "BitOr":
                out = [np.bitwise_or(inp(0), inp(1))]
            elif op == "BitXor":
                out = [np.bitwise_xor(inp(0), inp(1))]
            elif op in ("Max", "Min"):
                acc_ = inp(0)
                for j in range(1, len(n["ins"])):
                    acc_ = (np.maximum if op == "Max" else np.minimum)(acc_, inp(j))
                out = [np.array(acc_)]
            elif op in ("Sum", "Mean", "Einsum"):
                acc_ = inp(0)
                for j in range(1, len(n["ins"])):
                    acc_ = (acc_ * inp(j)) if op == "Einsum" else (acc_ + inp(j))
                if op == "Mean":
                    acc_ = acc_ / np.float32(len(n["ins"]))
                out = [np.array(acc_, dtype=inp(0).dtype)]
            elif op == "Transpose":
                out = [np.transpose(inp(0), n["attrs"]["perm"])]
            elif op == "Neg":
                out = [np.negative(inp(0))]
            elif op == "Abs":
                out = [np.abs(inp(0))]
            elif op == "Identity":
                out = [np.array(inp(0))]
            elif op == "Not":
                out = [np.logical_not(inp(0))]
            elif op == "Less":
                out = [np.less(inp(0), inp(1))]
            elif op == "Cast":
                x = inp(0)
                to = n["attrs"]["to"]
                if to == "bool":
                    out = [np.asarray(x != 0)]
                elif to == "i64":
                    if x.dtype == np.float32 and x.size and np.max(np.abs(x)) > MAG_INT:
                        stats["wild"] = True
                        out = [np.zeros(x.shape, np.int64)]
                    else:
                        out = [np.trunc(x).astype(np.int64) if x.dtype == np.float32 else x.astype(np.int64)]
                else:
                    out = [x.astype(np.float32)]
            elif op == "Where":
                out = [np.where(inp(0), inp(1), inp(2))]
            elif op == "Concat":
                out = [np.concatenate([inp(j) for j in range(len(n["ins"]))], axis=0)]
            elif op == "Clip":
                x = inp(0)
                lo, hi = inp(1), inp(2)
                if lo is not None:
                    x = np.maximum(x, lo)
                if hi is not None:
                    x = np.minimum(x, hi)
                out = [np.array(x)]
            elif op == "ReduceSum":
                out = [np.sum(inp(0), dtype=inp(0).dtype)]
            elif op == "Split":
                x = inp(0)
                sizes = [t[1][0] for t in n["ty"]]
                cuts = np.cumsum(sizes)[:-1]
                out = list(np.split(x, cuts, axis=0))
            elif op == "TopK":
                x = inp(0)
                kk = int(inp(1).reshape(-1)[0])
                order = np.argsort(-x.astype(np.float64) if x.dtype != np.int64 else -x, kind="stable")[:kk]
                out = [x[order], order.astype(np.int64)]
            elif op == "Reshape":
                out = [np.asarray(inp(0)).reshape(-1)]
            elif op == "Scan":
                body = n["subs"][0]
                m = n["attrs"]["num_scan_inputs"]
                allin = [inp(j) for j in range(len(n["ins"]))]
                state, sin = allin[: len(allin) - m], allin[len(allin) - m:]
                ns = len(state)
                nso = len(body["res"]) - ns
                acc: list[list] = [[] for _ in range(nso)]
                for t_ in range(sin[0].shape[0]):
                    lv2 = _Level(frozenset(body["args"]), L)
                    for a, v in zip(body["args"], state + [np.asarray(z[t_]) for z in sin]):
                        lv2.vals[a] = [v]
                    warm(lv2, bound_of(lv2))
                    res = [ev(r[0], lv2)[r[1]] for r in body["res"]]
                    state = res[:ns]
                    for s_, v in zip(acc, res[ns:]):
                        s_.append(np.asarray(v))
                out = list(state) + [np.stack(s_, axis=0) for s_ in acc]
            elif op == "If":
                c = bool(np.asarray(inp(0)).reshape(-1)[0])
                body = n["subs"][0 if c else 1]
                out = [ev(r[0], L)[r[1]] for r in body["res"]]
            elif op == "Loop":
                body = n["subs"][0]
                m = inp(0)
                m = None if m is None else int(np.asarray(m).reshape(-1)[0])
                c0 = inp(1)
                cond = True if c0 is None else bool(np.asarray(c0).reshape(-1)[0])
                state = [inp(j) for j in range(2, len(n["ins"]))]
                ns = len(state)
                nscan = len(body["res"]) - 1 - ns
                scans: list[list] = [[] for _ in range(nscan)]
                i = 0
                while (m is None or i < m) and cond:
                    lv2 = _Level(frozenset(body["args"]), L)
                    actual = [np.array(i, dtype=np.int64), np.array(cond, dtype=np.bool_)] + state
                    for a, v in zip(body["args"], actual):
                        lv2.vals[a] = [v]
                    warm(lv2, bound_of(lv2))
                    res = [ev(r[0], lv2)[r[1]] for r in body["res"]]
                    cond = bool(np.asarray(res[0]).reshape(-1)[0])
                    state = res[1 : 1 + ns]
                    for s, v in zip(scans, res[1 + ns :]):
                        s.append(np.asarray(v))
                    i += 1
                    stats["loop_iters"] += 1
                    if i > 64:
                        raise RuntimeError("generator produced a non-terminating loop")
                out = list(state)
                for j, s in enumerate(scans):
                    t = n["ty"][ns + j]
                    if s:
                        out.append(np.stack(s, axis=0))
                    else:
                        out.append(np.zeros([0] + [d for d in t[1][1:]], dtype=DT[t[0]]))
            else:
                raise ValueError(f"unknown op {op}")
        out = [note(np.asarray(o)) for o in out]
        L.vals[k] = out
        return out

    needed = sorted(reachable(prog))
    long_chain = len(needed) > 400

    def warm(lv, bound: frozenset):
        """Evaluate, in id order, the needed nodes that belong to level `lv` (depend on its formals and on
        nothing unbound), so that `ev` never recurses along a long dependency chain."""
        if not long_chain:
            return
        for k in needed:
            if nodes[k]["op"] != "arg" and dep[k] <= bound and (not lv.formals or dep[k] & lv.formals) \
                    and nodes[k]["op"] not in ("If",):
                ev(k, lv)

    root = _Level(frozenset(), None)
    for a, v in binding.items():
        root.vals[int(a)] = [np.asarray(v)]
    warm(root, frozenset())
    outs = [ev(r[0], root)[r[1]] for r in prog["outputs"]]
    return outs, stats


def random_binding(prog, rng: random.Random, index: Optional[int] = None) -> dict[int, np.ndarray]:
    """`index`: position of the binding in the run — arguments with an `attrs.cycle` take
    `cycle[index % len]` (used to make zero-trip / out-of-domain combinations certain)."""
    b = {}
    for a in main_args(prog):
        n = prog["nodes"][a]
        t = n["ty"][0]
        shape = [d for d in t[1]]
        cnt = int(np.prod(shape)) if shape else 1
        if index is not None and n["attrs"].get("cycle"):
            cyc = n["attrs"]["cycle"]
            vals = [cyc[index % len(cyc)]] * cnt
        elif n["attrs"].get("range") == "trip":
            vals = [rng.randint(0, 3) for _ in range(cnt)]
        elif n["attrs"].get("range") == "special":
            vals = [rng.choice([0.0, -0.0, 1.0, -1.5, 2.0, -3.0, 0.5]) for _ in range(cnt)]
        elif t[0] in ("i64", "i32"):
            vals = [rng.randint(-4, 4) for _ in range(cnt)]
        elif t[0] in ("f32", "f64", "f16"):
            vals = [rng.randint(-6, 6) / 2.0 for _ in range(cnt)]
        else:
            vals = [rng.random() < 0.5 for _ in range(cnt)]
        b[a] = np.array(vals, dtype=DT[t[0]]).reshape(shape)
    return b


def binding_to_json(b):
    return {str(k): v.tolist() for k, v in b.items()}


def binding_from_json(prog, j):
    out = {}
    for k, v in j.items():
        t = prog["nodes"][int(k)]["ty"][0]
        out[int(k)] = np.array(v, dtype=DT[t[0]]).reshape([d for d in t[1]])
    return out


# ----------------------------------------------------------------------------------- realiser
STYLES = ["lazy", "eager", "mixed", "mixed-extras", "eager-shuffled", "lazy-extras"]


def layout_view(arr: np.ndarray, layout: str) -> np.ndarray:
    """An ndarray with the same logical value as `arr` whose memory is not laid out C-contiguously:
    T (transpose of a C array), F (Fortran order), strided (every other element of a wider buffer),
    rev (negative stride on the last axis), broadcast (stride 0 on the first axis; the value must have
    equal slices)."""
    if arr.ndim == 0 or layout == "C":
        return arr
    if layout == "T":
        v = np.ascontiguousarray(arr.T).T
    elif layout == "F":
        v = np.asfortranarray(arr)
    elif layout == "strided":
        big = np.zeros(arr.shape[:-1] + (2 * arr.shape[-1],), dtype=arr.dtype)
        big[..., ::2] = arr
        v = big[..., ::2]
    elif layout == "rev":
        v = np.ascontiguousarray(arr[..., ::-1])[..., ::-1]
    elif layout == "broadcast":
        v = np.broadcast_to(np.ascontiguousarray(arr[0]), arr.shape)
    else:
        raise HarnessError(f"unknown layout {layout}")
    if not np.array_equal(v, arr) or v.shape != arr.shape:
        raise HarnessError(f"layout {layout} does not preserve the value")
    return v


def const_scalar(op, attrs, own_attr=list):
    """A Constant written through its scalar / list attributes (or a numpy *scalar* as `value`)."""
    f_, v_ = attrs["form"], attrs["value"]
    if f_ == "float":
        return op.constant(value_float=v_)
    if f_ == "floats":
        return op.constant(value_floats=own_attr(v_))
    if f_ == "int":
        return op.constant(value_int=v_)
    if f_ == "ints":
        return op.constant(value_ints=own_attr(v_))
    return op.constant(value=DT[attrs["dtype"]](v_))


def attribute_twin(node) -> Optional[dict]:
    """A node with an attribute value that is `==`-equal to `node`'s but must serialise differently
    (sign of a zero, element type of a numpy scalar) — constructed *before* the program by the
    `twins` option of `realise`, never requested."""
    a = dict(node["attrs"])
    if node["op"] == "ConstScalar":
        v = a["value"]
        if a["form"] == "float" and v == 0:
            a["value"] = -v
        elif a["form"] == "floats" and any(z == 0 for z in v):
            a["value"] = [-z if z == 0 else z for z in v]
        elif a["form"] == "np" and float(v) == int(v) and abs(v) < 2 ** 20:
            a["dtype"] = {"f32": "i64", "i64": "f32", "bool": "i64"}[a["dtype"]]
            a["value"] = int(v) if a["dtype"] == "i64" else float(v)
        else:
            return None
        return {"op": "ConstScalar", "attrs": a}
    if node["op"] == "LeakyRelu" and a["alpha"] == 0:
        a["alpha"] = -a["alpha"]
        return {"op": "LeakyRelu", "attrs": a}
    return None


class Realised:
    """One Python realisation of an abstract program with the real spox constructors."""

    def __init__(self):
        self.inputs: dict[str, Any] = {}  # build() inputs, in main-argument order
        self.outputs: dict[str, Any] = {}  # build() outputs
        self.vars: dict[tuple[int, int], Any] = {}  # abstract (node, idx) -> spox Var
        self.node_id: dict[Any, int] = {}  # spox Node object -> abstract node id
        self.created: list[int] = []  # abstract ids in actual Python creation order
        self.created_in: dict[int, int] = {}  # abstract id -> callback nesting depth at creation
        self.extras = 0
        self.style = ""
        self.dims = "concrete"  # how the model inputs were declared
        self.owned = 0  # caller-owned lists handed to constructors
        self.mutations: dict[str, int] = {}  # … and what the caller did to them afterwards
        self.events: list = []  # [0, list object, [var ids]] = the caller sets the list's contents, [1, list object] = call
        self.calls: list[int] = []  # abstract node constructed by the i-th call event
        self.var_ids: dict[int, int] = {}  # id(Var) -> small number (Vars stay alive in `keep`)
        self.keep: list = []
        self.unobservable: Optional[str] = None  # set when a spox internal could not be read


def realise(prog, rng: random.Random, style: str = "lazy", twins: bool = False, dims: str = "concrete",
            mutate: bool = True) -> Realised:
    """Construct `prog` with spox.  `style` controls *how the program is written in Python*:

    lazy            every value is created on first demand (inside whichever callback needs it first,
                    then re-used from the closure afterwards — also by outer scopes)
    eager           every value that does not depend on a body formal is created up front in the
                    main program (bodies only close over it); dead values are constructed too
    eager-shuffled  like eager, in a random dataflow-compatible order
    mixed           a random subset is created up front, the rest on demand
    twins=True      first constructs, for every scalar-attribute node, an unrequested twin whose attribute
                    value is ==-equal but serialises differently (-0.0 / 0.0, np.int64(2) / np.float32(2))
    *-extras        additionally constructs unrequested operators on existing values at random points
                    (in the main program and inside callbacks)
    dims            how the model inputs are DECLARED: "concrete" (every dimension a number), "symbolic"
                    (a seeded part of the dimensions a name, e.g. ('d3', 2): known rank, sizes by name) or
                    "unknown" (… `None`): the property's premise is a known RANK only
    """
    import importlib

    from spox import Tensor, argument

    initializer = None
    initializers = []  # every route to an initializer this tree offers; chosen per node
    for modname in ("spox._future", "spox._graph", "spox"):
        try:
            f_ = getattr(importlib.import_module(modname), "initializer")
            if f_ not in initializers:
                initializers.append(f_)
        except Exception:  # noqa: BLE001
            continue
    if initializers:
        def initializer(arr):
            return initializers[(arr.size + len(R.created)) % len(initializers)](arr)
    if initializer is None and any(n["op"] == "init" for n in prog["nodes"]):
        raise HarnessError("no `initializer` constructor found in spox._future / spox._graph")

    op = importlib.import_module(f"spox.opset.ai.onnx.v{prog.get('opset', 17)}")
    ml = importlib.import_module("spox.opset.ai.onnx.ml.v3") if any(n["op"] in ML_OPS for n in prog["nodes"]) else None
    nodes = prog["nodes"]
    dep = formal_deps(prog)
    R = Realised()
    R.style = style
    R.dims = dims
    extras = style.endswith("-extras")
    base = style.replace("-extras", "")
    depth = [0]

    def shape_of(t):
        return tuple(t[1]) if not t[2] else (1,)

    def register(k, outs):
        for i, v in enumerate(outs):
            R.vars[(k, i)] = v
        try:  # observation only (which Python node realises which abstract node)
            R.node_id[outs[0]._op] = k
        except Exception as e:  # noqa: BLE001
            R.unobservable = f"Var._op: {type(e).__name__}: {e}"
        R.created.append(k)
        R.created_in[k] = depth[0]

    def maybe_extra():
        if not extras or rng.random() > 0.35 or not R.vars:
            return
        key = rng.choice(sorted(R.vars))
        v = R.vars[key]
        t = nodes[key[0]]["ty"][key[1]]
        R.extras += 1
        if t[0] == "bool":
            op.not_(v)
        elif rng.random() < 0.5:
            op.abs(v)
        else:
            op.add(v, v)

    # ---- caller-owned containers: every sequence of Vars handed to a constructor is a mutable `list` that the
    # "caller" keeps and MUTATES after the constructor returned (append — also of the constructor's own
    # result —, item assignment, clear, reverse, deletion) or re-uses (cleared and refilled) for the next
    # call; the program's dataflow is what was constructed.  (own = hand out, disown = mutate afterwards)
    mrng = random.Random(f"own:{style}:{len(nodes)}:{prog.get('opset', 17)}")
    shared: list = []  # one list object re-used by consecutive calls
    current: list = [-1]  # abstract node whose constructor is being called
    frames: list = [[]]  # lists handed to the constructor call in flight, per nested make()
    busy = [False]  # the shared list is in the hands of a constructor that has not returned yet

    list_ids: dict[int, int] = {}

    def vid(v):
        if id(v) not in R.var_ids:
            R.var_ids[id(v)] = len(R.var_ids)
            R.keep.append(v)
        return R.var_ids[id(v)]

    def event_set(lst):
        R.keep.append(lst)
        R.events.append([0, list_ids.setdefault(id(lst), len(list_ids)), [vid(v) for v in lst]])

    def own(seq):
        seq = list(seq)
        if not mutate:
            return seq
        if not busy[0] and mrng.random() < 0.4:
            shared.clear()  # the previous call's operands vanish from the list it was given
            shared.extend(seq)
            lst = shared
            busy[0] = True
        else:
            lst = seq
        frames[-1].append(lst)
        R.owned += 1
        event_set(lst)
        R.events.append([1, list_ids[id(lst)]])
        R.calls.append(current[-1])
        return lst

    def own_attr(values):
        """A list-valued attribute handed over as the caller's own list (emptied / overwritten afterwards)."""
        lst = list(values)
        if mutate:
            attr_lists.append(lst)
        return lst

    def own_array(arr):
        """The ndarray behind a Constant / initializer is the caller's: overwritten after construction."""
        if mutate:
            arrays.append(arr)
        return arr

    attr_lists: list = []
    arrays: list = []

    def disown(outs):
        for lst in attr_lists:
            if lst and mrng.random() < 0.5:
                lst[0] = lst[0] + 1
            else:
                lst.clear()
            R.mutations["attribute-list"] = R.mutations.get("attribute-list", 0) + 1
        attr_lists.clear()
        for arr in arrays:
            try:
                if arr.size and arr.flags.writeable:
                    arr[...] = arr.dtype.type(1) if arr.dtype != np.bool_ else ~arr
                    if arr.dtype != np.bool_:
                        arr += arr.dtype.type(41)
                    R.mutations["ndarray-overwritten"] = R.mutations.get("ndarray-overwritten", 0) + 1
            except (ValueError, TypeError):
                pass
        arrays.clear()
        pending = frames[-1]
        while pending:
            lst = pending.pop()
            if lst is shared:
                busy[0] = False
            if lst is shared and mrng.random() < 0.5:
                continue  # left as it is until the next call re-uses it
            others = [v for v in R.vars.values()]
            kind = mrng.choice(["append", "append-own-result", "setitem", "setitem-own-result", "clear", "reverse", "del", "insert"])
            if kind == "append" and others:
                lst.append(mrng.choice(others))
            elif kind == "append-own-result":
                lst.append(outs[0])
            elif kind == "setitem" and lst and others:
                lst[mrng.randrange(len(lst))] = mrng.choice(others)
            elif kind == "setitem-own-result" and lst:
                lst[0] = outs[-1]
            elif kind == "clear":
                lst.clear()
            elif kind == "reverse":
                lst.reverse()
            elif kind == "del" and lst:
                del lst[mrng.randrange(len(lst))]
            elif others:
                lst.insert(0, mrng.choice(others))
            R.mutations[kind] = R.mutations.get(kind, 0) + 1
            if id(lst) in list_ids:
                event_set(lst)

    def var(r):
        make(r[0])
        return R.vars[(r[0], r[1])]

    def make(k):
        if (k, 0) in R.vars:
            return
        n = nodes[k]
        o = n["op"]
        if o == "arg":
            if n["attrs"].get("role") != "main":
                raise HarnessError(f"formal {k} demanded outside its body (generator bug)")
            t = n["ty"][0]
            shp = shape_of(t)
            if dims != "concrete" and not n["attrs"].get("range") == "trip":
                drng = random.Random(f"{k}:{dims}:{len(nodes)}")
                shp = tuple((f"d{d_}" if dims == "symbolic" else None) if drng.random() < 0.6 else d_ for d_ in shp)
            if mutate and shp and (k + len(nodes)) % 2:
                shp_l = list(shp)  # the shape is the caller's list, grown once the type object exists
                tt = Tensor(DT[t[0]], shp_l)
                shp_l.append(7)
                R.mutations["shape-list"] = R.mutations.get("shape-list", 0) + 1
            else:
                tt = Tensor(DT[t[0]], shp)
            register(k, [argument(tt)])
            return
        order = [j for j, r in enumerate(n["ins"]) if r is not None]
        if base != "eager":
            rng.shuffle(order)
        for j in order:
            make(n["ins"][j][0])
        a = [None if r is None else R.vars[(r[0], r[1])] for r in n["ins"]]
        frames.append([])
        current.append(k)
        try:
            construct(k, n, o, a)
        finally:
            frames.pop()
            current.pop()

    def construct(k, n, o, a):

        def callback(body):
            def cb(*formals):
                depth[0] += 1
                try:
                    for fid, fv in zip(body["args"], formals):
                        register(fid, [fv])
                    if len(formals) != len(body["args"]):
                        raise ConstructorShapeMismatch(f"{o} body callback got {len(formals)} formals, expected {len(body['args'])}")
                    if body["args"]:
                        create_upfront(frozenset(body["args"]))
                    res = [var(r) for r in body["res"]]
                    maybe_extra()
                    if mutate:  # the list a callback returns is the caller's too: mutated once the constructor is back
                        frames[-1].append(res)
                        R.owned += 1
                    return res
                finally:
                    depth[0] -= 1

            return cb

        if o == "init":
            outs = [initializer(own_array(layout_view(np_const(n), n["attrs"].get("layout", "C"))))]
        elif o == "Constant":
            outs = [op.constant(value=own_array(layout_view(np_const(n), n["attrs"].get("layout", "C"))))]
        elif o == "Reshape":
            outs = [op.reshape(a[0], a[1])]
        elif o == "Scan":
            outs = list(op.scan(own(a), body=callback(n["subs"][0]), num_scan_inputs=n["attrs"]["num_scan_inputs"]))
        elif o == "Add":
            outs = [op.add(a[0], a[1])]
        elif o == "Mul":
            outs = [op.mul(a[0], a[1])]
        elif o == "Sub":
            outs = [op.sub(a[0], a[1])]
        elif o == "ConstScalar":
            outs = [const_scalar(op, n["attrs"], own_attr)]
        elif o == "Div":
            outs = [op.div(a[0], a[1])]
        elif o == "Gather":
            outs = [op.gather(a[0], a[1], axis=0)]
        elif o == "LeakyRelu":
            outs = [op.leaky_relu(a[0], alpha=n["attrs"]["alpha"])]
        elif o == "LabelEncoder":
            outs = [ml.label_encoder(a[0], keys_int64s=own_attr(n["attrs"]["keys"]), values_int64s=own_attr(n["attrs"]["values"]),
                                     default_int64=n["attrs"]["default"])]
        elif o == "Scaler":
            outs = [ml.scaler(a[0], offset=own_attr([n["attrs"]["offset"]]), scale=own_attr([n["attrs"]["scale"]]))]
        elif o == "Binarizer":
            outs = [ml.binarizer(a[0], threshold=n["attrs"]["threshold"])]
        elif o == "Gelu":
            outs = [op.gelu(a[0])]
        elif o == "DFT":
            outs = [op.dft(a[0], a[1], a[2])]
        elif o == "BitNot":
            outs = [op.bitwise_not(a[0])]
        elif o == "BitAnd":
            outs = [op.bitwise_and(a[0], a[1])]
        elif o == "BitOr":
            outs = [op.bitwise_or(a[0], a[1])]
        elif o == "BitXor":
            outs = [op.bitwise_xor(a[0], a[1])]
        elif o == "Max":
            outs = [op.max(own(a))]
        elif o == "Min":
            outs = [op.min(own(a))]
        elif o == "Sum":
            outs = [op.sum(own(a))]
        elif o == "Mean":
            outs = [op.mean(own(a))]
        elif o == "Einsum":
            outs = [op.einsum(own(a), equation=n["attrs"]["equation"])]
        elif o == "Transpose":
            outs = [op.transpose(a[0], perm=own_attr(n["attrs"]["perm"]))]
        elif o == "Neg":
            outs = [op.neg(a[0])]
        elif o == "Abs":
            outs = [op.abs(a[0])]
        elif o == "Identity":
            outs = [op.identity(a[0])]
        elif o == "Not":
            outs = [op.not_(a[0])]
        elif o == "Less":
            outs = [op.less(a[0], a[1])]
        elif o == "Cast":
            outs = [op.cast(a[0], to=DT[n["attrs"]["to"]])]
        elif o == "Where":
            outs = [op.where(a[0], a[1], a[2])]
        elif o == "Concat":
            outs = [op.concat(own(a), axis=n["attrs"]["axis"])]
        elif o == "Clip":
            outs = [op.clip(a[0], a[1], a[2])]
        elif o == "ReduceSum":
            outs = [op.reduce_sum(a[0], a[1], keepdims=n["attrs"]["keepdims"])]
        elif o == "Split":
            import inspect

            if "outputs_count" in inspect.signature(op.split).parameters:
                outs = list(op.split(a[0], a[1], outputs_count=n["attrs"]["outputs"], axis=n["attrs"]["axis"]))
            else:  # opset >= 18: the number of outputs is the `num_outputs` argument
                outs = list(op.split(a[0], a[1], num_outputs=n["attrs"]["outputs"], axis=n["attrs"]["axis"]))
        elif o == "TopK":
            outs = list(op.top_k(a[0], a[1], axis=n["attrs"]["axis"], largest=n["attrs"]["largest"]))
        elif o == "If":
            outs = list(op.if_(a[0], then_branch=callback(n["subs"][0]), else_branch=callback(n["subs"][1])))
        elif o == "Loop":
            outs = list(op.loop(a[0], a[1], own(a[2:]), body=callback(n["subs"][0])))
        else:
            raise HarnessError(f"unknown operator {o}")
        if len(outs) != len(n["ty"]):
            raise ConstructorShapeMismatch(f"{o}: {len(outs)} outputs, abstract node has {len(n['ty'])}")
        register(k, outs)
        disown(outs)
        maybe_extra()

    if twins:  # history: ==-equal but different attribute values, constructed first and never requested
        from spox import Tensor as _T, argument as _arg

        for n_ in prog["nodes"]:
            tw = attribute_twin(n_)
            if tw is None:
                continue
            R.extras += 1
            if tw["op"] == "ConstScalar":
                const_scalar(op, tw["attrs"])
            else:
                op.leaky_relu(_arg(_T(np.float32, (N,))), alpha=tw["attrs"]["alpha"])
    upfront: set[int] = set()
    if base in ("eager", "eager-shuffled"):
        upfront = set(range(len(nodes)))
    elif base == "mixed":
        upfront = {k for k in range(len(nodes)) if rng.random() < 0.5}
    active: list[frozenset] = [frozenset()]

    def create_upfront(new_formals: frozenset):
        """Create the up-front nodes that became constructible with `new_formals` in scope."""
        active.append(active[-1] | new_formals)
        try:
            ks = [
                k
                for k in sorted(upfront)
                if (k, 0) not in R.vars
                and nodes[k]["op"] != "arg"
                and dep[k] <= active[-1]
                and (not new_formals or dep[k] & new_formals)
            ]
            if base == "eager-shuffled" or base == "mixed":
                # random dataflow-compatible order: make() creates missing inputs first
                rng.shuffle(ks)
            for k in ks:
                make(k)
        finally:
            active.pop()

    # model inputs first, in argument order (their creation order is varied separately below)
    margs = main_args(prog)
    order = list(margs)
    if base != "eager":
        rng.shuffle(order)
    for a in order:
        make(a)
    create_upfront(frozenset())
    # the dicts handed to build(): names are fixed (`in<id>`, `out<position in prog.outputs>`), the
    # insertion order — which becomes the model's input / output order — is part of the style
    outs = {i: var(r) for i, r in enumerate(prog["outputs"])}
    okeys, ikeys = list(outs), list(margs)
    if base != "eager":
        rng.shuffle(okeys)
        rng.shuffle(ikeys)
    for i in okeys:
        R.outputs[f"out{i}"] = outs[i]
    for a in ikeys:
        R.inputs[f"in{a}"] = R.vars[(a, 0)]
    return R


# ---------------------------------------------------------------------- capture and extraction
@contextlib.contextmanager
def capture_builds():
    """Record (Builder, BuildResult) of every `Builder.build_main` call made inside the block.
    Observation only: the wrapped method returns exactly what the original returned.  If the hook
    point does not exist (refactored internals) the block still runs; the log then carries the
    reason in `log.unobservable` and stays empty."""

    class _Log(list):
        unobservable: Optional[str] = None

    log = _Log()
    orig = None
    cls = None
    try:
        import spox._build as _b

        cls = _b.Builder
        orig = cls.build_main

        def wrapped(self, *a, **k):
            res = orig(self, *a, **k)
            try:
                log.append((self, res))
            except Exception:  # noqa: BLE001
                pass
            return res

        cls.build_main = wrapped
    except Exception as e:  # noqa: BLE001
        log.unobservable = f"spox._build.Builder.build_main: {type(e).__name__}: {e}"
        orig = None
    try:
        yield log
    finally:
        if orig is not None:
            try:
                cls.build_main = orig
            except Exception:  # noqa: BLE001
                pass


def build_model(realised: Realised, capture: bool = False):
    """`spox.build` on a realisation; returns (model, capture log).  The log is empty unless
    `capture=True` (C01 does not need it)."""
    import spox

    with warnings.catch_warnings():
        warnings.simplefilter("ignore")
        if capture:
            with capture_builds() as log:
                model = spox.build(realised.inputs, realised.outputs)
        else:
            log = []
            model = spox.build(realised.inputs, realised.outputs)
    return model, log


def _graph_attrs(node_proto):
    return {a.name: a.g for a in node_proto.attribute if a.type == 5}  # AttributeProto.GRAPH


def extract_emission(prog, model):
    """Recover the nested emission (node ids of the abstract program, in the order the ModelProto
    lists them) from the built model — from the ModelProto and the abstract program alone, no spox
    internals.

    The correspondence NodeProto ↔ abstract node is *derived by demand from the results*: model
    output `t` must be the requested output `t`; the NodeProto producing a demanded name must be the
    abstract node of the demanded reference (same operator, same output position), which in turn
    demands each of its input names to be its abstract inputs (omitted ↔ omitted), its body graphs
    (matched by attribute name) to bind the abstract formals positionally and to return the abstract
    body results; initializers must be initializer nodes with the same value.  Names must be globally
    unique.  The trailing Identity nodes that produce a graph's outputs are renamings.  Any
    inconsistency is reported in `problems`.  Ordering and scoping are deliberately *not* judged
    here: that is the job of the Lean `validG` on the returned emission.

    Returns (emission | None, problems).  emission = [args, [[id, [emission...]]...], results].
    """
    from onnx import numpy_helper

    nodes = prog["nodes"]
    problems: list[str] = []

    def problem(msg):
        if len(problems) < 20:
            problems.append(msg)

    # ---- a stable tree of the nested graphs
    class G:
        def __init__(self, g, main):
            self.g = g
            self.main = main
            self.name = g.name
            self.inputs = [i.name for i in g.input]
            self.inits = list(g.initializer)
            self.outs = [o.name for o in g.output]
            self.nodes = []  # (NodeProto, {attr name: G})
            self.pg_args: Optional[list[int]] = None
            for e in g.node:
                subs = {a.name: G(a.g, False) for a in e.attribute if a.type == 5}
                self.nodes.append((e, subs))
            k = len(self.outs)
            tail = self.nodes[len(self.nodes) - k:] if k and len(self.nodes) >= k else []
            ok = (
                len(tail) == k
                and all(e.op_type == "Identity" and len(e.input) == 1 and list(e.output) == [o] and not sb
                        for (e, sb), o in zip(tail, self.outs))
            )
            self.alias = {id(e) for e, _ in tail} if ok else set()
            if not ok:
                problem(f"graph {self.name}: the graph outputs are not produced by trailing Identity nodes")

    root = G(model.graph, True)

    # ---- every definition in the whole model; names must be unique
    producers: dict[str, tuple] = {}
    dup: list[str] = []

    def define(name, what):
        if not name:
            return
        if name in producers:
            dup.append(name)
        producers[name] = what

    def index(gr: G):
        init_names = {t.name for t in gr.inits}
        for pos, nm in enumerate(gr.inputs):
            if gr.main and nm in init_names:
                continue
            define(nm, ("input", gr, pos))
        for t in gr.inits:
            if gr.main and t.name in gr.inputs:
                problem(f"main input {t.name!r} has a default value (not in this vocabulary)")
            define(t.name, ("init", gr, t))
        for e, subs in gr.nodes:
            for j, nm in enumerate(e.output):
                define(nm, ("node", gr, e, j))
            for sg in subs.values():
                index(sg)

    index(root)
    if dup:
        problem(f"names defined more than once in the model: {sorted(set(dup))[:6]}")

    margs = main_args(prog)
    root.pg_args = margs
    mu: dict[int, int] = {}  # id(NodeProto) -> abstract node id
    init_id: dict[str, int] = {}
    subs_of: dict[int, dict] = {id(e): sb for gr in _walk_graphs(root) for e, sb in gr.nodes}
    alias_of: dict[int, bool] = {id(e): (id(e) in gr.alias) for gr in _walk_graphs(root) for e, _ in gr.nodes}
    work: list[tuple[str, tuple[int, int], str]] = []

    def assign(e, k: int, where: str):
        if id(e) in mu:
            if mu[id(e)] != k:
                problem(f"node {e.name}: demanded both as program node {mu[id(e)]} and {k}")
            return
        mu[id(e)] = k
        n = nodes[k]
        if n["op"] not in ONNX_NAME or e.op_type != ONNX_NAME[n["op"]]:
            problem(f"node {e.name}: op_type {e.op_type}, but {where} demands program node {k} ({n['op']})")
            return
        if (e.domain or "") != ("ai.onnx.ml" if n["op"] in ML_OPS else ""):
            problem(f"node {e.name}: domain {e.domain!r} for program node {k} ({n['op']})")
        names = list(e.input)
        if len(names) > len(n["ins"]) and any(names[len(n["ins"]):]):
            problem(f"node {e.name}: {len(names)} inputs, program node {k} has {len(n['ins'])}")
        names = names + [""] * (len(n["ins"]) - len(names))
        for j, r in enumerate(n["ins"]):
            if r is None:
                if names[j]:
                    problem(f"node {e.name}: input {j} should be omitted, is {names[j]!r}")
            elif not names[j]:
                problem(f"node {e.name}: input {j} is omitted, program says {tuple(r)}")
            else:
                work.append((names[j], (r[0], r[1]), f"input {j} of {e.name}"))
        if len([o for o in e.output if o]) > len(n["ty"]):
            problem(f"node {e.name}: {len(e.output)} outputs, program node {k} has {len(n['ty'])}")
        want = SUB_ATTRS.get(n["op"], [])
        sb = subs_of[id(e)]
        if sorted(sb) != sorted(want):
            problem(f"node {e.name}: graph attributes {sorted(sb)}, expected {sorted(want)}")
            return
        for idx, an in enumerate(want):
            sg, ps = sb[an], n["subs"][idx]
            sg.pg_args = list(ps["args"])
            if len(sg.inputs) != len(ps["args"]):
                problem(f"graph {sg.name}: {len(sg.inputs)} formals, program body has {len(ps['args'])}")
            if len(sg.outs) != len(ps["res"]):
                problem(f"graph {sg.name}: {len(sg.outs)} results, program body has {len(ps['res'])}")
            for o, r in zip(sg.outs, ps["res"]):
                work.append((o, (r[0], r[1]), f"result of {sg.name}"))

    def require(name: str, ref: tuple[int, int], where: str):
        d = producers.get(name)
        if d is None:
            problem(f"{where}: name {name!r} is not defined anywhere in the model")
            return
        if d[0] == "input":
            gr, pos = d[1], d[2]
            if gr.main:
                ok = name.startswith("in") and name[2:].isdigit() and (int(name[2:]), 0) == ref and ref[0] in margs
            else:
                ok = gr.pg_args is not None and pos < len(gr.pg_args) and (gr.pg_args[pos], 0) == ref
            if not ok:
                problem(f"{where}: {name!r} is formal {pos} of graph {gr.name}, program says {ref}")
        elif d[0] == "init":
            n = nodes[ref[0]] if ref[0] < len(nodes) else None
            if n is None or n["op"] != "init" or ref[1] != 0:
                problem(f"{where}: {name!r} is an initializer, program says {ref}")
                return
            if init_id.setdefault(name, ref[0]) != ref[0]:
                problem(f"initializer {name!r} demanded as two different program nodes")
            try:
                if not np.array_equal(numpy_helper.to_array(d[2]), np_const(n)):
                    problem(f"initializer {name!r}: value differs from program node {ref[0]}")
            except Exception as e:  # noqa: BLE001
                problem(f"initializer {name!r}: unreadable ({type(e).__name__})")
        else:
            _, gr, e, j = d
            if alias_of[id(e)]:
                work.append((e.input[0], ref, where + " via " + e.name))
            elif j != ref[1]:
                problem(f"{where}: {name!r} is output {j} of {e.name}, program says {ref}")
            else:
                assign(e, ref[0], where)

    if sorted(root.outs) != sorted(f"out{i}" for i in range(len(prog["outputs"]))):
        problem(f"model outputs {root.outs}, requested were out0..out{len(prog['outputs']) - 1}")
    for o in root.outs:
        if o.startswith("out") and o[3:].isdigit() and int(o[3:]) < len(prog["outputs"]):
            r = prog["outputs"][int(o[3:])]
            work.append((o, (r[0], r[1]), "model output " + o))
    for nm in root.inputs:
        if not (nm.startswith("in") and nm[2:].isdigit() and int(nm[2:]) in margs):
            problem(f"main graph input {nm!r} is not a requested input")
    steps = 0
    while work and steps < 100000:
        steps += 1
        require(*work.pop())

    # ---- the emission, by reading the model in its own order
    def resolve(name, hops=0):
        d = producers.get(name)
        if d is None or hops > 60:
            return None
        if d[0] == "input":
            gr, pos = d[1], d[2]
            if gr.main:
                return (int(name[2:]), 0) if name.startswith("in") and name[2:].isdigit() else None
            return (gr.pg_args[pos], 0) if gr.pg_args is not None and pos < len(gr.pg_args) else None
        if d[0] == "init":
            return (init_id[name], 0) if name in init_id else None
        _, gr, e, j = d
        if alias_of[id(e)]:
            return resolve(e.input[0], hops + 1)
        return (mu[id(e)], j) if id(e) in mu else None

    def emit(gr: G):
        body = []
        for t in gr.inits:
            if t.name in init_id:
                body.append([init_id[t.name], []])
            elif not (gr.main and t.name in gr.inputs):
                problem(f"graph {gr.name}: initializer {t.name!r} is used by no result")
        for e, sb in gr.nodes:
            if id(e) in gr.alias:
                continue
            if id(e) not in mu:
                problem(f"graph {gr.name}: node {e.name} ({e.op_type}) is required by no result")
                continue
            k = mu[id(e)]
            want = SUB_ATTRS.get(nodes[k]["op"], [])
            body.append([k, [emit(sb[an]) for an in want if an in sb]])
        res = []
        for nm in gr.outs:
            r = resolve(nm)
            if r is None:
                problem(f"graph {gr.name}: output {nm!r} cannot be traced to a program value")
                r = (10 ** 6, 0)
            res.append([r[0], r[1]])
        if gr.main:
            args = [int(nm[2:]) for nm in gr.inputs if nm.startswith("in") and nm[2:].isdigit()]
        else:
            args = list(gr.pg_args) if gr.pg_args is not None else []
        return [args, body, res]

    em = emit(root)
    return em, problems


def _walk_graphs(gr):
    yield gr
    for _, subs in gr.nodes:
        for sg in subs.values():
            yield from _walk_graphs(sg)


def renumber(prog, order: list[int]):
    """The program restricted to the nodes in `order` and renumbered by position in `order` (used with
    `Realised.created`: the program as it was *really* created, in real creation order).  Returns
    (prog', idmap); references to nodes outside `order` become dangling ids (≥ len) on purpose."""
    idmap = {k: i for i, k in enumerate(order)}
    big = len(prog["nodes"]) + len(order) + 7

    def ref(r):
        return None if r is None else [idmap.get(r[0], big + r[0]), r[1]]

    nodes = []
    for k in order:
        n = prog["nodes"][k]
        nodes.append({
            "op": n["op"],
            "ins": [ref(r) for r in n["ins"]],
            "subs": [{"args": [idmap.get(a, big + a) for a in s["args"]], "res": [ref(r) for r in s["res"]]} for s in n["subs"]],
            "attrs": n["attrs"],
            "ty": n["ty"],
        })
    return {"nodes": nodes, "outputs": [ref(r) for r in prog["outputs"]], "opset": prog.get("opset", 17)}, idmap


def rename_emission(em, idmap, big=10 ** 6):
    """Apply an id renaming to an emission."""
    return [
        [idmap.get(a, big + a) for a in em[0]],
        [[idmap.get(k, big + k), [rename_emission(s, idmap, big) for s in subs]] for k, subs in em[1]],
        [[idmap.get(r[0], big + r[0]), r[1]] for r in em[2]],
    ]


_LABELS: dict[str, int] = {}


def labels_of(prog) -> list[int]:
    """Semantic label of every node: one number per distinct (operator, attributes) pair; the table is
    process-wide so that the same pair gets the same label in every numbering of a program."""
    out = []
    for n in prog["nodes"]:
        key = json.dumps([n["op"], n["attrs"], len(n["ty"])], sort_keys=True)
        out.append(_LABELS.setdefault(key, len(_LABELS) + 1))
    return out


def lean_request(prog, emission, vals: list[list[int]], seed: int, margs: Optional[list[int]] = None,
                 mres: Optional[list] = None) -> dict:
    """The request understood by `Drv/C01.lean` (program, emission, integer test bindings).
    `margs` / `mres`: the model's inputs / requested outputs in model order (default: main arguments
    in id order / `prog["outputs"]`)."""
    labs = labels_of(prog)
    nodes = []
    for n, lab in zip(prog["nodes"], labs):
        kind = 0 if n["op"] == "arg" else (1 if n["op"] == "init" else 2)
        nodes.append([kind, lab, n["ins"], [[s["args"], s["res"]] for s in n["subs"]]])
    # cost of the direct denotation `table` (every body call re-evaluates all older nodes)
    full = [0]
    for n in prog["nodes"]:
        full.append(full[-1] + 1 + len(n["subs"]) * full[-1])
    return {
        "nodes": nodes,
        "main": [main_args(prog) if margs is None else margs, prog["outputs"] if mres is None else mres],
        "emit": emission,
        "vals": vals,
        "seed": seed,
        "denote": full[-1] <= 300000,
    }


def emission_stats(em) -> dict:
    st = {"graphs": 0, "nodes": 0, "depth": 0, "depth_of": {}}

    def walk(g, d):
        st["graphs"] += 1
        st["depth"] = max(st["depth"], d)
        for k, subs in g[1]:
            st["nodes"] += 1
            st["depth_of"][k] = d
            for s in subs:
                walk(s, d + 1)

    walk(em, 0)
    return st


# ------------------------------------------------------------------------------------- runtimes
_REMOTE = [None]


def _remote():
    """The onnxruntime child process (harness/lib_ort_worker.py), unless C01_ORT_INPROCESS=1 or it cannot start."""
    import os

    if os.environ.get("C01_ORT_INPROCESS") == "1":
        return None
    if _REMOTE[0] is None:
        try:
            from harness.lib_ort_worker import RemoteOrt

            r = RemoteOrt()
            r._start()
            _REMOTE[0] = r
            import atexit

            atexit.register(r.close)
        except Exception:  # noqa: BLE001
            _REMOTE[0] = False
    return _REMOTE[0] or None


def ort_crashes() -> int:
    return _REMOTE[0].crashes if _REMOTE[0] else 0


def ort_session(model):
    """onnxruntime session with graph optimisations disabled: ('ok', session) or ('load-err', message).
    The session lives in a child process: a native crash of onnxruntime is a 'load-err' / 'run-err' of that case."""
    rem = _remote()
    if rem is not None:
        return rem.load(model.SerializeToString())
    import onnxruntime as ort

    so = ort.SessionOptions()
    so.graph_optimization_level = ort.GraphOptimizationLevel.ORT_DISABLE_ALL
    so.log_severity_level = 4
    so.intra_op_num_threads = 1
    so.inter_op_num_threads = 1
    try:
        return "ok", ort.InferenceSession(model.SerializeToString(), so, providers=["CPUExecutionProvider"])
    except Exception as e:  # noqa: BLE001
        return "load-err", f"{type(e).__name__}: {str(e)[:300]}"


def ort_run(sess, feeds):
    if isinstance(sess, tuple):  # handle of a session in the child process
        return _REMOTE[0].run(sess, feeds)
    try:
        return "ok", sess.run(None, feeds)
    except Exception as e:  # noqa: BLE001
        return "run-err", f"{type(e).__name__}: {str(e)[:300]}"


def run_reference(model, feeds):
    import onnx.reference

    try:
        with warnings.catch_warnings():
            warnings.simplefilter("ignore")
            ref = onnx.reference.ReferenceEvaluator(model)
            return "ok", ref.run(None, feeds)
    except Exception as e:  # noqa: BLE001
        return "err", f"{type(e).__name__}: {str(e)[:300]}"


def same_value(got, want, atol: float = 1e-6) -> Optional[str]:
    """None if equal (exact for ints/bools, 1e-5 relative for floats), else a short description."""
    got = np.asarray(got)
    want = np.asarray(want)
    if got.dtype != want.dtype:
        return f"dtype {got.dtype} != {want.dtype}"
    if got.shape != want.shape:
        if got.size == 0 and want.size == 0:
            return None
        return f"shape {got.shape} != {want.shape}"
    if want.dtype == np.float32:
        if not np.allclose(got, want, rtol=1e-5, atol=atol):
            return f"values {got.tolist()} != {want.tolist()}"
    elif not np.array_equal(got, want):
        return f"values {got.tolist()} != {want.tolist()}"
    return None


# ------------------------------------------------------------------------ exhaustive skeletons
def skeleton_programs(max_uses: int = 3) -> Iterator[tuple[dict, str]]:
    """Exhaustive family aimed at scoping/ordering: a fixed nest of graphs

        main ▸ If A {then: ▸ Loop L {body ▸ If B {then, else}}, else}        (6 graphs)

    and one closed value `k = x * x` (plus one value `w` derived from it) used in every non-empty
    subset of the six graphs (|subset| ≤ max_uses); every graph adds the values it uses to what it
    returns.  Where `k` is *created* is chosen by the realisation style.  Yields (prog, tag).
    """
    places = ["main", "A.then", "A.else", "L.body", "B.then", "B.else"]
    for r in range(1, max_uses + 1):
        for uses in itertools.combinations(range(6), r):
            for two in (False, True):
                yield _skeleton(set(uses), two), "+".join(places[u] for u in uses) + ("/w" if two else "")


def _skeleton(uses: set, two: bool) -> dict:
    nodes: list[dict] = []

    def add(op, ins=(), subs=(), attrs=None, tys=()):
        nodes.append({"op": op, "ins": [list(r) if r else None for r in ins], "subs": list(subs), "attrs": dict(attrs or {}), "ty": [list(t) for t in tys]})
        return len(nodes) - 1

    V = ty("i64", [N])
    x = add("arg", attrs={"role": "main"}, tys=[V])
    c = add("arg", attrs={"role": "main"}, tys=[ty("bool", [])])
    d = add("arg", attrs={"role": "main"}, tys=[ty("bool", [])])
    n = add("arg", attrs={"role": "main", "range": "trip"}, tys=[ty("i64", [])])
    k = add("Mul", [(x, 0), (x, 0)], tys=[V])
    if two:
        k2 = add("Neg", [(k, 0)], tys=[V])
        kk = add("Add", [(k2, 0), (x, 0)], tys=[V])
    else:
        kk = k

    def use(place, base):
        """base (+ kk if this place uses it)"""
        if place in uses:
            return (add("Add", [base, (kk, 0)], tys=[V]), 0)
        return base

    it = add("arg", attrs={"role": "formal"}, tys=[ty("i64", [], True)])
    cn = add("arg", attrs={"role": "formal"}, tys=[ty("bool", [], True)])
    acc = add("arg", attrs={"role": "formal"}, tys=[V])
    bt = use(4, (add("Add", [(acc, 0), (it, 0)], tys=[V]), 0))
    be = use(5, (acc, 0))
    ifb = add("If", [(d, 0)], [{"args": [], "res": [list(bt)]}, {"args": [], "res": [list(be)]}], tys=[V])
    lres = use(3, (ifb, 0))
    loop = add("Loop", [(n, 0), None, (x, 0)], [{"args": [it, cn, acc], "res": [[cn, 0], list(lres)]}], tys=[V])
    at = use(1, (loop, 0))
    ae = use(2, (x, 0))
    ifa = add("If", [(c, 0)], [{"args": [], "res": [list(at)]}, {"args": [], "res": [list(ae)]}], tys=[V])
    out = use(0, (ifa, 0))
    return {"nodes": nodes, "outputs": [list(out)], "opset": 17}


def same_bits(got, want) -> Optional[str]:
    """Bit-level comparison for programs with special float values: same dtype and shape, NaN exactly
    where NaN is expected, everything else equal *including the sign of zeros* (infinities compare
    by value)."""
    got, want = np.asarray(got), np.asarray(want)
    if got.dtype != want.dtype:
        return f"dtype {got.dtype} != {want.dtype}"
    if got.shape != want.shape:
        return f"shape {got.shape} != {want.shape}"
    if want.dtype == np.float32:
        ng, nw = np.isnan(got), np.isnan(want)
        if not np.array_equal(ng, nw):
            return f"NaN pattern {got.tolist()} != {want.tolist()}"
        g, w = np.where(ng, 0, got), np.where(nw, 0, want)
        if not np.array_equal(g, w) or not np.array_equal(np.signbit(g), np.signbit(w)):
            return f"values {got.tolist()} != {want.tolist()} (signs of zeros count)"
    elif not np.array_equal(got, want):
        return f"values {got.tolist()} != {want.tolist()}"
    return None


SPECIAL_FLOATS = [0.0, -0.0, 1.0, -1.0, 2.0, 0.5, float("inf"), float("-inf"), float("nan"), 3.0, -2.0, 1e-45, -1e-45]


def gen_attr_program(rng: random.Random) -> dict:
    """A small program around *scalar-attribute* operators with unusual values (±0.0, ±inf, NaN, numpy
    scalars of different element types with equal value): Constants written through `value_float`,
    `value_floats`, `value_int(s)` or a numpy scalar, LeakyRelu alphas; the values are made observable
    bit-exactly (x / c, c * x, LeakyRelu) and partly sit inside If bodies.  `prog["special"]` tells the
    oracle to compare with `same_bits` and not to skip non-finite values."""
    nodes: list[dict] = []

    def add(op, ins=(), subs=(), attrs=None, tys=()):
        nodes.append({"op": op, "ins": [list(r) if r else None for r in ins], "subs": list(subs), "attrs": dict(attrs or {}), "ty": [list(t) for t in tys]})
        return len(nodes) - 1

    V = ty("f32", [N])
    x = add("arg", attrs={"role": "main", "range": "special"}, tys=[V])
    c = add("arg", attrs={"role": "main"}, tys=[ty("bool", [])])
    vals: list[tuple[int, int]] = []

    def one_value():
        kind = rng.choice(["float", "float", "floats", "np", "leaky", "leaky"])
        if kind == "float":
            k = add("ConstScalar", attrs={"form": "float", "value": rng.choice(SPECIAL_FLOATS)}, tys=[ty("f32", [])])
            return (add(rng.choice(["Div", "Mul", "Div"]), [(x, 0), (k, 0)], tys=[V]), 0)
        if kind == "floats":
            k = add("ConstScalar", attrs={"form": "floats", "value": [rng.choice(SPECIAL_FLOATS[:6]) for _ in range(N)]}, tys=[V])
            return (add(rng.choice(["Div", "Mul"]), [(x, 0), (k, 0)], tys=[V]), 0)
        if kind == "np":
            v = rng.choice([0.0, 1.0, 2.0, -1.0])
            k = add("ConstScalar", attrs={"form": "np", "dtype": "f32", "value": v}, tys=[ty("f32", [])])
            return (add("Mul", [(x, 0), (k, 0)], tys=[V]), 0)
        return (add("LeakyRelu", [(x, 0)], attrs={"alpha": rng.choice([0.0, -0.0, 0.5, -1.0, 2.0])}, tys=[V]), 0)

    for _ in range(rng.randint(1, 3)):
        vals.append(one_value())
    if rng.random() < 0.6:  # one more pair of values, each created inside a branch of an If
        t = one_value()
        e = one_value()
        vals.append((add("If", [(c, 0)], [{"args": [], "res": [list(t)]}, {"args": [], "res": [list(e)]}], tys=[V]), 0))
    if rng.random() < 0.5:  # integer attribute forms, for the element-type half
        form = rng.choice(["int", "ints", "np"])
        if form == "int":
            k = add("ConstScalar", attrs={"form": "int", "value": rng.choice([0, 1, -1, 2])}, tys=[ty("i64", [])])
        elif form == "ints":
            k = add("ConstScalar", attrs={"form": "ints", "value": [rng.choice([0, 1, 2]) for _ in range(N)]}, tys=[ty("i64", [N])])
        else:
            k = add("ConstScalar", attrs={"form": "np", "dtype": rng.choice(["i64", "bool"]), "value": rng.choice([0, 1])}, tys=[ty("i64", [])])
            nodes[k]["ty"] = [ty(nodes[k]["attrs"]["dtype"], [])]
        vals.append((k, 0))
    outs = vals[-3:]
    return {"nodes": nodes, "outputs": [list(o) for o in outs], "opset": rng.choice([17, 18, 19, 20, 21]), "special": True}


# ------------------------------------------------------------------------------------ shrinking
def prune(prog, bindings: Optional[list[dict]] = None):
    """Drop everything the requested outputs do not depend on and renumber.  Returns
    (prog', bindings') with the bindings re-keyed to the new argument ids."""
    keep = sorted(reachable(prog))
    idmap = {k: i for i, k in enumerate(keep)}

    def ref(r):
        return None if r is None else [idmap[r[0]], r[1]]

    nodes = []
    for k in keep:
        n = prog["nodes"][k]
        nodes.append(
            {
                "op": n["op"],
                "ins": [ref(r) for r in n["ins"]],
                "subs": [{"args": [idmap[a] for a in s["args"]], "res": [ref(r) for r in s["res"]]} for s in n["subs"]],
                "attrs": dict(n["attrs"]),
                "ty": [list(t) for t in n["ty"]],
            }
        )
    out = {k_: v_ for k_, v_ in prog.items() if k_ not in ("nodes", "outputs")}  # opset, special, …
    out.update({"nodes": nodes, "outputs": [ref(r) for r in prog["outputs"]], "opset": prog.get("opset", 17)})
    nb = None
    if bindings is not None:
        nb = [{idmap[a]: v for a, v in b.items() if a in idmap} for b in bindings]
    return out, nb


def _substitute(prog, k: int, i: int, new) -> dict:
    """Replace every use of output (k, i) by reference `new`."""
    p = json.loads(json.dumps(prog))

    def sub(r):
        return list(new) if r is not None and r[0] == k and r[1] == i else r

    for n in p["nodes"]:
        fixed = 1 if n["op"] in ("Split", "TopK", "Reshape") else None  # sizes / K / shape stay the constant
        n["ins"] = [r if j == fixed else sub(r) for j, r in enumerate(n["ins"])]
        for s in n["subs"]:
            s["res"] = [sub(r) for r in s["res"]]
    p["outputs"] = [sub(r) for r in p["outputs"]]
    return p


def shrink(prog, bindings: list[dict], still_fails, budget: int = 120):
    """Greedy shrinking: fewer outputs, then replace a node's uses by an older value of the same
    type (which flattens bodies and deletes nodes), pruning after every step.  `still_fails(prog,
    bindings)` must return True when the candidate still shows the same failure."""
    cur, curb = prune(prog, bindings)
    spent = 0
    if len(cur["outputs"]) > 1:
        for r in list(cur["outputs"]):
            cand = dict(cur, outputs=[r])
            cand, cb = prune(cand, curb)
            spent += 1
            if still_fails(cand, cb):
                cur, curb = cand, cb
                break
    progress = True
    while progress and spent < budget:
        progress = False
        dep = formal_deps(cur)
        for k in range(len(cur["nodes"]) - 1, -1, -1):
            n = cur["nodes"][k]
            if n["op"] == "arg":
                continue
            for i, t in enumerate(n["ty"]):
                cands = [
                    (j, o)
                    for j in range(k - 1, -1, -1)
                    for o, u in enumerate(cur["nodes"][j]["ty"])
                    if same_ty(u, t) and dep[j] <= dep[k]
                ][:3]
                for c in cands:
                    if spent >= budget:
                        break
                    cand = _substitute(cur, k, i, c)
                    if cand == cur:
                        continue
                    cand, cb = prune(cand, curb)
                    if len(cand["nodes"]) >= len(cur["nodes"]):
                        continue
                    spent += 1
                    if still_fails(cand, cb):
                        cur, curb = cand, cb
                        progress = True
                        break
                if progress:
                    break
            if progress:
                break
    return cur, curb


def skeleton2_programs(max_uses: int = 3) -> Iterator[tuple[dict, str]]:
    """Exhaustive family aimed at scope assignment *below a body with formals*: inside a Loop (or
    Scan) body, a value `s` that DEPENDS ON THE BODY'S FORMALS is used in every non-empty subset
    (|subset| ≤ max_uses) of eight graphs at three different depths below the body:

        body ▸ If B { then ▸ If C { then ▸ If E { then, else }, else },  else ▸ If D { then, else } }

    places: body, B.then, B.else, C.then, C.else, D.then, D.else, E.then.  So `s` is shared between
    siblings and cousins at equal and at different depths, with the deeper use on either side; where
    (and in which order) it is created is the realisation style's choice.  Yields (prog, tag)."""
    places = ["body", "B.then", "B.else", "C.then", "C.else", "D.then", "D.else", "E.then"]
    for kind in ("Loop", "Scan"):
        for r in range(1, max_uses + 1):
            for uses in itertools.combinations(range(8), r):
                for two in (False, True):
                    yield _skeleton2(set(uses), two, kind), kind + ":" + "+".join(places[u] for u in uses) + ("/w" if two else "")


def _skeleton2(uses: set, two: bool, kind: str) -> dict:
    nodes: list[dict] = []

    def add(op, ins=(), subs=(), attrs=None, tys=()):
        nodes.append({"op": op, "ins": [list(r) if r else None for r in ins], "subs": list(subs), "attrs": dict(attrs or {}), "ty": [list(t) for t in tys]})
        return len(nodes) - 1

    V = ty("i64", [N])
    x = add("arg", attrs={"role": "main"}, tys=[V])
    c = add("arg", attrs={"role": "main"}, tys=[ty("bool", [])])
    d = add("arg", attrs={"role": "main"}, tys=[ty("bool", [])])
    if kind == "Loop":
        n = add("arg", attrs={"role": "main", "range": "trip"}, tys=[ty("i64", [])])
        it = add("arg", attrs={"role": "formal"}, tys=[ty("i64", [], True)])
        cn = add("arg", attrs={"role": "formal"}, tys=[ty("bool", [], True)])
        acc = add("arg", attrs={"role": "formal"}, tys=[V])
        other = (it, 0)
        formals = [it, cn, acc]
    else:
        xs = add("arg", attrs={"role": "main"}, tys=[ty("i64", [2, N])])
        acc = add("arg", attrs={"role": "formal"}, tys=[V])
        sl = add("arg", attrs={"role": "formal"}, tys=[V])
        other = (sl, 0)
        formals = [acc, sl]
    s = add("Mul", [(acc, 0), other], tys=[V])
    if two:
        s2 = add("Neg", [(s, 0)], tys=[V])
        s = add("Add", [(s2, 0), (acc, 0)], tys=[V])

    def use(place, base):
        if place in uses:
            return (add("Add", [base, (s, 0)], tys=[V]), 0)
        return base

    def iff(cond, t, e):
        return (add("If", [(cond, 0)], [{"args": [], "res": [list(t)]}, {"args": [], "res": [list(e)]}], tys=[V]), 0)

    e_out = iff(c, use(7, (acc, 0)), (acc, 0))
    c_out = iff(d, use(3, e_out), use(4, (acc, 0)))
    bt = use(1, c_out)
    d_out = iff(d, use(5, (acc, 0)), use(6, (x, 0)))
    be = use(2, d_out)
    b_out = iff(c, bt, be)
    res = use(0, b_out)
    if kind == "Loop":
        out = add("Loop", [(n, 0), None, (x, 0)], [{"args": formals, "res": [[cn, 0], list(res)]}], tys=[V])
    else:
        out = add("Scan", [(x, 0), (xs, 0)], [{"args": formals, "res": [list(res)]}], attrs={"num_scan_inputs": 1}, tys=[V])
    return {"nodes": nodes, "outputs": [[out, 0]], "opset": 17}


# ------------------------------------------------------------- bridge to C04's Builder model
def to_buildalg(prog, margs: Optional[list[int]] = None, mres: Optional[list] = None) -> dict:
    """The program in the format of C04's algorithm model (`Model/BuildAlg.lean`): nodes
    `{a: is Argument, i: input node ids, s: graph ids of the bodies}` in id order, graphs
    `{res: result node ids, args: argument ids}` with graph 0 = main (arguments / results in `margs` /
    `mres` order = the order of the dicts handed to `build`)."""
    graphs = [{"res": [r[0] for r in (prog["outputs"] if mres is None else mres)],
               "args": list(main_args(prog) if margs is None else margs)}]
    nodes = []
    for n in prog["nodes"]:
        gids = []
        for s_ in n["subs"]:
            graphs.append({"res": [r[0] for r in s_["res"]], "args": list(s_["args"])})
            gids.append(len(graphs) - 1)
        if n["op"] == "If":  # spox's attribute order is (else_branch, then_branch): that is the DFS order
            gids.reverse()
        nodes.append({"a": n["op"] == "arg", "i": [r[0] for r in n["ins"] if r is not None], "s": gids})
    return {"nodes": nodes, "graphs": graphs}


def normal_emission(prog, em, attr_order: bool = False):
    """(`attr_order`: the emission lists the bodies of an If in spox's attribute order — else, then —
    as the algorithm model does; they are put back into [then, else].)  Emission modulo what the two sides cannot agree on by construction: initializers have no
    position in a GraphProto (compared as a set per graph), the algorithm model has no output index."""
    is_init = lambda k: k < len(prog["nodes"]) and prog["nodes"][k]["op"] == "init"  # noqa: E731
    return [
        list(em[0]),
        sorted(k for k, _ in em[1] if is_init(k)),
        [[k, [normal_emission(prog, s_, attr_order) for s_ in
              (list(reversed(subs)) if attr_order and k < len(prog["nodes"]) and prog["nodes"][k]["op"] == "If" else subs)]]
         for k, subs in em[1] if not is_init(k)],
        [r[0] for r in em[2]],
    ]


def skeleton3_programs(max_i2: int = 2, max_n: int = 1) -> Iterator[tuple[dict, str]]:
    """Exhaustive family aimed at *owners of bodies that are themselves shared*: a control-flow node
    `i2 = If(e, then: n + x [or a nested If closing over n], else: x)` whose body closes over the
    NON-ARGUMENT outer value `n = -x`; `i2`'s output is used in every subset (1 ≤ size ≤ max_i2) and
    `n` itself in every subset (size ≤ max_n) of the seven graphs

        main ▸ If A { then ▸ If B { then, else },  else ▸ If C { then, else } }

    so the owner `i2` is lifted to an outer scope by a later user at another depth while its bodies'
    closure values must follow.  Yields (prog, tag)."""
    places = ["main", "A.then", "A.else", "B.then", "B.else", "C.then", "C.else"]
    for nested in (False, True):
        for r in range(1, max_i2 + 1):
            for ui in itertools.combinations(range(7), r):
                for q in range(0, max_n + 1):
                    for un in itertools.combinations(range(7), q):
                        tag = "i2@" + "+".join(places[u] for u in ui) + " n@" + "+".join(places[u] for u in un)
                        yield _skeleton3(set(ui), set(un), nested), tag + ("/nested" if nested else "")


def _skeleton3(u_i2: set, u_n: set, nested: bool) -> dict:
    nodes: list[dict] = []

    def add(op, ins=(), subs=(), attrs=None, tys=()):
        nodes.append({"op": op, "ins": [list(r) if r else None for r in ins], "subs": list(subs), "attrs": dict(attrs or {}), "ty": [list(t) for t in tys]})
        return len(nodes) - 1

    V = ty("i64", [N])
    B_ = ty("bool", [])
    x = add("arg", attrs={"role": "main"}, tys=[V])
    c = add("arg", attrs={"role": "main"}, tys=[B_])
    d = add("arg", attrs={"role": "main"}, tys=[B_])
    e = add("arg", attrs={"role": "main"}, tys=[B_])
    n = add("Neg", [(x, 0)], tys=[V])

    def iff(cond, t, el):
        return (add("If", [(cond, 0)], [{"args": [], "res": [list(t)]}, {"args": [], "res": [list(el)]}], tys=[V]), 0)

    nx = (add("Add", [(n, 0), (x, 0)], tys=[V]), 0)
    inner = iff(c, nx, (n, 0)) if nested else nx
    i2 = iff(e, inner, (x, 0))

    def use(place, base):
        if place in u_i2:
            base = (add("Add", [base, i2], tys=[V]), 0)
        if place in u_n:
            base = (add("Mul", [base, (n, 0)], tys=[V]), 0)
        return base

    b_out = iff(d, use(3, (x, 0)), use(4, (x, 0)))
    at = use(1, b_out)
    c_out = iff(d, use(5, (x, 0)), use(6, (x, 0)))
    ae = use(2, c_out)
    a_out = iff(c, at, ae)
    out = use(0, a_out)
    return {"nodes": nodes, "outputs": [list(out)], "opset": 17}


SK4_KINDS = ["LabelEncoder", "Scaler", "Binarizer", "BitNot", "BitXor", "Split18", "Gelu", "DFT"]


def skeleton4_programs(pairs: bool = True) -> Iterator[tuple[dict, str]]:
    """Exhaustive family aimed at *requirements that only a body contributes* (operator-set domain /
    version): one special operator — an `ai.onnx.ml` operator, a since-18 operator at opset 18
    (BitwiseNot / BitwiseXor / equal Split), a since-20 operator at opset 20 (Gelu, DFT) — is applied to
    the value flowing through the nest

        main ▸ If A { then ▸ Loop|Scan L { body ▸ If B { then, else } },  else } ;  then If D { then, else }

    in exactly one (or two, `pairs`) of the eight graphs, everything else being old operators, so the
    model's `opset_import` is right only if the requirement of that one body reaches the model —
    whichever body is compiled first or last.  Yields (prog, tag)."""
    places = ["main", "A.then", "A.else", "L.body", "B.then", "B.else", "D.then", "D.else"]
    for kind in SK4_KINDS:
        sets = [(i,) for i in range(8)] + (list(itertools.combinations(range(8), 2)) if pairs else [])
        for us in sets:
            yield _skeleton4(kind, set(us)), kind + "@" + "+".join(places[u] for u in us)


def _skeleton4(kind: str, uses: set) -> dict:
    nodes: list[dict] = []

    def add(op, ins=(), subs=(), attrs=None, tys=()):
        nodes.append({"op": op, "ins": [list(r) if r else None for r in ins], "subs": list(subs), "attrs": dict(attrs or {}), "ty": [list(t) for t in tys]})
        return len(nodes) - 1

    opset = {"BitNot": 18, "BitXor": 18, "Split18": 18, "Gelu": 20, "DFT": 20}.get(kind, 17)
    if kind in ("LabelEncoder", "BitNot", "BitXor", "Split18"):
        T = ty("i64", [N])
    elif kind == "DFT":
        T = ty("f32", [1, 2, N, 2])
    else:
        T = ty("f32", [N])
    B_ = ty("bool", [])
    x = add("arg", attrs={"role": "main"}, tys=[T])
    c = add("arg", attrs={"role": "main"}, tys=[B_])
    d = add("arg", attrs={"role": "main"}, tys=[B_])
    use_loop = opset <= 18
    if use_loop:
        n = add("arg", attrs={"role": "main", "range": "trip"}, tys=[ty("i64", [])])
    else:
        xs = add("arg", attrs={"role": "main"}, tys=[ty(T[0], [2] + T[1])])

    def special(base):
        if kind == "LabelEncoder":
            return (add(kind, [base], attrs={"keys": [0, 1, -2, 3], "values": [5, -1, 7, 2], "default": -3}, tys=[T]), 0)
        if kind == "Scaler":
            return (add(kind, [base], attrs={"offset": 0.5, "scale": 2.0}, tys=[T]), 0)
        if kind == "Binarizer":
            return (add(kind, [base], attrs={"threshold": 0.5}, tys=[T]), 0)
        if kind == "BitNot":
            return (add(kind, [base], tys=[T]), 0)
        if kind == "BitXor":
            return (add(kind, [base, (x, 0)], tys=[T]), 0)
        if kind == "Split18":
            sp = add("Split", [base, None], attrs={"axis": 0, "outputs": N}, tys=[ty("i64", [1])] * N)
            return (add("Concat", [(sp, 2), (sp, 0), (sp, 1)], attrs={"axis": 0}, tys=[T]), 0)
        if kind == "Gelu":
            return (add(kind, [base], tys=[T]), 0)
        return (add("DFT", [base, None, None], tys=[T]), 0)

    def use(place, base):
        return special(base) if place in uses else base

    def iff(cond, t, el):
        return (add("If", [(cond, 0)], [{"args": [], "res": [list(t)]}, {"args": [], "res": [list(el)]}], tys=[T]), 0)

    if use_loop:
        it = add("arg", attrs={"role": "formal"}, tys=[ty("i64", [], True)])
        cn = add("arg", attrs={"role": "formal"}, tys=[ty("bool", [], True)])
        acc = add("arg", attrs={"role": "formal"}, tys=[T])
        formals = [it, cn, acc]
    else:
        acc = add("arg", attrs={"role": "formal"}, tys=[T])
        sl = add("arg", attrs={"role": "formal"}, tys=[T])
        formals = [acc, sl]
    neg = (add("Neg", [(acc, 0)], tys=[T]), 0)
    b_out = iff(d, use(4, neg), use(5, (acc, 0)))
    body_res = use(3, b_out)
    if use_loop:
        loop = add("Loop", [(n, 0), None, (x, 0)], [{"args": formals, "res": [[cn, 0], list(body_res)]}], tys=[T])
    else:
        body_res = (add("Add", [body_res, (sl, 0)], tys=[T]), 0)
        loop = add("Scan", [(x, 0), (xs, 0)], [{"args": formals, "res": [list(body_res)]}], attrs={"num_scan_inputs": 1}, tys=[T])
    a_out = iff(c, use(1, (loop, 0)), use(2, (x, 0)))
    m = use(0, a_out)
    negm = (add("Neg", [m], tys=[T]), 0)
    d_out = iff(d, use(6, m), use(7, negm))
    return {"nodes": nodes, "outputs": [list(d_out)], "opset": opset}



def deep_programs(rng: random.Random, count: int = 1) -> Iterator[tuple[dict, str]]:
    """Programs with a very long dependency path (the theorems are depth-unbounded; the builder's
    traversals are iterative and must stay so): per round (i) `reduce(add, …)`: a chain of 1 200–3 000 Adds,
    (ii) an unrolled two-term recurrence a, b = a + b, a - b, (iii) a chain of ≈ 1 100–1 500 operators inside a
    Loop body closing over an outer value.  Cheap: Adds on 3-vectors.  Yields (prog, tag).  Use the
    `eager` style (the realiser then creates nodes in id order without recursing)."""
    V = ty("i64", [N])

    def new():
        nodes: list[dict] = []

        def add(op, ins=(), subs=(), attrs=None, tys=()):
            nodes.append({"op": op, "ins": [list(r) if r else None for r in ins], "subs": list(subs), "attrs": dict(attrs or {}), "ty": [list(t) for t in tys]})
            return len(nodes) - 1

        return nodes, add

    for _ in range(count):
        depth = rng.randint(1200, 3000)
        nodes, add = new()
        x = add("arg", attrs={"role": "main"}, tys=[V])
        y = add("arg", attrs={"role": "main"}, tys=[V])
        cur = x
        for i in range(depth):
            cur = add("Add" if i % 3 else "Sub", [(cur, 0), ((y if i % 2 else x), 0)], tys=[V])
        yield {"nodes": nodes, "outputs": [[cur, 0]], "opset": 17}, f"chain{depth}"

        depth = rng.randint(600, 1200)
        nodes, add = new()
        x = add("arg", attrs={"role": "main"}, tys=[V])
        y = add("arg", attrs={"role": "main"}, tys=[V])
        z = add("Constant", attrs={"value": [0, 0, 0], "uid": 1, "layout": "C"}, tys=[V])
        a, b = x, y
        for i in range(depth):  # values stay small: every other step is multiplied by zero and re-seeded
            s_ = add("Add", [(a, 0), (b, 0)], tys=[V])
            d_ = add("Sub", [(a, 0), (b, 0)], tys=[V])
            if i % 8 == 7:
                s_ = add("Add", [(add("Mul", [(s_, 0), (z, 0)], tys=[V]), 0), (x, 0)], tys=[V])
                d_ = add("Add", [(add("Mul", [(d_, 0), (z, 0)], tys=[V]), 0), (y, 0)], tys=[V])
            a, b = s_, d_
        yield {"nodes": nodes, "outputs": [[a, 0], [b, 0]], "opset": 18}, f"recurrence{depth}"

        depth = rng.randint(1100, 1500)
        nodes, add = new()
        x = add("arg", attrs={"role": "main"}, tys=[V])
        n = add("arg", attrs={"role": "main", "range": "trip"}, tys=[ty("i64", [])])
        k = add("Neg", [(x, 0)], tys=[V])  # outer value the body closes over
        it = add("arg", attrs={"role": "formal"}, tys=[ty("i64", [], True)])
        cn = add("arg", attrs={"role": "formal"}, tys=[ty("bool", [], True)])
        acc = add("arg", attrs={"role": "formal"}, tys=[V])
        cur = acc
        for i in range(depth):
            cur = add("Add" if i % 2 else "Sub", [(cur, 0), (k, 0)], tys=[V])
        loop = add("Loop", [(n, 0), None, (x, 0)], [{"args": [it, cn, acc], "res": [[cn, 0], [cur, 0]]}], tys=[V])
        yield {"nodes": nodes, "outputs": [[loop, 0]], "opset": 17}, f"loopbody{depth}"



def partial_programs() -> Iterator[tuple[dict, str]]:
    """Family aimed at *when* a body is evaluated: a PARTIAL operator (`Gather(table, k)`, defined only
    for −n ≤ k < n) that uses closed-over values only sits inside a body that does not run for some
    binding — a Loop with a run-time trip count of 0 or an initially false condition, an If branch not
    taken, nested combinations — while `k` is out of range exactly then.  The dataflow has a value
    (the body is not evaluated), so the model must run and return it.  Bindings: use
    `random_binding(prog, rng, index)` — the arguments carry `cycle`s: binding 0 = (no iteration, bad
    index), 1 = (iterates, good index), 2 = (no iteration, good index).  Yields (prog, tag)."""
    V = ty("i64", [N])
    for shape in ("loop", "loop-if", "if-loop", "loop-cond", "loop-loop", "if"):
        for table_closed in (False, True):
            for chain in (False, True):
                nodes: list[dict] = []

                def add(op, ins=(), subs=(), attrs=None, tys=()):
                    nodes.append({"op": op, "ins": [list(r) if r else None for r in ins], "subs": list(subs), "attrs": dict(attrs or {}), "ty": [list(t) for t in tys]})
                    return len(nodes) - 1

                x = add("arg", attrs={"role": "main"}, tys=[V])
                k = add("arg", attrs={"role": "main", "cycle": [5, 1, 1]}, tys=[ty("i64", [])])
                n = add("arg", attrs={"role": "main", "range": "trip", "cycle": [0, 2, 0]}, tys=[ty("i64", [])])
                c = add("arg", attrs={"role": "main", "cycle": [False, True, False]}, tys=[ty("bool", [])])
                c1 = add("arg", attrs={"role": "main", "cycle": [False, True, False]}, tys=[ty("bool", [1])])
                table = (add("Neg", [(x, 0)], tys=[V]), 0) if table_closed else (x, 0)
                idx = (k, 0)
                if chain:
                    one = add("Constant", attrs={"value": [0], "scalar": True, "uid": 1, "layout": "C"}, tys=[ty("i64", [])])
                    idx = (add("Add", [(k, 0), (one, 0)], tys=[ty("i64", [])]), 0)
                P = (add("Gather", [table, idx], tys=[ty("i64", [])]), 0)

                def loop(m, cond0, body_of):
                    it = add("arg", attrs={"role": "formal"}, tys=[ty("i64", [], True)])
                    cn = add("arg", attrs={"role": "formal"}, tys=[ty("bool", [], True)])
                    acc = add("arg", attrs={"role": "formal"}, tys=[V])
                    res = body_of((acc, 0))
                    return (add("Loop", [m, cond0, (x, 0)], [{"args": [it, cn, acc], "res": [[cn, 0], list(res)]}], tys=[V]), 0)

                def plus_p(base):
                    return (add("Add", [base, P], tys=[V]), 0)

                def iff(cond, t, e):
                    return (add("If", [(cond, 0)], [{"args": [], "res": [list(t)]}, {"args": [], "res": [list(e)]}], tys=[V]), 0)

                if shape == "loop":
                    out = loop((n, 0), None, plus_p)
                elif shape == "loop-if":
                    out = loop((n, 0), None, lambda acc: iff(c, plus_p(acc), acc))
                elif shape == "if-loop":
                    out = iff(c, loop((n, 0), None, plus_p), (x, 0))
                elif shape == "loop-cond":
                    two = add("Constant", attrs={"value": [2], "scalar": True, "uid": 2, "layout": "C"}, tys=[ty("i64", [])])
                    out = loop((two, 0), (c1, 0), plus_p)
                elif shape == "loop-loop":
                    one_ = add("Constant", attrs={"value": [1], "scalar": True, "uid": 3, "layout": "C"}, tys=[ty("i64", [])])

                    def outer_body(acc):
                        it = add("arg", attrs={"role": "formal"}, tys=[ty("i64", [], True)])
                        cn = add("arg", attrs={"role": "formal"}, tys=[ty("bool", [], True)])
                        a2 = add("arg", attrs={"role": "formal"}, tys=[V])
                        r = plus_p((a2, 0))
                        return (add("Loop", [(one_, 0), None, acc], [{"args": [it, cn, a2], "res": [[cn, 0], list(r)]}], tys=[V]), 0)

                    out = loop((n, 0), None, outer_body)
                else:
                    out = iff(c, plus_p((x, 0)), (x, 0))
                yield ({"nodes": nodes, "outputs": [list(out)], "opset": 17},
                       f"{shape}{'/closed-table' if table_closed else ''}{'/index-chain' if chain else ''}")


# ------------------------------------------------- round 6: which model inputs are read, and where
def used_args(prog) -> list[int]:
    """Main arguments the requested outputs depend on — through node inputs AND through bodies at any
    nesting depth (independent of the Lean `usedArgs`; compared with it on every drop-build)."""
    seen = reachable(prog)
    return [a for a in main_args(prog) if a in seen]


def input_read_depths(model) -> dict[str, list[int]]:
    """From the ModelProto alone: for every main-graph input name the sorted nesting depths (0 = main
    graph) of the graphs that hold a node reading it."""
    names = {i.name for i in model.graph.input}
    out: dict[str, set] = {nm: set() for nm in names}
    stack = [(model.graph, 0)]
    while stack:
        g, d = stack.pop()
        for e in g.node:
            for nm in e.input:
                if nm in out:
                    out[nm].add(d)
            for a in e.attribute:
                if a.type == 5:
                    stack.append((a.g, d + 1))
                elif a.type == 10:
                    stack.extend((h, d + 1) for h in a.graphs)
        for o in g.output:
            if o.name in out and g is not model.graph:
                out[o.name].add(d)
    return {nm: sorted(ds) for nm, ds in out.items()}


SK5_KINDS = ("If", "Loop", "Scan")
SK5_GADGETS = ("read", "via", "result", "cond", "trip", "state", "scanin")
SK5_FIXED_SHAPES = (("Loop", "If", "If"), ("Loop", "Loop", "Loop"), ("If", "Scan", "If"), ("Scan", "If", "Loop"))


def skeleton5_programs(rng: random.Random, thorough: bool = False) -> Iterator[tuple[dict, str]]:
    """Family aimed at *where a model input is read* (non-default build options x closure depth): a
    three-level nest of control-flow bodies, each level an If / Loop / Scan (27 shapes), carries a vector
    through depths 0..3; one dedicated model input `u` is read in exactly the depths of a chosen set —
    as an operand (`read`), through a shared closed value `-u` (`via`), as a body *result* passed through
    (`result`), as an If condition (`cond`), a Loop trip count (`trip`), a Loop state initialiser (`state`)
    or a Scan input (`scanin`) — while several other declared inputs (`z`, `zb`, the controls of level
    kinds the shape does not contain, `q` unless the gadget is `result`) are read nowhere.
    Quick: 4 fixed + 2 seeded shapes x 7 gadgets x (4 single depths + 2 seeded larger sets);
    thorough: all 27 shapes x 7 x (4 singles + 4 seeded larger sets).  Yields (prog, tag)."""
    shapes = list(itertools.product(SK5_KINDS, repeat=3))
    if not thorough:
        rest = [s for s in shapes if s not in SK5_FIXED_SHAPES]
        shapes = list(SK5_FIXED_SHAPES) + rng.sample(rest, 2)
    singles = [(d,) for d in range(4)]
    larger = [c for r in (2, 3, 4) for c in itertools.combinations(range(4), r)]
    for shape in shapes:
        for gadget in SK5_GADGETS:
            for ds in singles + rng.sample(larger, 4 if thorough else 2):
                yield _skeleton5(shape, gadget, set(ds)), f"{'>'.join(shape)}:{gadget}@{'+'.join(map(str, ds))}"


def _skeleton5(shape, gadget: str, depths: set) -> dict:
    nodes: list[dict] = []

    def add(op, ins=(), subs=(), attrs=None, tys=()):
        nodes.append({"op": op, "ins": [list(r) if r else None for r in ins], "subs": list(subs), "attrs": dict(attrs or {}), "ty": [list(t) for t in tys]})
        return len(nodes) - 1

    V, S, B_, M = ty("i64", [N]), ty("i64", []), ty("bool", []), ty("i64", [2, N])
    x = add("arg", attrs={"role": "main"}, tys=[V])
    z = add("arg", attrs={"role": "main"}, tys=[V])  # declared, read nowhere  # noqa: F841
    zb = add("arg", attrs={"role": "main"}, tys=[B_])  # declared, read nowhere  # noqa: F841
    c = add("arg", attrs={"role": "main"}, tys=[B_])  # condition of the nest's If levels
    n = add("arg", attrs={"role": "main", "range": "trip"}, tys=[S])  # trip count of the nest's Loop levels
    xs = add("arg", attrs={"role": "main"}, tys=[M])  # scan input of the nest's Scan levels
    q = add("arg", attrs={"role": "main"}, tys=[B_])  # only the `result` gadget reads it
    u_ty = {"cond": B_, "trip": S, "scanin": M}.get(gadget, V)
    u = add("arg", attrs={"role": "main", **({"range": "trip"} if gadget == "trip" else {})}, tys=[u_ty])
    nu = [None]

    def iff(cond, t, e):
        return (add("If", [cond], [{"args": [], "res": [list(t)]}, {"args": [], "res": [list(e)]}], tys=[V]), 0)

    def loop(m, init, body_of):
        it = add("arg", attrs={"role": "formal"}, tys=[ty("i64", [], True)])
        cn = add("arg", attrs={"role": "formal"}, tys=[ty("bool", [], True)])
        a = add("arg", attrs={"role": "formal"}, tys=[V])
        res = body_of((a, 0))
        return (add("Loop", [m, None, init], [{"args": [it, cn, a], "res": [[cn, 0], list(res)]}], tys=[V]), 0)

    def scan(init, seq, body_of):
        st = add("arg", attrs={"role": "formal"}, tys=[V])
        sl = add("arg", attrs={"role": "formal"}, tys=[V])
        res = body_of((add("Add", [(st, 0), (sl, 0)], tys=[V]), 0))
        return (add("Scan", [init, seq], [{"args": [st, sl], "res": [list(res)]}], attrs={"num_scan_inputs": 1}, tys=[V]), 0)

    def apply(acc):
        if gadget == "read":
            return (add("Add", [acc, (u, 0)], tys=[V]), 0)
        if gadget == "via":
            if nu[0] is None:
                nu[0] = add("Neg", [(u, 0)], tys=[V])
            return (add("Add", [acc, (nu[0], 0)], tys=[V]), 0)
        if gadget == "result":
            return iff((q, 0), acc, (u, 0))
        if gadget == "cond":
            return iff((u, 0), (add("Neg", [acc], tys=[V]), 0), acc)
        if gadget == "trip":
            return loop((u, 0), acc, lambda a: (add("Neg", [a], tys=[V]), 0))
        if gadget == "state":
            two = add("Constant", attrs={"value": [2], "scalar": True, "uid": 50 + len(nodes), "layout": "C"}, tys=[S])
            return loop((two, 0), (u, 0), lambda a: (add("Add", [a, acc], tys=[V]), 0))
        return scan(acc, (u, 0), lambda a: a)

    def level(i, acc):
        """Everything at nesting depth i (0 = main graph) that happens to the carried vector."""
        if i in depths:
            acc = apply(acc)
        if i == len(shape):
            return acc
        kind = shape[i]
        if kind == "If":
            return iff((c, 0), level(i + 1, acc), acc)
        if kind == "Loop":
            return loop((n, 0), acc, lambda a: level(i + 1, a))
        return scan(acc, (xs, 0), lambda a: level(i + 1, a))

    out = level(0, (x, 0))
    return {"nodes": nodes, "outputs": [list(out)], "opset": 17}


def no_input_programs() -> Iterator[tuple[dict, str]]:
    """Programs whose requested outputs read NO model input (constants only: at depth 0, inside an If whose
    condition is a constant, inside a Loop with a constant trip count) while inputs are declared — with
    `drop_unused_inputs=True` the model has no inputs at all.  Yields (prog, tag)."""
    V, S, B_ = ty("i64", [N]), ty("i64", []), ty("bool", [])
    for shape in ("main", "if", "loop", "if-loop"):
        nodes: list[dict] = []

        def add(op, ins=(), subs=(), attrs=None, tys=()):
            nodes.append({"op": op, "ins": [list(r) if r else None for r in ins], "subs": list(subs), "attrs": dict(attrs or {}), "ty": [list(t) for t in tys]})
            return len(nodes) - 1

        add("arg", attrs={"role": "main"}, tys=[V])
        add("arg", attrs={"role": "main"}, tys=[B_])
        a = add("Constant", attrs={"value": [1, -2, 3], "uid": 1, "layout": "C"}, tys=[V])
        b = add("Constant", attrs={"value": [4, 0, -1], "uid": 2, "layout": "C"}, tys=[V])
        s = (add("Add", [(a, 0), (b, 0)], tys=[V]), 0)

        def iff(t, e):
            cnd = add("Constant", attrs={"value": [True], "scalar": True, "uid": 3, "layout": "C"}, tys=[B_])
            return (add("If", [(cnd, 0)], [{"args": [], "res": [list(t)]}, {"args": [], "res": [list(e)]}], tys=[V]), 0)

        def loop(init):
            two = add("Constant", attrs={"value": [2], "scalar": True, "uid": 4, "layout": "C"}, tys=[S])
            it = add("arg", attrs={"role": "formal"}, tys=[ty("i64", [], True)])
            cn = add("arg", attrs={"role": "formal"}, tys=[ty("bool", [], True)])
            ac = add("arg", attrs={"role": "formal"}, tys=[V])
            r = add("Add", [(ac, 0), (b, 0)], tys=[V])
            return (add("Loop", [(two, 0), None, init], [{"args": [it, cn, ac], "res": [[cn, 0], [r, 0]]}], tys=[V]), 0)

        if shape == "main":
            out = s
        elif shape == "if":
            out = iff(s, (a, 0))
        elif shape == "loop":
            out = loop(s)
        else:
            out = iff(loop(s), (b, 0))
        yield {"nodes": nodes, "outputs": [list(out)], "opset": 17}, shape


def observed_sequence_operands(R: Realised):
    """Observation (spox internals, guarded by the caller): for the i-th constructor call that was handed a
    caller-owned list, what the constructed node holds NOW (after all the caller's mutations) in its
    sequence-of-Vars field: (type name of the container, var numbers).  Unknown Vars are numbered -1."""
    out = []
    for k in R.calls:
        node = R.vars[(k, 0)]._op
        fields = node.inputs.get_fields()
        seqs = [v for v in fields.values() if v is not None and not hasattr(v, "_op")]
        if len(seqs) != 1:
            raise HarnessError(f"node {k}: {len(seqs)} sequence fields")
        out.append((type(seqs[0]).__name__, [R.var_ids.get(id(v), -1) for v in seqs[0]]))
    return out


def variadic_programs() -> Iterator[tuple[dict, str]]:
    """Every sequence-taking constructor of the vocabulary (Max Min Sum Mean Einsum Concat) with 1-4 operands —
    repeated operands included — in the main graph, inside an If branch (closed-over operands) and inside a Loop
    body (operands depending on the formals), plus a Loop and a Scan whose `v_initial` / state list holds two
    values: with the realiser's caller-owned lists every such call is followed by a mutation of the list it was
    given.  Yields (prog, tag)."""
    F, B_, S = ty("f32", [N]), ty("bool", []), ty("i64", [])
    counts = {"Max": (1, 2, 3), "Min": (1, 3), "Sum": (1, 2, 3, 4), "Mean": (1, 2, 4), "Einsum": (2, 3), "Concat": (1, 2, 3)}
    for kind, ks in counts.items():
        for k in ks:
            for place in ("main", "if", "loop"):
                nodes: list[dict] = []

                def add(op, ins=(), subs=(), attrs=None, tys=()):
                    nodes.append({"op": op, "ins": [list(r) if r else None for r in ins], "subs": list(subs), "attrs": dict(attrs or {}), "ty": [list(t) for t in tys]})
                    return len(nodes) - 1

                x = add("arg", attrs={"role": "main"}, tys=[F])
                y = add("arg", attrs={"role": "main"}, tys=[F])
                c = add("arg", attrs={"role": "main"}, tys=[B_])
                n = add("arg", attrs={"role": "main", "range": "trip"}, tys=[S])
                ny = add("Neg", [(y, 0)], tys=[F])

                def apply(base):
                    pool = [base, (ny, 0), (x, 0), base][:k]
                    if kind == "Concat":
                        cc = add("Concat", pool, attrs={"axis": 0}, tys=[ty("f32", [N * k])])
                        sp = add("Split", [(cc, 0), None], attrs={"axis": 0, "outputs": k}, tys=[F] * k) if k > 1 else cc
                        return (sp, k - 1)
                    attrs = {"equation": ",".join(["..."] * k) + "->..."} if kind == "Einsum" else None
                    return (add(kind, pool, attrs=attrs, tys=[F]), 0)

                if place == "main":
                    out = apply((x, 0))
                elif place == "if":
                    r = apply((x, 0))
                    out = (add("If", [(c, 0)], [{"args": [], "res": [list(r)]}, {"args": [], "res": [[y, 0]]}], tys=[F]), 0)
                else:
                    it = add("arg", attrs={"role": "formal"}, tys=[ty("i64", [], True)])
                    cn = add("arg", attrs={"role": "formal"}, tys=[ty("bool", [], True)])
                    a1 = add("arg", attrs={"role": "formal"}, tys=[F])
                    a2 = add("arg", attrs={"role": "formal"}, tys=[F])
                    r = apply((a1, 0))
                    lp = add("Loop", [(n, 0), None, (x, 0), (y, 0)], [{"args": [it, cn, a1, a2], "res": [[cn, 0], list(r), [a1, 0]]}], tys=[F, F])
                    out = (add("Add", [(lp, 0), (lp, 1)], tys=[F]), 0)
                opset = 18 if kind == "Concat" and k > 1 else 17
                yield {"nodes": nodes, "outputs": [list(out)], "opset": opset}, f"{kind}x{k}@{place}"


def upgrade_programs() -> Iterator[tuple[dict, str]]:
    """Programs written at opset 17 whose bodies hold an operator whose definition CHANGES in a later version
    (Split with explicit sizes: since 18 the sizes are an input next to a new `num_outputs` attribute) — for the
    conversion route `Graph.with_opset(newer)`: the node inside an If branch, a Loop body, a Loop body inside an
    If branch, and (control) in the main graph.  Yields (prog, tag)."""
    V, B_, S = ty("i64", [N]), ty("bool", []), ty("i64", [])
    for place in ("main", "if", "loop", "if-loop", "main/equal", "if/equal", "loop/equal", "if-loop/equal"):
        equal = place.endswith("/equal")  # Split without sizes: at 18 the converter has to add `num_outputs`
        place = place.split("/")[0]
        nodes: list[dict] = []

        def add(op, ins=(), subs=(), attrs=None, tys=()):
            nodes.append({"op": op, "ins": [list(r) if r else None for r in ins], "subs": list(subs), "attrs": dict(attrs or {}), "ty": [list(t) for t in tys]})
            return len(nodes) - 1

        x = add("arg", attrs={"role": "main"}, tys=[V])
        c = add("arg", attrs={"role": "main"}, tys=[B_])
        n = add("arg", attrs={"role": "main", "range": "trip"}, tys=[S])
        sizes = add("Constant", attrs={"value": [1, 2], "uid": 1, "layout": "C"}, tys=[ty("i64", [2])])

        def swap(base):
            if equal:
                sp = add("Split", [base, None], attrs={"axis": 0, "outputs": N}, tys=[ty("i64", [1])] * N)
                return (add("Concat", [(sp, 2), (sp, 0), (sp, 1)], attrs={"axis": 0}, tys=[V]), 0)
            sp = add("Split", [base, (sizes, 0)], attrs={"axis": 0, "outputs": 2}, tys=[ty("i64", [1]), ty("i64", [2])])
            return (add("Concat", [(sp, 1), (sp, 0)], attrs={"axis": 0}, tys=[V]), 0)

        def loop(init):
            it = add("arg", attrs={"role": "formal"}, tys=[ty("i64", [], True)])
            cn = add("arg", attrs={"role": "formal"}, tys=[ty("bool", [], True)])
            a = add("arg", attrs={"role": "formal"}, tys=[V])
            r = swap((a, 0))
            return (add("Loop", [(n, 0), None, init], [{"args": [it, cn, a], "res": [[cn, 0], list(r)]}], tys=[V]), 0)

        def iff(t, e):
            return (add("If", [(c, 0)], [{"args": [], "res": [list(t)]}, {"args": [], "res": [list(e)]}], tys=[V]), 0)

        if place == "main":
            out = swap((x, 0))
        elif place == "if":
            out = iff(swap((x, 0)), (x, 0))
        elif place == "loop":
            out = loop((x, 0))
        else:
            out = iff(loop((x, 0)), (x, 0))
        yield {"nodes": nodes, "outputs": [list(out)], "opset": 17}, place + ("/equal" if equal else "")


RETYPE_SAFE = {"arg", "Add", "Sub", "Mul", "Neg", "Identity", "If", "Loop", "Scan"}


def retype(prog, dtype: Optional[str] = None, length: Optional[int] = None) -> Optional[dict]:
    """The same program over another element type and / or vector length: every `i64` VECTOR type (`[N]`, `[2, N]`)
    becomes (`dtype`, `[length]` / `[2, length]`) — `length = 0` gives zero-length tensors; scalars (trip counts,
    conditions) stay.  Only for programs over the type-generic operators (`RETYPE_SAFE`) without constants of the
    retyped kind; the result is re-derived by `typecheck`.  None when the program does not qualify."""
    if any(n["op"] not in RETYPE_SAFE and not (n["op"] == "Constant" and n["ty"][0][1] == []) for n in prog["nodes"]):
        return None

    def conv(t):
        t = list(t)
        if t[0] == "i64" and not t[2] and len(t[1]) >= 1 and t[1][-1] == N:
            return [dtype or "i64", t[1][:-1] + [N if length is None else length], t[2]]
        return t

    out = json.loads(json.dumps(prog))
    for n in out["nodes"]:
        n["ty"] = [conv(t) for t in n["ty"]]
    if check_wellformed(out) or typecheck(out):
        return None
    return out
