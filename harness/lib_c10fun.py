"""C10 oracle: attributes of every kind handed to a user-defined Function and referenced (`_Ref`) inside its body.

Kept WITHOUT `from __future__ import annotations` (spox reads the dataclass field types at class creation).  Uses the
custom-operator recipe of spox's own tests (spox._function.Function, spox._attributes._Ref); callers guard the import
and register 'not observable' if it is gone.  Judged on the serialized built model with the own wire decoder:
* the call node carries every attribute under the name given, with its ONNX type and exact value;
* each body node's attribute appears under ITS ONNX name, refers to the outer name (`ref_attr_name`), has the ONNX
  attribute type of its kind and no value of its own; the function declares exactly the outer names.
"""
from dataclasses import dataclass
from typing import Dict

import numpy as np

import spox
import spox.opset.ai.onnx.v17 as op
from harness import lib_c10wire as W
from spox import Tensor, Var, argument
from spox._attributes import Attr, AttrFloat32, AttrFloat32s, AttrInt64, AttrInt64s, AttrString, AttrStrings, AttrTensor, _Ref
from spox._fields import BaseAttributes, BaseInputs, BaseOutputs
from spox._function import Function
from spox._node import OpType

KINDS = [  # outer name, class, value, inner Constant attribute, ONNX type name, field of the decoded attribute, expected
    ("alpha_f", AttrFloat32, 0.1, "value_float", "FLOAT"),
    ("count_i", AttrInt64, -3, "value_int", "INT"),
    ("label_s", AttrString, "ü", "value_string", "STRING"),
    ("axes_is", AttrInt64s, [2, -1, 2**63 - 1], "value_ints", "INTS"),
    ("coef_fs", AttrFloat32s, [0.5, -0.0, 1e40], "value_floats", "FLOATS"),
    ("names_ss", AttrStrings, ["a", "日本", ""], "value_strings", "STRINGS"),
    ("table_t", AttrTensor, np.array([[1, 2], [3, 4]], dtype=np.int16), "value", "TENSOR"),
]
_COUNTER = [0]


def make():
    _COUNTER[0] += 1

    class Fun(Function):
        @dataclass
        class Attributes(BaseAttributes):
            alpha_f: AttrFloat32
            count_i: AttrInt64
            label_s: AttrString
            axes_is: AttrInt64s
            coef_fs: AttrFloat32s
            names_ss: AttrStrings
            table_t: AttrTensor

        @dataclass
        class Inputs(BaseInputs):
            X: Var

        @dataclass
        class Outputs(BaseOutputs):
            Y: Var

        op_type = OpType(f"C10RefFun{_COUNTER[0]}", "verif.c10", 0)
        attrs: Attributes
        inputs: Inputs
        outputs: Outputs

        def constructor(self, attrs: Dict[str, Attr], inputs: Inputs) -> Outputs:
            y = inputs.X
            for outer, _cls, _v, inner, _t in KINDS:
                c = op.constant(**{inner: _Ref(attrs[outer], outer_name=outer, name=inner)})
                y = op.add(y, op.cast(op.reduce_sum(op.cast(op.size(c), to=np.float32), keepdims=False), to=np.float32))
            return self.Outputs(y)

    return Fun


def f32_bits(x):
    with np.errstate(all="ignore"):
        return int(np.array([x], dtype=np.float64).astype(np.float32).view(np.uint32)[0])


def run():
    """-> [(key, what)] problems of the property on the built model"""
    Fun = make()
    x = argument(Tensor(np.float32, (2,)))
    attrs = Fun.Attributes(**{outer: cls(v, outer) for outer, cls, v, _, _ in KINDS})
    y = Fun(attrs, Fun.Inputs(x)).outputs.Y
    mb = spox.build({"x": x}, {"y": y}).SerializeToString()
    g = W.graph_parts(W.graph_of_model(mb))
    probs = []
    name = Fun.op_type.identifier
    node = next((n for n in g["nodes"] if n["op_type"] == name), None)
    if node is None:
        return [("call-node", f"no {name} node in the built model")]
    by = {a["name"]: a for a in node["attrs"]}
    for outer, _cls, v, _inner, tname in KINDS:
        a = by.get(outer)
        if a is None or a["type"] != W.ATTR_TYPE[tname]:
            probs.append((f"call-node:{tname}", f"call node attribute {outer!r}: {None if a is None else a['type']}, expected type {W.ATTR_TYPE[tname]}"))
            continue
        got, want = {
            "FLOAT": lambda: (a["f"], f32_bits(v)), "INT": lambda: (a["i"], v), "STRING": lambda: (a["s"], v.encode()),
            "INTS": lambda: (a["ints"], list(v)), "FLOATS": lambda: (a["floats"], [f32_bits(t) for t in v]),
            "STRINGS": lambda: (a["strings"], [s.encode() for s in v]),
            "TENSOR": lambda: ((lambda t: (t["dtype"], t["dims"], t["words"]))(W.tensor(a["t"])), ("int16", [2, 2], [1, 2, 3, 4])),
        }[tname]()
        if got != want:
            probs.append((f"call-node:{tname}", f"call node attribute {outer!r} = {got!r}, handed over {want!r}"))
    fn = next((f for f in W.functions_of_model(mb) if f["name"] == name), None)
    if fn is None:
        return probs + [("function", f"no FunctionProto {name} in the built model")]
    if sorted(fn["attribute"]) != sorted(k[0] for k in KINDS):
        probs.append(("function:declared", f"function declares attributes {fn['attribute']}, expected {[k[0] for k in KINDS]}"))
    consts = [n for n in fn["nodes"] if n["op_type"] == "Constant"]
    for outer, _cls, _v, inner, tname in KINDS:
        hit = [a for n in consts for a in n["attrs"] if a["name"] == inner]
        if len(hit) != 1:
            probs.append((f"body:{tname}:name", f"{len(hit)} body attributes named {inner!r} (the reference to {outer!r}); body has {[a['name'] for n in consts for a in n['attrs']]}"))
            continue
        a = hit[0]
        ref = a["ref"].decode() if a["ref"] else None
        if ref != outer or a["type"] != W.ATTR_TYPE[tname]:
            probs.append((f"body:{tname}:ref", f"body attribute {inner!r}: ref_attr_name {ref!r} type {a['type']}, expected {outer!r} type {W.ATTR_TYPE[tname]}"))
        if a["i"] or a["f"] or a["s"] or a["ints"] or a["floats"] or a["strings"] or a["t"] is not None:
            probs.append((f"body:{tname}:value", f"body attribute {inner!r} is a reference but carries a value"))
    return probs


# ---------------------------------------------------------------- an Inputs dataclass with one field of each kind
from typing import Optional as _Opt, Sequence as _Seq  # noqa: E402


@dataclass
class In3(BaseInputs):
    A: Var
    B: _Opt[Var]
    C: _Seq[Var]
