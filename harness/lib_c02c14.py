"""Program specs shared by C02 and C14: JSON-able programs over the public spox API, their realisation
with the real constructors, an independent numpy evaluator (functions and inlined models expanded),
the validity judges of C02 (full checker, strict inference, onnxruntime load, independent walker) and
seeded generators.

A *spec* is plain JSON (so it is its own replay file):

  {"args":   ["f","b",...],               types of the created `argument`s (f = float32[2], b = bool[], i = int64[])
   "inputs": [[name, arg_index], ...],    the `inputs` dict handed to build (order significant)
   "stmts":  [stmt, ...],                 each statement appends its result Vars to the environment
   "outputs":[[name, ref], ...],          the `outputs` dict handed to build
   "drop":   bool,                        drop_unused_inputs
   "funcs":  [funcspec, ...], "models": [modelspec, ...]}

  stmt :=  ["op", name, ver, [refs]]                      one result
        |  ["const", [a, b]] | ["init", [a, b]]           float32[2] constant / initializer
        |  ["if", cond_ref, body, body]                   body = {"stmts": [...], "outs": [refs]}
        |  ["loop", n, [state refs], body]                body env gets (iter:i, cond:b, states...) appended
        |  ["inline", model_index, [refs]]
        |  ["call", func_index, [refs]]
  refs index the environment visible at that point (enclosing environments are visible in bodies).

  funcspec  := {"name","domain","nin","nout","body": body, "vary": bool}   (body env = its inputs only)
  modelspec := {"ins":[names],"outs":[names],"nodes":[[op,name,[ins],[outs]]...],"inits":[[name,[a,b]]...],"opset":int}
             | {"spec": spec}   (a model built by spox itself from another spec, then inlined)
"""
from __future__ import annotations

import copy
import warnings
from typing import Any

import numpy as np

F32 = np.float32
OPSET_VERS = [17, 18, 19, 20, 21]

_GDT = {"f32": np.float32, "f64": np.float64, "i64": np.int64}

UNARY = ["neg", "abs", "relu", "identity", "rmax", "split0"]
BINARY = ["add", "sub", "mul"]
BOOL1 = ["not"]
BOOL2 = ["and", "or"]


# ----------------------------------------------------------------------------- realisation (real spox)
class VaryCounter:
    """Makes a 'varying' function body differ between invocations of its Python body."""

    def __init__(self):
        self.n = 0


def _opmod(ver):
    import importlib

    return importlib.import_module(f"spox.opset.ai.onnx.v{ver}")


def _types():
    from spox import Tensor

    return {"f": Tensor(F32, (2,)), "b": Tensor(np.bool_, ()), "i": Tensor(np.int64, ())}


def _apply_op(name, ver, ins):
    op = _opmod(ver)
    if name == "add":
        return op.add(*ins)
    if name == "sub":
        return op.sub(*ins)
    if name == "mul":
        return op.mul(*ins)
    if name == "neg":
        return op.neg(*ins)
    if name == "abs":
        return op.abs(*ins)
    if name == "relu":
        return op.relu(*ins)
    if name == "identity":
        return op.identity(*ins)
    if name == "not":
        return op.not_(*ins)
    if name == "and":
        return op.and_(*ins)
    if name == "or":
        return op.or_(*ins)
    if name == "split0":  # x + x[0] + x[1] through Split (13 -> 18: `num_outputs` became mandatory without `split`)
        (x,) = ins
        if ver == 17:
            a, b = op.split(x, outputs_count=2)
        else:
            a, b = op.split(x, num_outputs=2)
        return op.add(op.add(x, a), b)
    if name == "pos":  # scalar bool: is the first element positive?
        (x,) = ins
        first = op.gather(x, op.constant(value=np.array(0, np.int64)))
        return op.greater(first, op.constant(value=np.array(0, F32)))
    if name == "binarize":  # an operator of another standard domain (ai.onnx.ml)
        import spox.opset.ai.onnx.ml.v3 as ml

        return ml.binarizer(ins[0], threshold=0.5)
    if name == "rmax":  # x + max(x): ReduceMax changed between 17 and 18 (axes attribute -> input)
        (x,) = ins
        if ver == 17:
            m = op.reduce_max(x, axes=[0], keepdims=1)
        else:
            m = op.reduce_max(x, op.constant(value_ints=[0]), keepdims=1)
        return op.add(x, m)
    raise ValueError(name)


def make_model(ms, cache=None):
    """A modelspec -> onnx.ModelProto (built with onnx.helper, or by spox from a nested spec)."""
    import onnx
    from onnx import TensorProto as TP
    from onnx import helper as h

    if "spec" in ms:
        st, m = build_spec(ms["spec"])
        if st != "ok":
            raise RuntimeError(f"nested model spec does not build: {m}")
        return m

    def vi(n):
        return h.make_tensor_value_info(n, TP.FLOAT, [2])

    def mk_nodes(nodes):
        out = []
        for nd in nodes:
            opn, name, ins, outs = nd[:4]
            kw = {}
            if opn == "If":
                # nd[4] = [then_nodes, then_out, else_nodes, else_out]; bodies see the enclosing names
                tn, to, en, eo = nd[4]
                kw["then_branch"] = h.make_graph(mk_nodes(tn), name + "_then", [], [vi(to)])
                kw["else_branch"] = h.make_graph(mk_nodes(en), name + "_else", [], [vi(eo)])
            out.append(h.make_node(opn, list(ins), list(outs), name=name or None, **kw))
        return out

    ins = [vi(n) for n in ms["ins"]]
    if ms.get("cond"):
        ins.append(h.make_tensor_value_info(ms["cond"], TP.BOOL, []))
    # overridable defaults: graph inputs that also have an initializer of the same name (listed last)
    ins += [vi(n) for n, _ in ms.get("defaults", [])]
    g = h.make_graph(
        mk_nodes(ms["nodes"]),
        ms.get("gname", "inner"),
        ins,
        [vi(n) for n in ms["outs"]],
        [h.make_tensor(n, TP.FLOAT, [2], [float(v) for v in vals])
         for n, vals in list(ms.get("inits", [])) + list(ms.get("defaults", []))],
    )
    m = h.make_model(g, opset_imports=[h.make_operatorsetid("", ms.get("opset", 17))], ir_version=8)
    onnx.checker.check_model(m, full_check=True)  # the inlined model itself must be valid ("for any valid m")
    return m


class Realiser:
    def __init__(self, spec):
        self.spec = spec
        self.counters: dict[int, VaryCounter] = {}
        self.variant: dict[int, int] = {}
        self.fn_cache: dict[int, Any] = {}
        self.model_cache: dict[int, Any] = {}

    def func(self, fi):
        """The decorated (to_function) callable for funcspec fi — one decorator object per funcspec."""
        if fi in self.fn_cache:
            return self.fn_cache[fi]
        from spox._function import to_function

        fs = self.spec["funcs"][fi]
        ctr = self.counters.setdefault(fi, VaryCounter())
        T = _types()
        nin = fs["nin"]

        def body(*args):
            env = [(a, "f") for a in args]
            ctr.n += 1
            variant_here = self.variant.get(fi)
            self.run_stmts(fs["body"]["stmts"], env)
            self.variant[fi] = variant_here
            outs = [env[r][0] for r in fs["body"]["outs"]]
            v = self.variant.get(fi)
            if v == 1:
                # this call site uses a different body: one more Neg on the first result
                outs[0] = _opmod(17).neg(outs[0])
            elif v == 2:
                # ... or, with the same number of nodes as variant 1, an Abs
                outs[0] = _opmod(17).abs(outs[0])
            return outs

        # to_function takes the arity from the signature: make a wrapper with exactly nin parameters
        params = ", ".join(f"a{i}" for i in range(nin))
        ns = {"body": body}
        exec(f"def pyfun({params}):\n    return body({params})\n", ns)  # noqa: S102
        f = to_function(fs["name"], fs["domain"], _version=fs.get("version", 0))(ns["pyfun"])
        self.fn_cache[fi] = f
        return f

    def generic(self, gi):
        """A function whose Python body looks at the dtype of its argument (one decorator object)."""
        key = ("generic", gi)
        if key in self.fn_cache:
            return self.fn_cache[key]
        from spox._function import to_function

        gs = self.spec["generics"][gi]
        op = _opmod(17)

        def pyfun(a):
            dt = a.unwrap_tensor().dtype
            if gs["kind"] == "addconst":  # the constant has the argument's dtype: the body depends on the call
                return [op.add(a, op.constant(value=np.array(1, dtype=dt)))]
            if gs["kind"] == "castself":  # an attribute depends on the call
                return [op.cast(op.add(a, a), to=dt)]
            return [op.mul(a, a)]  # "mulself": the same body whatever the dtype

        f = to_function(gs["name"], gs["domain"])(pyfun)
        self.fn_cache[key] = f
        return f

    def custom(self, ci):
        """A user-defined operator (one input, one output of the same type), as tests/test_custom_operator.py
        defines one."""
        key = ("custom", ci)
        if key in self.fn_cache:
            return self.fn_cache[key]
        from harness.lib_c02c14_custom import make_custom

        cs = self.spec["customs"][ci]
        call = make_custom(cs["ident"], cs["domain"])
        self.fn_cache[key] = call
        return call

    def model(self, mi):
        if mi not in self.model_cache:
            self.model_cache[mi] = make_model(self.spec["models"][mi])
        return self.model_cache[mi]

    def run_body(self, body, outer_env, extra):
        env = list(outer_env) + list(extra)
        self.run_stmts(body["stmts"], env)
        return [env[r][0] for r in body["outs"]]

    def run_stmts(self, stmts, env):
        import spox
        from spox._future import initializer

        op17 = _opmod(17)
        for st in stmts:
            k = st[0]
            if k == "op":
                _, name, ver, refs = st
                ins = [env[r][0] for r in refs]
                t = "b" if name in BOOL1 + BOOL2 + ["pos"] else "f"
                env.append((_apply_op(name, ver, ins), t))
            elif k == "const":
                env.append((_opmod(st[2] if len(st) > 2 else 17).constant(value=np.array(st[1], F32)), "f"))
            elif k == "init":
                env.append((initializer(np.array(st[1], F32)), "f"))
            elif k == "if":
                _, c, tb, eb = st[:4]
                ver = st[4] if len(st) > 4 else 17
                outer = list(env)
                res = _opmod(ver).if_(
                    env[c][0],
                    then_branch=lambda: self.run_body(tb, outer, []),
                    else_branch=lambda: self.run_body(eb, outer, []),
                )
                for r in res:
                    env.append((r, "f"))
            elif k == "loop":
                _, n, srefs, body = st[:4]
                ver = st[4] if len(st) > 4 else 17
                outer = list(env)

                def lbody(i, c, *states, _body=body, _outer=outer):
                    outs = self.run_body(_body, _outer, [(i, "i"), (c, "b")] + [(s, "f") for s in states])
                    return [c, *outs]

                res = _opmod(ver).loop(
                    op17.constant(value=np.array(n, np.int64)),
                    v_initial=[env[r][0] for r in srefs],
                    body=lbody,
                )
                for r in res:
                    env.append((r, "f"))
            elif k == "inline":
                mi, refs = st[1], st[2]
                m = self.model(mi)
                # st[3] (optional): {default input name: [how, ref]} - the caller overrides an initializer
                # default with a Var: "ok" well-typed, or ill-typed by "dtype" / "rank" / "dim"
                kw = {}
                for name, (how, ref) in (st[3] if len(st) > 3 else {}).items():
                    v = env[ref][0]
                    if how == "dtype":
                        v = op17.cast(v, to=np.int64)
                    elif how == "rank":
                        v = op17.reshape(v, op17.constant(value=np.array([1, 2], np.int64)))
                    elif how == "dim":
                        v = op17.concat([v, v], axis=0)
                    kw[name] = v
                res = spox.inline(m)(*[env[r][0] for r in refs], **kw)
                for r in res.values():
                    env.append((r, "f"))
            elif k == "custom":
                env.append((self.custom(st[1])(env[st[2][0]][0]), "f"))
            elif k == "callg":
                # a dtype-generic function called at dtype st[3]: cast in, call, cast back to float32
                _, gi, ref, dt = st
                x = env[ref][0]
                if dt != "f32":
                    x = op17.cast(x, to=_GDT[dt])
                (y,) = self.generic(gi)(x)
                if dt != "f32":
                    y = op17.cast(y, to=np.float32)
                env.append((y, "f"))
            elif k == "call":
                fi, refs = st[1], st[2]
                args = [env[r][0] for r in refs]
                self.variant[fi] = st[3] if len(st) > 3 else 0
                res = self.func(fi)(*args)
                for r in res:
                    env.append((r, "f"))
            else:
                raise ValueError(f"bad stmt {st}")


def realise(spec):
    """-> (inputs dict, outputs dict) of real Vars."""
    import spox

    T = _types()
    rz = Realiser(spec)
    env = [(spox.argument(T[t]), t) for t in spec["args"]]
    args = [v for v, _ in env]
    rz.run_stmts(spec["stmts"], env)
    inputs = {}
    for name, ai in spec["inputs"]:
        inputs[name] = args[ai]
    outputs = {}
    for name, r in spec["outputs"]:
        outputs[name] = env[r][0]
    return inputs, outputs


def build_spec(spec):
    """Realise and build with the real code. ('ok', ModelProto) | ('err', ExcClassName: message)."""
    import spox

    with warnings.catch_warnings():
        warnings.simplefilter("ignore")
        try:
            inputs, outputs = realise(spec)
            m = spox.build(inputs, outputs, drop_unused_inputs=bool(spec.get("drop")))
            return "ok", m
        except Exception as e:  # noqa: BLE001 - a raised exception is a legitimate outcome for C02
            return "err", f"{type(e).__name__}: {str(e)[:300]}"


# ----------------------------------------------------------------------------- numpy evaluation
def _np_op(name, ins):
    if name == "add":
        return ins[0] + ins[1]
    if name == "sub":
        return ins[0] - ins[1]
    if name == "mul":
        return ins[0] * ins[1]
    if name == "neg":
        return -ins[0]
    if name == "abs":
        return np.abs(ins[0])
    if name == "relu":
        return np.maximum(ins[0], F32(0))
    if name == "identity":
        return ins[0]
    if name == "not":
        return np.logical_not(ins[0])
    if name == "and":
        return np.logical_and(*ins)
    if name == "or":
        return np.logical_or(*ins)
    if name == "split0":
        x = np.asarray(ins[0])
        return x + x[0:1] + x[1:2]
    if name == "pos":
        return np.array(bool(np.asarray(ins[0]).reshape(-1)[0] > 0))
    if name == "binarize":
        return (np.asarray(ins[0]) > F32(0.5)).astype(F32)
    if name == "rmax":
        return ins[0] + np.max(ins[0], keepdims=True)
    raise ValueError(name)


_ONNX_NP = {"Add": "add", "Sub": "sub", "Mul": "mul", "Neg": "neg", "Abs": "abs", "Relu": "relu",
            "Identity": "identity"}


def np_model(spec, ms, ins, overrides=None):
    if "spec" in ms:
        sub = ms["spec"]
        feeds = {name: v for (name, _), v in zip(sub["inputs"], ins)}
        # the inlined model's inputs are the sub-build's graph inputs, in proto order = build order
        out = np_eval(sub, feeds, by_model_inputs=True)
        return list(out.values())
    names = {n: v for n, v in zip(ms["ins"], ins)}
    if ms.get("cond"):
        names[ms["cond"]] = ins[len(ms["ins"])]
    for n, vals in ms.get("inits", []):
        if n not in names:
            names[n] = np.array(vals, F32)
    for n, vals in ms.get("defaults", []):
        names[n] = (overrides or {}).get(n, np.array(vals, F32))

    def run(nodes):
        for nd in nodes:
            opn, _name, i, o = nd[:4]
            if opn == "If":
                tn, to, en, eo = nd[4]
                if bool(names[i[0]]):
                    run(tn)
                    names[o[0]] = names[to]
                else:
                    run(en)
                    names[o[0]] = names[eo]
            else:
                names[o[0]] = _np_op(_ONNX_NP[opn], [names[x] for x in i])

    run(ms["nodes"])
    return [names[n] for n in ms["outs"]]


class NpEval:
    def __init__(self, spec):
        self.spec = spec
        self.calls: dict[int, int] = {}

    def body(self, body, outer, extra):
        env = list(outer) + list(extra)
        self.stmts(body["stmts"], env)
        return [env[r] for r in body["outs"]]

    def stmts(self, stmts, env):
        for st in stmts:
            k = st[0]
            if k == "op":
                env.append(_np_op(st[1], [env[r] for r in st[3]]))
            elif k in ("const", "init"):
                env.append(np.array(st[1], F32))
            elif k == "custom":
                env.append(env[st[2][0]])
            elif k == "callg":
                _, gi, ref, dt = st
                x = np.asarray(env[ref]).astype(_GDT[dt])
                kind = self.spec["generics"][gi]["kind"]
                y = x + np.array(1, _GDT[dt]) if kind == "addconst" else (x + x if kind == "castself" else x * x)
                env.append(np.asarray(y).astype(F32))
            elif k == "if":
                _, c, tb, eb = st[:4]
                outs = self.body(tb if bool(env[c]) else eb, env, [])
                env.extend(outs)
            elif k == "loop":
                _, n, srefs, body = st[:4]
                states = [env[r] for r in srefs]
                outer = list(env)
                for it in range(n):
                    states = self.body(body, outer, [np.array(it, np.int64), np.array(True)] + states)
                env.extend(states)
            elif k == "inline":
                mi, refs = st[1], st[2]
                over = {n: env[ref] for n, (how, ref) in (st[3] if len(st) > 3 else {}).items()}
                env.extend(np_model(self.spec, self.spec["models"][mi], [env[r] for r in refs], over))
            elif k == "call":
                fi, refs = st[1], st[2]
                fs = self.spec["funcs"][fi]
                outs = self.body(fs["body"], [], [env[r] for r in refs])
                if len(st) > 3 and st[3] == 1:
                    outs[0] = -outs[0]
                elif len(st) > 3 and st[3] == 2:
                    outs[0] = np.abs(outs[0])
                env.extend(outs)
            else:
                raise ValueError(st)


def np_eval(spec, feeds, by_model_inputs=False):
    """Evaluate the program directly (functions and inlined models expanded). feeds: input name -> array."""
    argv: list[Any] = [None] * len(spec["args"])
    for name, ai in spec["inputs"]:
        if name in feeds:
            argv[ai] = feeds[name]
    env = list(argv)
    NpEval(spec).stmts(spec["stmts"], env)
    return {name: env[r] for name, r in spec["outputs"]}


def _nres(spec, st):
    k = st[0]
    if k in ("op", "const", "init", "custom", "callg"):
        return 1
    if k == "if":
        return len(st[2]["outs"])
    if k == "loop":
        return len(st[2])
    if k == "inline":
        ms = spec["models"][st[1]]
        return len(ms["outs"]) if "outs" in ms else len(ms["spec"]["outputs"])
    if k == "call":
        return spec["funcs"][st[1]]["nout"]
    raise ValueError(st)


GENERIC_USES: list = []  # (generic index, dtype) of the live `callg` sites of the last live_calls() run


def generic_bodies_differ(spec):
    """Keys of dtype-generic functions that are used (live) at two dtypes with a dtype-dependent body:
    the rendered definitions differ, so the build has to raise."""
    live_calls(spec)
    by = {}
    for gi, dt in GENERIC_USES:
        by.setdefault(gi, set()).add(dt)
    return [(spec["generics"][gi]["domain"], spec["generics"][gi]["name"]) for gi, dts in by.items()
            if len(dts) > 1 and spec["generics"][gi]["kind"] != "mulself"]


def live_calls(spec):
    """Call sites that end up in the built model: [(func_index, variant)], by liveness from the outputs
    (through control-flow bodies and, for live calls, through the called bodies)."""
    found = []
    generic_uses = GENERIC_USES
    del generic_uses[:]

    def walk(stmts, base_len, needed):
        starts, n = [], base_len
        for st in stmts:
            starts.append(n)
            n += _nres(spec, st)
        needed = set(needed)
        for st, start in reversed(list(zip(stmts, starts))):
            if not any(start + j in needed for j in range(_nres(spec, st))):
                continue
            k = st[0]
            if k == "op":
                needed.update(st[3])
            elif k == "custom":
                needed.update(st[2])
            elif k == "callg":
                needed.add(st[2])
                generic_uses.append((st[1], st[3]))
            elif k == "if":
                needed.add(st[1])
                for body in (st[2], st[3]):
                    inner = walk(body["stmts"], start, body["outs"])
                    needed.update(i for i in inner if i < start)
            elif k == "loop":
                needed.update(st[2])
                body = st[3]
                extra = 2 + len(st[2])
                inner = walk(body["stmts"], start + extra, body["outs"])
                needed.update(i for i in inner if i < start)
            elif k == "inline":
                needed.update(st[2])
                needed.update(ref for _, ref in (st[3] if len(st) > 3 else {}).values())
            elif k == "call":
                needed.update(st[2])
                fi = st[1]
                found.append((fi, st[3] if len(st) > 3 else 0))
                fs = spec["funcs"][fi]
                walk(fs["body"]["stmts"], fs["nin"], fs["body"]["outs"])
        return needed

    walk(spec["stmts"], len(spec["args"]), [r for _, r in spec["outputs"]])
    return found


def keys_with_differing_bodies(spec):
    """Keys (domain, name) whose live uses do not all have the same body *text* (funcspec body, arity,
    call-site variant; for dtype-generic functions: a dtype-dependent body used at two dtypes).
    Only for these may the build raise 'two different definitions'."""
    import json as _json

    by: dict = {}
    for fi, variant in dict.fromkeys(live_calls(spec)):
        fs = spec["funcs"][fi]
        by.setdefault((fs["domain"], fs["name"]), set()).add(
            _json.dumps([fs["body"], fs["nin"], fs["nout"], variant], sort_keys=True))
    out = [k for k, v in by.items() if len(v) > 1]
    return out + generic_bodies_differ(spec)


def distinguishable_bodies(spec, rng_seed=0):
    """Keys (domain, name) that are used (live) with two bodies computing different functions.
    Judged numerically on probe inputs, so two bodies that merely look different are not reported."""
    import random as _r

    rng = _r.Random(rng_seed)
    by_key: dict = {}
    for fi, variant in dict.fromkeys(live_calls(spec)):
        fs = spec["funcs"][fi]
        by_key.setdefault((fs["domain"], fs["name"]), []).append((fi, variant))
    bad = []
    for key, uses in by_key.items():
        if len(uses) < 2:
            continue
        nins = {spec["funcs"][fi]["nin"] for fi, _ in uses}
        nouts = {spec["funcs"][fi]["nout"] for fi, _ in uses}
        if len(nins) > 1 or len(nouts) > 1:
            bad.append(key)
            continue
        nin = nins.pop()
        probes = [[np.array([rng.choice([-2.0, -1.0, 0.5, 1.0, 3.0]), rng.choice([-1.5, 2.0, 4.0])], F32)
                   for _ in range(nin)] for _ in range(3)]
        sigs = set()
        for fi, variant in uses:
            fs = spec["funcs"][fi]
            sig = []
            for args in probes:
                outs = NpEval(spec).body(fs["body"], [], list(args))
                if variant == 1:
                    outs[0] = -outs[0]
                elif variant == 2:
                    outs[0] = np.abs(outs[0])
                sig.append(tuple(tuple(np.asarray(o, F32).tolist()) for o in outs))
            sigs.add(tuple(sig))
        if len(sigs) > 1:
            bad.append(key)
    return bad


def rand_feeds(spec, rng):
    feeds = {}
    for name, ai in spec["inputs"]:
        t = spec["args"][ai]
        if t == "f":
            feeds[name] = np.array([rng.choice([-2.5, -1.0, 0.0, 0.5, 1.0, 3.0]) for _ in range(2)], F32)
        elif t == "b":
            feeds[name] = np.array(rng.random() < 0.5)
        else:
            feeds[name] = np.array(rng.randrange(0, 3), np.int64)
    return feeds


# ----------------------------------------------------------------------------- C02 judges (model-free)
def proto_to_named(g):
    """GraphProto -> nested JSON {inputs, inits, nodes:[{name, op, domain, ins, outs, subs}], outputs}."""
    import onnx

    nodes = []
    for nd in g.node:
        subs = []
        for a in nd.attribute:
            if a.type == onnx.AttributeProto.GRAPH:
                subs.append(proto_to_named(a.g))
            elif a.type == onnx.AttributeProto.GRAPHS:
                subs.extend(proto_to_named(x) for x in a.graphs)
        nodes.append({"name": nd.name, "op": nd.op_type, "domain": nd.domain, "ins": list(nd.input),
                      "outs": list(nd.output), "subs": subs})
    inits = [t.name for t in g.initializer] + [t.values.name for t in g.sparse_initializer]
    return {"inputs": [i.name for i in g.input], "inits": inits, "nodes": nodes,
            "outputs": [o.name for o in g.output]}


def func_to_named(f):
    import onnx

    g = onnx.GraphProto()
    g.node.extend(f.node)
    d = proto_to_named(g)
    d["inputs"] = list(f.input)
    d["outputs"] = list(f.output)
    return d


def walk_named(named):
    """Independent walker over one top-level named graph (all nested graphs included).

    Returns a list of problems (strings `kind:detail`). Rules = the property statement:
      every value name is defined exactly once in the whole graph tree; every non-empty node name is
      used once; every non-empty node input is defined earlier in the same graph or in an enclosing
      graph (graph inputs / initializers count as defined at graph entry); graph outputs are defined.
    An initializer may carry the name of an input of the same graph (a default value) - that is one
    definition.
    """
    problems = []
    defs: dict[str, list] = {}        # value name -> paths of the graphs that define it
    node_names: dict[str, list] = {}  # node name  -> paths of the graphs that hold such a node

    def define(n, path):
        defs.setdefault(n, []).append(path)

    def walk(g, visible, path):
        vis = set(visible)
        entry = list(dict.fromkeys(g["inputs"]))
        if len(entry) != len(g["inputs"]):
            problems.append("dup-input:" + ",".join(g["inputs"]))
        if len(set(g["inits"])) != len(g["inits"]):
            problems.append("dup-initializer:" + ",".join(g["inits"]))
        for n in entry + [n for n in dict.fromkeys(g["inits"]) if n not in entry]:
            if n == "":
                problems.append("empty-graph-input")
                continue
            define(n, path)
            vis.add(n)
        for k, nd in enumerate(g["nodes"]):
            if nd["name"]:
                node_names.setdefault(nd["name"], []).append(path)
            for i in nd["ins"]:
                if i and i not in vis:
                    problems.append(f"use-before-def:{i}@{nd['name'] or nd.get('op', '?')}")
            for j, sg in enumerate(nd["subs"]):
                walk(sg, vis, path + ((k, j),))
            for o in nd["outs"]:
                if o:
                    define(o, path)
                    vis.add(o)
        for o in g["outputs"]:
            if o not in vis:
                problems.append(f"undefined-output:{o}")

    def only_in_sibling_graphs(paths):
        """every two definition sites lie in different graphs neither of which encloses the other"""
        def nested(p, q):
            return p[:len(q)] == q or q[:len(p)] == p
        return all(not nested(p, q) for i, p in enumerate(paths) for q in paths[i + 1:])

    walk(named, set(), ())
    for n, ps in defs.items():
        if len(ps) > 1:
            problems.append(f"dup-value{'-in-sibling-bodies' if only_in_sibling_graphs(ps) else ''}:{n}")
    for n, ps in node_names.items():
        if len(ps) > 1:
            problems.append(f"dup-node-name{'-in-sibling-bodies' if only_in_sibling_graphs(ps) else ''}:{n}")
    return problems


def walk_model(m):
    probs = walk_named(proto_to_named(m.graph))
    for f in m.functions:
        probs += [f"function {f.domain}:{f.name}: " + p for p in walk_named(func_to_named(f))]
    # functions: every non-standard-domain op used anywhere must resolve to a definition
    return probs


def used_function_keys(m, fkeys=None):
    """(domain, op_type) of every node, anywhere in the model (graphs, bodies, function bodies), whose
    domain is not a standard ONNX domain."""
    import onnx

    std = {"", "ai.onnx", "ai.onnx.ml", "ai.onnx.training", "ai.onnx.preview.training", "com.microsoft"}
    used = []

    def walk_nodes(nodes):
        for nd in nodes:
            if nd.domain not in std:
                used.append((nd.domain, nd.op_type))
            for a in nd.attribute:
                if a.type == onnx.AttributeProto.GRAPH:
                    walk_nodes(a.g.node)
                elif a.type == onnx.AttributeProto.GRAPHS:
                    for x in a.graphs:
                        walk_nodes(x.node)

    walk_nodes(m.graph.node)
    for f in m.functions:
        walk_nodes(f.node)
    return used


def callee_first(m):
    """A copy of the model with `functions` ordered callees-first (the order carries no meaning in ONNX,
    but onnx.reference resolves functions in list order)."""
    import onnx

    keys = {(f.domain, f.name): f for f in m.functions}
    order, seen = [], set()

    def uses(f):
        out = []

        def walk(nodes):
            for nd in nodes:
                if (nd.domain, nd.op_type) in keys:
                    out.append((nd.domain, nd.op_type))
                for a in nd.attribute:
                    if a.type == onnx.AttributeProto.GRAPH:
                        walk(a.g.node)
                    elif a.type == onnx.AttributeProto.GRAPHS:
                        for g in a.graphs:
                            walk(g.node)

        walk(f.node)
        return out

    def visit(k, stack=()):
        if k in seen or k in stack:
            return
        for u in uses(keys[k]):
            visit(u, stack + (k,))
        seen.add(k)
        order.append(k)

    for k in keys:
        visit(k)
    m2 = onnx.ModelProto()
    m2.CopyFrom(m)
    del m2.functions[:]
    m2.functions.extend(keys[k] for k in order)
    return m2


def reference_loads(m):
    from onnx.reference import ReferenceEvaluator

    try:
        ReferenceEvaluator(callee_first(m))
        return True, ""
    except Exception as e:  # noqa: BLE001
        return False, str(e)[:200]


def _j_checker(m):
    import onnx

    try:
        onnx.checker.check_model(m, full_check=True)
    except Exception as e:  # noqa: BLE001
        return [("full-checker", str(e)[:300])]
    return []


def _j_strict(m):
    import onnx.shape_inference

    try:
        onnx.shape_inference.infer_shapes(m, check_type=True, strict_mode=True, data_prop=True)
    except Exception as e:  # noqa: BLE001
        return [("strict-inference", str(e)[:300])]
    return []


def _j_struct(m, custom_keys):
    """pure Python: walker + every used non-standard operator has a definition. -> (bad, uses_custom_ops)"""
    bad = [("walker", p) for p in walk_model(m)]
    defined = {(f.domain, f.name) for f in m.functions}
    used = set(used_function_keys(m))
    missing = sorted(used - defined - custom_keys)
    if missing:
        bad.append(("missing-function", ",".join(f"{d}:{n}" for d, n in missing)))
    return bad, bool(used & custom_keys)


def _j_ort(m):
    """-> (bad, unsupported notes)"""
    try:
        import onnxruntime as ort

        so = ort.SessionOptions()
        so.log_severity_level = 4
        ort.InferenceSession(m.SerializeToString(), so, providers=["CPUExecutionProvider"])
    except Exception as e:  # noqa: BLE001
        # onnxruntime's support for (nested) functions is incomplete: a model with functions that ORT
        # refuses but the ONNX reference runtime loads is recorded as runtime-unsupported, not a failure
        ok_ref = False
        if len(m.functions):
            ok_ref, _ = reference_loads(m)
        if ok_ref:
            return [], [str(e)[:120]]
        return [("ort-load", str(e)[:300])], []
    return [], []


def _judge_model_raw(m, want_ort, custom_keys):
    bad = _j_checker(m) + _j_strict(m)
    sb, uses_custom = _j_struct(m, custom_keys)
    bad += sb
    unsupported = []
    if want_ort and not uses_custom:
        ob, unsupported = _j_ort(m)
        bad += ob
    return bad, unsupported


def judge_model(m, want_ort=True, custom_keys=()):
    """All model-free validity judges of C02 on a returned ModelProto. -> list of (kind, detail).
    `custom_keys`: (domain, op_type) of user-defined operators of the program - they need no
    FunctionProto, and no runtime has kernels for them (loading is then not attempted).

    The native judges (onnx checker, strict inference, onnxruntime, onnx.reference) run in a forked child: a C++
    crash is a RESULT - `checker-aborted` / `runtime-aborted` - never a dead check. If the child dies, every judge is
    run in a child of its own to name the one that aborts."""
    from harness import lib_isolate as ISO

    custom_keys = set(custom_keys)
    try:
        bad, unsupported = ISO.call(_judge_model_raw, m, want_ort, custom_keys)
        ORT_UNSUPPORTED.extend(unsupported)
        return [tuple(b) for b in bad]
    except ISO.Aborted:
        pass
    except ISO.Stalled:
        return []  # no verdict on a stalled judge (counted in lib_isolate.STATS)
    except ISO.RemoteError as e:  # the judging code itself failed: reported, not hidden
        return [("judge-error", str(e)[:300])]
    bad = []
    for kind, fn in (("full-checker", _j_checker), ("strict-inference", _j_strict)):
        try:
            bad += [tuple(b) for b in ISO.call(fn, m)]
        except ISO.Aborted as e:
            bad.append(("checker-aborted", f"{kind}: {e}"))
        except ISO.Stalled:
            pass
        except ISO.RemoteError as e:
            bad.append(("judge-error", str(e)[:300]))
    try:
        sb, uses_custom = _j_struct(m, custom_keys)
    except Exception as e:  # noqa: BLE001
        sb, uses_custom = [("judge-error", f"walker: {type(e).__name__}: {e}")], False
    bad += sb
    if want_ort and not uses_custom:
        try:
            ob, unsupported = ISO.call(_j_ort, m)
            ORT_UNSUPPORTED.extend(unsupported)
            bad += [tuple(b) for b in ob]
        except ISO.Aborted as e:
            bad.append(("runtime-aborted", f"onnxruntime session: {e}"))
        except ISO.Stalled:
            pass
        except ISO.RemoteError as e:
            bad.append(("judge-error", str(e)[:300]))
    return bad  # (judges that died together but not one by one: no verdict)


ORT_UNSUPPORTED: list = []


def _run_ort_raw(m, feeds):
    import onnxruntime as ort

    so = ort.SessionOptions()
    so.log_severity_level = 4
    s = ort.InferenceSession(m.SerializeToString(), so, providers=["CPUExecutionProvider"])
    names = [i.name for i in s.get_inputs()]
    outs = s.run(None, {n: feeds[n] for n in names})
    return {o.name: v for o, v in zip(s.get_outputs(), outs)}


def run_ort(m, feeds):
    """in a forked child; raises lib_isolate.Aborted when onnxruntime kills the process"""
    from harness import lib_isolate as ISO

    return ISO.call(_run_ort_raw, m, feeds)


def _run_reference_raw(m, feeds):
    from onnx.reference import ReferenceEvaluator

    s = ReferenceEvaluator(callee_first(m))
    names = [i.name for i in m.graph.input]
    outs = s.run(None, {n: feeds[n] for n in names})
    return {o.name: np.asarray(v) for o, v in zip(m.graph.output, outs)}


def run_reference(m, feeds):
    from harness import lib_isolate as ISO

    return ISO.call(_run_reference_raw, m, feeds)


def check_full(m):
    """onnx.checker.check_model(full_check=True) in a forked child (raises RemoteError / Aborted)"""
    import onnx
    from harness import lib_isolate as ISO

    return ISO.call(onnx.checker.check_model, m, full_check=True)


def harvest_names(m, nested_values_only=False):
    """All value and node names of a built model (to be re-used adversarially as user names).
    `nested_values_only`: only value names defined inside bodies (If_0_then_branch__Add_0_C, ...)."""
    names = []

    def walk(g, depth):
        keep = depth > 0 or not nested_values_only
        for nd in g["nodes"]:
            if nd["name"] and keep and not nested_values_only:
                names.append(nd["name"])
            if keep:
                names.extend(o for o in nd["outs"] if o)
            for s in nd["subs"]:
                walk(s, depth + 1)
        if keep:
            names.extend(g["inputs"])

    walk(proto_to_named(m.graph), 0)
    return list(dict.fromkeys(names))


# ----------------------------------------------------------------------------- generators
class Gen:
    """Seeded generator of specs. `feat` switches families of constructs on."""

    def __init__(self, rng, feat=None):
        self.rng = rng
        self.feat = {"if": True, "loop": True, "inline": True, "func": True, "mixed": True,
                     "init": True, "unused": True, "func_in_body": True, "nested_func": True,
                     "vary": False, "rmax": True, "collide": False, "custom": False, "generic": False, "func_if": False,
                     "ml": False}
        if feat:
            self.feat.update(feat)
        self.funcs: list[dict] = []
        self.models: list[dict] = []
        self.customs: list[dict] = []
        self.generics: list[dict] = []

    # -- helpers
    def ver(self, in_func=True):
        # "newer_only_in_funcs": outside function bodies everything is v17, so that the newest opset of the
        # model is required only by function bodies
        if self.feat.get("newer_only_in_funcs") and not in_func:
            return 17
        if self.feat["mixed"] and self.rng.random() < (0.6 if self.feat.get("newer_only_in_funcs") else 0.35):
            return self.rng.choice(OPSET_VERS)
        return 17

    def pick(self, types, t):
        cands = [i for i, x in enumerate(types) if x == t]
        return self.rng.choice(cands) if cands else None

    def gen_stmts(self, types, n, depth, in_func=False):
        """Append n statements; `types` is the list of env entry types (mutated)."""
        rng = self.rng
        stmts = []
        for _ in range(n):
            r = rng.random()
            has_f = "f" in types
            has_b = "b" in types
            if not has_f:
                stmts.append(["const", [rng.choice([-1.0, 0.5, 2.0]), rng.choice([1.0, -3.0])]])
                types.append("f")
                continue
            if self.feat["generic"] and r > 0.93 and not in_func:
                if not self.generics or rng.random() < 0.3:
                    self.generics.append({"name": f"gen{len(self.generics)}", "domain": "gen.dom",
                                          "kind": rng.choice(["addconst", "castself", "mulself"])})
                stmts.append(["callg", rng.randrange(len(self.generics)), self.pick(types, "f"),
                              rng.choice(["f32", "f64"])])
                types.append("f")
            elif self.feat["custom"] and r < 0.025 and depth < 3:
                if not self.customs or rng.random() < 0.5:
                    self.customs.append({"ident": rng.choice(["MyOp", "Inline_0__n0", "Inline_0__nw", "Abs",
                                                              "Loop_0_body__Inline_0__n0", "Introduce_0_id"]),
                                         # (never a domain used for functions: a user-defined operator and a
                                         #  function under one (domain, name) is the user's own collision)
                                         "domain": rng.choice(["custom.dom", "custom.b"])})
                stmts.append(["custom", rng.randrange(len(self.customs)), [self.pick(types, "f")]])
                types.append("f")
            elif r < 0.40:
                if rng.random() < 0.5:
                    names = UNARY if self.feat["rmax"] else [u for u in UNARY if u not in ("rmax", "split0")]
                    name = rng.choice(names)
                    if self.feat.get("newer_only_in_funcs") and not in_func and depth > 0 and rng.random() < 0.6:
                        name = "split0"  # a node whose un-adapted form still passes the basic checker, in a body
                    if name == "split0" and self.feat.get("newer_only_in_funcs"):
                        stmts.append(["op", name, 17, [self.pick(types, "f")]])
                        types.append("f")
                        continue
                    stmts.append(["op", name, self.ver(in_func), [self.pick(types, "f")]])
                else:
                    stmts.append(["op", rng.choice(BINARY), self.ver(in_func),
                                  [self.pick(types, "f"), self.pick(types, "f")]])
                types.append("f")
            elif r < 0.47:
                if has_b and rng.random() < 0.7:
                    if rng.random() < 0.5:
                        stmts.append(["op", "not", 17, [self.pick(types, "b")]])
                    else:
                        stmts.append(["op", rng.choice(BOOL2), 17, [self.pick(types, "b"), self.pick(types, "b")]])
                    types.append("b")
                else:
                    k = "init" if (self.feat["init"] and not in_func and rng.random() < 0.5) else "const"
                    stmts.append([k, [rng.choice([-1.0, 0.5, 2.0]), rng.choice([1.0, -3.0])]])
                    types.append("f")
            elif r < 0.62 and self.feat["if"] and has_b and depth < 3:
                nout = rng.choice([1, 1, 2])
                tb = self.gen_body(types, [], rng.randrange(0, 4), nout, depth + 1, in_func)
                eb = self.gen_body(types, [], rng.randrange(0, 4), nout, depth + 1, in_func)
                stmts.append(["if", self.pick(types, "b"), tb, eb, self.ver(in_func) if rng.random() < 0.3 else 17])
                types.extend(["f"] * nout)
            elif r < 0.72 and self.feat["loop"] and depth < 3:
                ns = rng.choice([1, 1, 2])
                # (the loop's condition argument has type bool[1]: tagged "c" so that it is not picked where a
                #  scalar bool is needed)
                body = self.gen_body(types, ["i", "c"] + ["f"] * ns, rng.randrange(1, 4), ns, depth + 1, in_func,
                                     prefer_extra=True)
                stmts.append(["loop", rng.randrange(0, 3), [self.pick(types, "f") for _ in range(ns)], body, 17])
                types.extend(["f"] * ns)
            elif r < 0.84 and self.feat["inline"] and not in_func:
                mi = self.gen_model()
                ms = self.models[mi]
                nin = len(ms["ins"]) if "ins" in ms else len(ms["spec"]["inputs"])
                nout = len(ms["outs"]) if "outs" in ms else len(ms["spec"]["outputs"])
                if "spec" in ms:
                    # argument types of the nested spec, in build-input order
                    want = [ms["spec"]["args"][ai] for _, ai in ms["spec"]["inputs"]]
                else:
                    want = ["f"] * nin + (["b"] if ms.get("cond") else [])
                refs = [self.pick(types, t) for t in want]
                if any(x is None for x in refs):
                    continue
                call = ["inline", mi, refs]
                if ms.get("defaults") and rng.random() < 0.7:
                    # override the default with a Var: mostly well-typed, sometimes ill-typed (must be refused)
                    how = rng.choice(["ok", "ok", "ok", "dtype", "rank", "dim"])
                    call.append({ms["defaults"][0][0]: [how, self.pick(types, "f")]})
                stmts.append(call)
                types.extend(["f"] * nout)
            elif self.feat["func"] and (depth == 0 or self.feat["func_in_body"]):
                fi = self.gen_func(depth_budget=rng.choice([0, 1, 1, 2]))
                fs = self.funcs[fi]
                call = ["call", fi, [self.pick(types, "f") for _ in range(fs["nin"])]]
                if self.feat["vary"] and rng.random() < 0.3:
                    call.append(rng.choice([1, 1, 2]))
                stmts.append(call)
                types.extend(["f"] * fs["nout"])
            else:
                stmts.append(["op", rng.choice(BINARY), self.ver(in_func),
                              [self.pick(types, "f"), self.pick(types, "f")]])
                types.append("f")
        return stmts

    def gen_body(self, outer_types, extra, n, nout, depth, in_func, prefer_extra=False):
        types = list(outer_types) + list(extra)
        base = len(types)
        stmts = self.gen_stmts(types, n, depth, in_func)
        fs = [i for i, t in enumerate(types) if t == "f"]
        own = [i for i in fs if i >= base - len(extra)]
        outs = []
        for _ in range(nout):
            pool = own if (own and self.rng.random() < 0.8) else fs
            outs.append(self.rng.choice(pool))
        return {"stmts": stmts, "outs": outs}

    def gen_func(self, depth_budget, force_new=False):
        rng = self.rng
        # re-use an existing function half of the time (repeated call sites)
        done = [i for i, f in enumerate(self.funcs) if f is not None]
        if done and not force_new and rng.random() < 0.5:
            return rng.choice(done)
        nin = rng.choice([1, 2])
        nout = rng.choice([1, 1, 2])
        idx = len(self.funcs)
        self.funcs.append(None)  # reserve the slot (nested functions get later indices)
        types = ["f"] * nin
        saved = dict(self.feat)
        self.feat.update({"inline": False, "init": False, "loop": False,
                          "func": self.feat["nested_func"] and depth_budget > 0,
                          "if": False})
        n = rng.randrange(1, 4)
        if len(self.funcs) > 5:  # construction cost is exponential in the nesting of functions
            self.feat["func"] = False
        stmts = []
        # nested functions may only call functions defined earlier or new ones (no recursion)
        for _ in range(n):
            if self.feat["func"] and rng.random() < 0.25:
                cands = [i for i, f in enumerate(self.funcs) if f is not None]
                if cands and rng.random() < 0.5:
                    fi = rng.choice(cands)
                else:
                    fi = self.gen_func_new(depth_budget - 1)
                fs = self.funcs[fi]
                stmts.append(["call", fi, [self.pick(types, "f") for _ in range(fs["nin"])]])
                types.extend(["f"] * fs["nout"])
            else:
                stmts.extend(self.gen_stmts(types, 1, 3, in_func=True))
        self.feat.clear()
        self.feat.update(saved)
        if saved.get("func_if") and rng.random() < 0.45:
            # control flow INSIDE the function body; the branches use things that occur nowhere else in the
            # body: an operator of another domain (ai.onnx.ml), a nested function called only there
            stmts.append(["op", "pos", 17, [self.pick(types, "f")]])
            types.append("b")
            cond = len(types) - 1

            def branch(special):
                btypes = list(types)
                bst = []
                src = self.pick(btypes, "f")
                if special == "ml":
                    bst.append(["op", "binarize", 17, [src]])
                    btypes.append("f")
                elif special == "call":
                    cands = [i for i, f in enumerate(self.funcs) if f is not None and f["nin"] == 1]
                    fi = rng.choice(cands) if cands and rng.random() < 0.4 else None
                    if fi is None:
                        keep = dict(self.feat)
                        self.feat.update({"func": False, "nested_func": False, "func_if": False})
                        fi = self.gen_func(0, force_new=True)  # a nested function called only in this branch
                        self.feat.clear()
                        self.feat.update(keep)
                    fs_ = self.funcs[fi]
                    bst.append(["call", fi, [src] * fs_["nin"]])
                    btypes.extend(["f"] * fs_["nout"])
                else:
                    bst.append(["op", rng.choice(["neg", "abs", "relu"]), self.ver() if saved.get("mixed") else 17, [src]])
                    btypes.append("f")
                if rng.random() < 0.5:
                    bst.append(["op", rng.choice(BINARY), 17, [len(btypes) - 1, self.pick(btypes, "f")]])
                    btypes.append("f")
                return {"stmts": bst, "outs": [len(btypes) - 1]}

            kinds = ["ml" if saved.get("ml") else "plain", "call", "plain"]
            tb, eb = branch(rng.choice(kinds)), branch(rng.choice(kinds))
            stmts.append(["if", cond, tb, eb, 17])
            types.append("f")
        fsidx = [i for i, t in enumerate(types) if t == "f"]
        outs = [rng.choice(fsidx[nin:] or fsidx) for _ in range(nout)]
        if stmts and stmts[-1][0] == "if":
            outs[0] = len(types) - 1  # the If is live
        self.funcs[idx] = {"name": f"fn{idx}", "domain": rng.choice(["spox.function", "dom.a", "dom.b"]),
                           "nin": nin, "nout": nout, "body": {"stmts": stmts, "outs": outs}}
        if self.feat.get("collide") and rng.random() < 0.2:
            # two different functions with the SAME NAME in DIFFERENT domains: both must be defined
            others = [f for i, f in enumerate(self.funcs) if f is not None and i != idx]
            if others:
                o = rng.choice(others)
                self.funcs[idx]["name"] = o["name"]
                doms = [d for d in ["spox.function", "dom.a", "dom.b", "dom.c"] if d != o["domain"]]
                self.funcs[idx]["domain"] = rng.choice(doms)
        elif self.feat.get("collide") and rng.random() < 0.2:
            # a second Python function registered under an existing (domain, name)
            others = [f for i, f in enumerate(self.funcs) if f is not None and i != idx
                      and f["nin"] == nin and f["nout"] == nout]
            if others:
                o = rng.choice(others)
                self.funcs[idx]["name"], self.funcs[idx]["domain"] = o["name"], o["domain"]
                if rng.random() < 0.6:  # "old and new revision of a helper": another declared version
                    self.funcs[idx]["version"] = rng.choice([1, 2, 3])
                    if rng.random() < 0.3:
                        o["version"] = rng.choice([1, 2])
                if rng.random() < 0.5:  # ... with the very same body: a legitimate merge
                    self.funcs[idx]["body"] = copy.deepcopy(o["body"])
        return idx

    def gen_func_new(self, depth_budget):
        return self.gen_func(depth_budget, force_new=True)

    def gen_model(self):
        rng = self.rng
        if self.models and rng.random() < 0.3:
            return rng.randrange(len(self.models))  # the same model inlined again
        if self.feat.get("inline_spox_built", True) and rng.random() < 0.15:
            # a model built by spox itself (its internals are named Add_0_C, Introduce_0_outputs_0, ...)
            sub = Gen(rng, {"inline": False, "func": False, "if": rng.random() < 0.5, "loop": False, "init": False,
                            "unused": False, "custom": False, "mixed": self.feat["mixed"], "rmax": False})
            sspec = sub.gen_spec(size=rng.randrange(1, 4))
            sspec["drop"] = False
            self.models.append({"spec": sspec})
            return len(self.models) - 1
        nin = rng.choice([1, 2])
        n = rng.randrange(1, 5)
        vals = [f"v{i}" for i in range(nin)]
        nodes = []
        for j in range(n):
            if rng.random() < 0.5:
                opn, ins = rng.choice(["Neg", "Abs", "Relu", "Identity"]), [rng.choice(vals)]
            else:
                opn, ins = rng.choice(["Add", "Sub", "Mul"]), [rng.choice(vals), rng.choice(vals)]
            out = f"v{len(vals)}"
            nodes.append([opn, f"n{j}" if rng.random() < 0.8 else "", ins, [out]])
            vals.append(out)
        cond = None
        if self.feat.get("inline_if", True) and rng.random() < 0.3:
            # an If inside the inlined model; its bodies read names of the enclosing (inlined) graph
            cond = "cnd"
            a, b = rng.choice(vals), rng.choice(vals)
            # (node names stay unique within the inlined model: it has to be a valid model)
            tn = [[rng.choice(["Neg", "Abs"]), rng.choice(["t0", ""]), [a], ["tv"]]]
            en = [[rng.choice(["Relu", "Identity"]), rng.choice(["e0", ""]), [b], ["ev0"]],
                  ["Add", "e1", ["ev0", a], ["ev"]]]
            tout, eout = "tv", "ev"
            if self.feat.get("inline_sibling_names") and rng.random() < 0.5:
                # valid ONNX: the two branches are separate scopes, so they may use the same names
                for nd_ in en:
                    nd_[3] = ["tv" if o == "ev" else o for o in nd_[3]]
                eout = "tv"
                if tn[0][1]:
                    en[-1][1] = tn[0][1]
            out = f"v{len(vals)}"
            nodes.append(["If", rng.choice(["if0", ""]), [cond], [out], [tn, tout, en, eout]])
            vals.append(out)
        nout = rng.choice([1, 1, 2])
        outs = rng.sample(vals[nin:], min(nout, len(vals) - nin))
        if cond and vals[-1] not in outs:
            outs[0] = vals[-1]
        inits, defaults = [], []
        if rng.random() < 0.3:
            vals.append("w")
            inits.append(["w", [1.5, -0.5]])
            nodes.append(["Add", "nw", [outs[0], "w"], ["vw"]])
            outs[0] = "vw"
        if self.feat.get("inline_defaults", True) and rng.random() < 0.35:
            # an overridable default: a graph input that also has an initializer
            defaults.append(["dflt", [0.5, 2.0]])
            nodes.append(["Add", "nd", [outs[0], "dflt"], ["vd"]])
            outs[0] = "vd"
        ms = {"ins": vals[:nin], "outs": outs, "nodes": nodes, "inits": inits,
              "opset": rng.choice([17, 17, 18, 19, 21]) if self.feat["mixed"] else 17}
        if defaults:
            ms["defaults"] = defaults
        if cond:
            ms["cond"] = cond
        self.models.append(ms)
        return len(self.models) - 1

    def gen_spec(self, size=None):
        rng = self.rng
        nf = rng.choice([1, 2, 3])
        nb = rng.choice([0, 1, 1, 2])
        args = ["f"] * nf + ["b"] * nb
        rng.shuffle(args)
        types = list(args)
        n = size if size is not None else rng.randrange(2, 9)
        stmts = self.gen_stmts(types, n, 0)
        forced = []
        if self.feat.get("newer_only_in_funcs") and self.feat["func"]:
            # the model's newest opset is required only inside a function body that is called at top level,
            # while a body graph holds a v17 node whose un-adapted form still passes the basic checker
            fidx = len(self.funcs)
            self.funcs.append({"name": f"fn{fidx}", "domain": rng.choice(["spox.function", "dom.a"]), "nin": 1,
                               "nout": 1, "body": {"stmts": [["op", rng.choice(["identity", "neg", "abs"]),
                                                              rng.choice([18, 19, 20, 21]), [0]]], "outs": [1]}})
            stmts.append(["call", fidx, [self.pick(types, "f")]])
            types.append("f")
            forced.append(len(types) - 1)
            src = self.pick(types, "f")
            if "b" in types and rng.random() < 0.6:
                stmts.append(["if", self.pick(types, "b"),
                              {"stmts": [["op", "split0", 17, [src]]], "outs": [len(types)]},
                              {"stmts": [], "outs": [src]}, 17])
            else:
                base = len(types)
                stmts.append(["loop", rng.randrange(1, 3), [src],
                              {"stmts": [["op", "split0", 17, [base + 2]]], "outs": [base + 3]}, 17])
            types.append("f")
            forced.append(len(types) - 1)
        fs = [i for i, t in enumerate(types) if t == "f" and i >= len(args)]
        if not fs:
            stmts.append(["op", "neg", 17, [self.pick(types, "f")]])
            types.append("f")
            fs = [len(types) - 1]
        nout = rng.choice([1, 1, 2, 3])
        outs = [rng.choice(fs[-3:]) if rng.random() < 0.6 else rng.choice(fs) for _ in range(nout)]
        outs = list(dict.fromkeys(outs + forced))
        spec = {
            "args": args,
            "inputs": [[f"x{i}", i] for i in range(len(args))],
            "stmts": stmts,
            "outputs": [[f"y{j}", r] for j, r in enumerate(outs)],
            "drop": rng.random() < 0.5,
            "funcs": self.funcs,
            "models": self.models,
            "customs": self.customs,
            "generics": self.generics,
        }
        if not self.feat["unused"]:
            spec["drop"] = False
        return spec


def spec_stats(spec):
    st = {"if": 0, "loop": 0, "inline": 0, "call": 0, "depth": 0, "nodes": 0, "vers": set()}

    def walk(stmts, d):
        st["depth"] = max(st["depth"], d)
        for s in stmts:
            st["nodes"] += 1
            if s[0] == "op":
                st["vers"].add(s[2])
            if s[0] == "if":
                st["if"] += 1
                walk(s[2]["stmts"], d + 1)
                walk(s[3]["stmts"], d + 1)
            elif s[0] == "loop":
                st["loop"] += 1
                walk(s[3]["stmts"], d + 1)
            elif s[0] == "inline":
                st["inline"] += 1
            elif s[0] == "call":
                st["call"] += 1
            elif s[0] == "custom":
                st["custom"] = st.get("custom", 0) + 1
            elif s[0] == "callg":
                st["callg"] = st.get("callg", 0) + 1

    walk(spec["stmts"], 0)
    for f in spec["funcs"]:
        walk(f["body"]["stmts"], 1)
    st["vers"] = sorted(st["vers"])
    return st


def rename_adversarial(spec, rng, harvested, nested=()):
    """Replace user-chosen names (build inputs/outputs, inlined-model internals, function names) by
    names harvested from a previous build of the same program / lookalikes of generated names."""
    spec = copy.deepcopy(spec)
    pool = list(harvested) + ["Add_0_C", "Inline_0__x", "x_0", "Neg_0_Y", "Introduce_0_outputs_0",
                              "Introduce_0", "If_0_then_branch__Add_0_C", "Constant_0_output", "Inline_0__v2",
                              "Inline_0__n0", "Initializer_0_arg", "Argument_0_arg", "Add_0", "x0", "y0", "_v_4"]
    p = rng.random()
    used = set()

    def fresh_pick():
        for _ in range(20):
            n = rng.choice(pool)
            if n and n not in used:
                used.add(n)
                return n
        return None

    if p < 0.75:
        for io in spec["inputs"]:
            if rng.random() < 0.4:
                n = fresh_pick()
                if n:
                    io[0] = n
        for io in spec["outputs"]:
            if rng.random() < 0.5:
                n = fresh_pick()
                if n:
                    io[0] = n
        if nested and rng.random() < 0.5:
            # a value name from inside a body of the first build as a main-graph OUTPUT (or input) name
            n = rng.choice(list(nested))
            if rng.random() < 0.8 or not spec["inputs"]:
                rng.choice(spec["outputs"])[0] = n
            else:
                rng.choice(spec["inputs"])[0] = n
        # keep build's dict keys distinct (a Python dict cannot hold duplicates anyway)
        seen = set()
        for io in spec["inputs"] + spec["outputs"]:
            while io[0] in seen:
                io[0] = io[0] + "_"
            seen.add(io[0])
    if rng.random() < 0.25:
        # user-chosen function names that look like generated node names; inlined node names to match
        for f in spec["funcs"]:
            if f and rng.random() < 0.5:
                # (not the name of a standard operator: onnxruntime 1.30 aborts the process on a function
                #  called dom:Add with one input - a runtime bug, not a property of the model)
                f["name"] = rng.choice(["Inline_0__n0", "Inline_1__n1", "Inline_0__nw", "Introduce_0_id",
                                        "If_0_then_branch__Inline_0__n0", "Loop_0_body__Inline_0__n0"])
        for ms in spec["models"]:
            if "nodes" in ms:
                flat = []

                def _flat(nodes):
                    for nd in nodes:
                        flat.append(nd)
                        if nd[0] == "If":
                            _flat(nd[4][0])
                            _flat(nd[4][2])

                _flat(ms["nodes"])
                for nd in flat:
                    if nd[1] and rng.random() < 0.5 and not any(x[1] == nd[1] + "_0" for x in flat):
                        nd[1] = nd[1] + "_0"
    if p > 0.35:
        for ms in spec["models"]:
            if "nodes" not in ms:
                continue
            ren = {}
            def _all_nodes(nodes):
                for nd in nodes:
                    yield nd
                    if nd[0] == "If":
                        yield from _all_nodes(nd[4][0])
                        yield from _all_nodes(nd[4][2])

            allnodes = list(_all_nodes(ms["nodes"]))
            vals = list(dict.fromkeys(ms["ins"] + [o for nd in allnodes for o in nd[3]] + [n for n, _ in ms["inits"]]
                                      + ([ms["cond"]] if ms.get("cond") else [])))
            loc_used = set()
            for v in vals:
                if rng.random() < 0.5:
                    n = rng.choice(pool)
                    if n and n not in loc_used and n not in vals:
                        ren[v] = n
                        loc_used.add(n)
            ms["ins"] = [ren.get(v, v) for v in ms["ins"]]
            ms["outs"] = [ren.get(v, v) for v in ms["outs"]]
            ms["inits"] = [[ren.get(n, n), vals_] for n, vals_ in ms["inits"]]
            nn_used = set()
            if ms.get("cond"):
                ms["cond"] = ren.get(ms["cond"], ms["cond"])
            for nd in allnodes:
                nd[2] = [ren.get(v, v) for v in nd[2]]
                nd[3] = [ren.get(v, v) for v in nd[3]]
                if nd[0] == "If":
                    nd[4][1] = ren.get(nd[4][1], nd[4][1])
                    nd[4][3] = ren.get(nd[4][3], nd[4][3])
                if nd[1] and rng.random() < 0.5:
                    n = rng.choice(pool)
                    if n not in nn_used and all(n != x[1] for x in allnodes):
                        nd[1] = n
                        nn_used.add(n)
    return spec


# ----------------------------------------------------------------------------- shrinking
def _stmt_lists(spec):
    """Every statement list of the spec (top level, bodies, function bodies), as mutable lists."""
    out = []

    def walk(stmts):
        out.append(stmts)
        for st in stmts:
            if st[0] == "if":
                walk(st[2]["stmts"])
                walk(st[3]["stmts"])
            elif st[0] == "loop":
                walk(st[3]["stmts"])

    walk(spec["stmts"])
    for f in spec["funcs"]:
        if f:
            walk(f["body"]["stmts"])
    return out


def shrink(spec, still_fails, budget=150):
    """Greedy, index-preserving shrink: drop outputs; replace a statement by as many constants as it has
    results (so no reference moves); simplify versions. `still_fails(spec) -> bool`."""
    best = copy.deepcopy(spec)
    tries = 0

    def attempt(cand):
        nonlocal best, tries
        tries += 1
        try:
            if still_fails(cand):
                best = cand
                return True
        except Exception:  # noqa: BLE001
            pass
        return False

    changed = True
    while changed and tries < budget:
        changed = False
        for i in range(len(best["outputs"]) - 1, -1, -1):
            if len(best["outputs"]) > 1 and tries < budget:
                cand = copy.deepcopy(best)
                del cand["outputs"][i]
                changed |= attempt(cand)
        shape = [len(x) for x in _stmt_lists(best)]
        for li in range(len(shape)):
            for si in range(shape[li] - 1, -1, -1):
                if tries >= budget:
                    break
                cand = copy.deepcopy(best)
                cls = _stmt_lists(cand)
                if li >= len(cls) or si >= len(cls[li]):
                    continue
                cl = cls[li]
                st = cl[si]
                if st[0] in ("const",) or (st[0] == "op" and st[1] in BOOL1 + BOOL2 + ["pos"]):
                    continue  # (bool-valued statements stay: constants are float32 and would break typing)
                n = _nres(cand, st)
                cl[si:si + 1] = [["const", [1.0, 2.0]] for _ in range(n)]
                # positions are preserved only if the statement had exactly n results -> n statements
                if n == 1 or st[0] != "op":
                    changed |= attempt(cand)
        if best.get("drop") and tries < budget:
            cand = copy.deepcopy(best)
            cand["drop"] = False
            changed |= attempt(cand)
    return best


# ----------------------------------------------------------------------------- crash-proof parallel map
def robust_map(fn, tasks, nproc, workdir, stall_timeout=180):
    """Like Pool.map for JSON-able results, but a worker that dies (a C++ abort inside onnx/onnxruntime)
    or stalls only costs the case it was working on: that case gets {"crash": ...} and the rest of its
    slice is re-run in a fresh process. Deterministic: results are indexed by task position."""
    import json as _json
    import multiprocessing as _mp
    import os
    import shutil
    import time

    ctx = _mp.get_context("fork")
    workdir = os.path.join(str(workdir), f"pool-{os.getpid()}")
    shutil.rmtree(workdir, ignore_errors=True)
    os.makedirs(workdir, exist_ok=True)
    results = [None] * len(tasks)

    def child(indices, path):
        with open(path, "a") as fh:
            for i in indices:
                fh.write(_json.dumps({"start": i}) + "\n")
                fh.flush()
                try:
                    r = fn(tasks[i])
                except BaseException as e:  # noqa: BLE001
                    r = {"crash": f"{type(e).__name__}: {e}", "status": "crash", "spec": None}
                fh.write(_json.dumps({"i": i, "r": r}, default=str) + "\n")
                fh.flush()
        os._exit(0)

    slices = [list(range(k, len(tasks), nproc)) for k in range(nproc)]
    gen = 0
    while any(slices):
        procs = []
        for k, idxs in enumerate(slices):
            if not idxs:
                continue
            path = os.path.join(workdir, f"g{gen}-s{k}.jsonl")
            p = ctx.Process(target=child, args=(idxs, path))
            p.start()
            procs.append((k, p, path))
        # wait, killing stalled workers
        last_size = {k: (-1, time.time()) for k, _, _ in procs}
        alive = True
        while alive:
            alive = False
            for k, p, path in procs:
                if p.is_alive():
                    alive = True
                    sz = os.path.getsize(path) if os.path.exists(path) else 0
                    if sz != last_size[k][0]:
                        last_size[k] = (sz, time.time())
                    elif time.time() - last_size[k][1] > stall_timeout:
                        p.kill()
            if alive:
                time.sleep(0.05)
        new_slices = [[] for _ in slices]
        for k, p, path in procs:
            done, started = set(), None
            if os.path.exists(path):
                for ln in open(path):
                    try:
                        d = _json.loads(ln)
                    except ValueError:
                        continue
                    if "start" in d:
                        started = d["start"]
                    else:
                        results[d["i"]] = d["r"]
                        done.add(d["i"])
            rest = [i for i in slices[k] if i not in done]
            if rest:
                culprit = started if started in rest else rest[0]
                results[culprit] = {"crash": f"worker process died or stalled (exit code {p.exitcode}) on this case",
                                    "status": "crash", "spec": None, "died": True, "task": list(tasks[culprit])}
                new_slices[k] = [i for i in rest if i != culprit]
        slices = new_slices
        gen += 1
    shutil.rmtree(workdir, ignore_errors=True)
    return results
