"""C17 — overloaded Python operators on Var follow numpy semantics.

tie G : translator/result_type.py tabulates np.result_type, numpy's own result dtypes, dtype classes and
        the ONNX operator type constraints -> Generated/ResultType.lean (decide-theorems re-proved each run)
proof  : Props/C17.lean
tie H  : every operator x operand kinds (Var of 12 dtypes, Python int/float/bool, numpy scalars, junk) on
         either side x {outside a block, 4 promotion settings}: emitted operator tree + result dtype /
         error class of the real dispatcher vs the model (driver), exactly; and the model's integer
         semantics of the emitted tree (`eval`) vs onnxruntime on the operand grids
oracle : build + onnxruntime (onnx.reference as fallback) and propagated values vs numpy on the grids
         {-7,-2,-1,0,1,2,7,min,max} x dtypes x broadcasting shapes, Python scalars on either side;
         TypeError / unchanged dtype / nothing converted with promotion off; TypeError outside a block.
"""
from __future__ import annotations

import operator
import warnings
from fractions import Fraction

from harness import core

import os
import pickle
import signal


def forked(fn, arg):
    """Run fn(arg) in a forked child (the runtimes are only ever used in children): a runtime that dies
    on a model (SIGFPE on an integer division, say) must not take the check down with it."""
    r, w = os.pipe()
    pid = os.fork()
    if pid == 0:
        try:
            os.close(r)
            try:
                out = pickle.dumps(("ok", fn(arg)))
            except BaseException as e:  # noqa: BLE001
                out = pickle.dumps(("exc", f"{type(e).__name__}: {e}"))
            with os.fdopen(w, "wb") as f:
                f.write(out)
        finally:
            os._exit(0)
    os.close(w)
    with os.fdopen(r, "rb") as f:
        data = f.read()
    _, status = os.waitpid(pid, 0)
    if os.WIFSIGNALED(status):
        return ("crash", signal.Signals(os.WTERMSIG(status)).name)
    if not data:
        return ("crash", "no-answer")
    return pickle.loads(data)


def forked_batch(fn, items, size=64):
    """[fn(x) for x in items] in forked children, `size` items per child; a batch whose child dies is
    re-run item by item so that the culprit is identified. Results: ('ok', value) | ('crash', sig) | ('exc', msg)."""
    out = []
    for i in range(0, len(items), size):
        chunk = items[i:i + size]
        res = forked(lambda xs: [fn(x) for x in xs], chunk)
        if res[0] == "ok":
            out.extend(("ok", v) for v in res[1])
        else:
            out.extend(forked(fn, x) for x in chunk)
    return out


BIN = ["add", "sub", "mul", "truediv", "floordiv"]
LOGIC = ["and_", "or_", "xor"]
UNARY = ["neg", "not_"]
PYOP = {"add": operator.add, "sub": operator.sub, "mul": operator.mul, "truediv": operator.truediv,
        "floordiv": operator.floordiv, "and_": operator.and_, "or_": operator.or_, "xor": operator.xor,
        "neg": operator.neg, "not_": operator.invert}
SYM = {"add": "+", "sub": "-", "mul": "*", "truediv": "/", "floordiv": "//", "and_": "&", "or_": "|",
       "xor": "^", "neg": "-", "not_": "~"}
SETTINGS = [None, [True, True], [True, False], [False, True], [False, False]]


class Env:
    def __init__(self, table):
        import numpy as np
        import onnxruntime as ort
        import spox
        import spox._future as fut
        import spox.opset.ai.onnx.v17 as op
        from spox import Var  # public

        ort.set_default_logger_severity(4)
        self.np, self.ort, self.spox, self.fut, self.op, self.Var = np, ort, spox, fut, op, Var
        self.tree_fallbacks = 0
        self.dtypes = table["dtypes"]
        self.so = ort.SessionOptions()
        self.so.intra_op_num_threads = 1
        self.so.inter_op_num_threads = 1
        self.so.graph_optimization_level = ort.GraphOptimizationLevel.ORT_DISABLE_ALL

    def code(self, dt):
        name = self.np.dtype(dt).name
        return self.dtypes.index(name) if name in self.dtypes else -1

    # ---- operand description -> Python object
    def realise(self, o, shape=()):
        np = self.np
        k = o[0]
        if k == "var":
            if len(o) > 2:
                shape = None if o[2] is None else tuple(o[2])  # None = unknown rank
            return self.spox.argument(self.spox.Tensor(np.dtype(self.dtypes[o[1]]), shape))
        if k == "int":
            return o[1]
        if k == "float":
            return o[1] if len(o) > 1 else 2.5
        if k == "bool":
            return o[1]
        if k == "np":
            v = o[2] if len(o) > 2 else 3
            return np.dtype(self.dtypes[o[1]]).type(v if o[1] != 11 else bool(v))
        from fractions import Fraction as _Fr

        return {"none": None, "str": "abc", "ellipsis": ..., "list": [1, 2], "bytes": b"3", "numstr": "3", "dtypestr": "f4",
                "arr0": np.array(2), "arr1": np.array([1, 2]), "complex": 1j, "fraction": _Fr(1, 2), "dict": {"a": 1},
                "set": {1}, "gen": (i for i in range(2)), "varlist": [self.spox.argument(self.spox.Tensor(np.int64, ()))],
                "type": int}[o[1] if len(o) > 1 else "none"]

    def err_name(self, e):
        return type(e).__name__

    def dispatcher(self):
        """The installed dispatcher object (an internal: Var._operator_dispatcher)."""
        return getattr(self.Var, "_operator_dispatcher")

    def restore_dispatcher(self, saved):
        if saved is not None:
            try:
                self.Var._operator_dispatcher = saved
            except Exception:  # noqa: BLE001
                pass

    def const_label(self, val, args):
        np = self.np
        dt = self.code(val.dtype)
        for i, o in enumerate(args):
            if isinstance(o, self.Var) or o is None or isinstance(o, (str, type(...))):
                continue
            try:
                with warnings.catch_warnings():
                    warnings.simplefilter("ignore")
                    want = np.array(o, dtype=val.dtype)
                if want.shape == val.shape and want.tobytes() == val.tobytes():
                    return f"Constant[{dt}:#{i}]"
            except Exception:  # noqa: BLE001
                pass
        return f"Constant[{dt}:{val.tolist()}]"

    def tree(self, v, args, operands=None):
        """Canonical rendering of the expression that produced Var `v` over the operands: read from the
        Var/Node objects (fast); if those internals are not where they used to be, from the built ModelProto."""
        try:
            return self._tree_internal(v, args)
        except Exception:  # noqa: BLE001
            self.tree_fallbacks += 1
            return self.tree_from_model(v, args)

    def _tree_internal(self, v, args):
        for i, a in enumerate(args):
            if v is a:
                return f"arg{i}"
        if not isinstance(v, self.Var):
            return f"<{type(v).__name__}>"
        node = v._op
        name = node.op_type.identifier
        ins = [x for x in node.inputs.get_vars().values()]
        if name == "Cast":
            return f"Cast[{self.code(node.attrs.to.value)}]({self._tree_internal(ins[0], args)})"
        if name == "Constant":
            return self.const_label(node.attrs.value.value, args)
        return f"{name}({','.join(self._tree_internal(x, args) for x in ins)})"

    def tree_from_model(self, v, args):
        """Public API only: build the model and render the expression of its output from the GraphProto."""
        import onnx
        from onnx import numpy_helper

        feeds = {f"arg{i}": a for i, a in enumerate(args) if isinstance(a, self.Var)}
        with warnings.catch_warnings():
            warnings.simplefilter("ignore")
            model = self.spox.build(feeds, {"r": v})
        prod = {}
        for nd in model.graph.node:
            for o in nd.output:
                prod[o] = nd

        def render(name):
            if name in feeds:
                return name
            nd = prod[name]
            if nd.op_type == "Cast":
                to = next(a.i for a in nd.attribute if a.name == "to")
                return f"Cast[{self.code(onnx.helper.tensor_dtype_to_np_dtype(to))}]({render(nd.input[0])})"
            if nd.op_type == "Constant":
                val = numpy_helper.to_array(next(a.t for a in nd.attribute if a.name == "value"))
                return self.const_label(val, args)
            return f"{nd.op_type}({','.join(render(i) for i in nd.input)})"

        top = prod.get("r")
        if top is not None and top.op_type == "Identity":  # build introduces its results through an Identity
            return render(top.input[0])
        return render("r")

    def dispatch(self, settings, opname, oa, ob, via_operator=True):
        """Run the real thing. Returns ({'err':…} | {'tree':…, 'dtype':…}, result Var or None, (a, b))."""
        a = self.realise(oa)
        b = self.realise(ob) if opname not in UNARY else None
        args = [a, b]

        def call():
            if via_operator:
                return PYOP[opname](a) if opname in UNARY else PYOP[opname](a, b)
            d = self.dispatcher()
            return getattr(d, opname)(a) if opname in UNARY else getattr(d, opname)(a, b)

        try:
            with warnings.catch_warnings():
                warnings.simplefilter("ignore")
                if settings is None:
                    r = call()
                else:
                    with self.fut.operator_overloading(self.op, type_promotion=settings[0],
                                                       constant_promotion=settings[1]):
                        r = call()
        except Exception as e:  # noqa: BLE001
            return {"err": self.err_name(e)}, None, args
        if not isinstance(r, self.Var):
            return {"err": f"returned:{type(r).__name__}"}, None, args
        try:
            return {"tree": self.tree(r, args, [oa, ob]), "dtype": self.code(r.type.dtype)}, r, args
        except Exception as e:  # noqa: BLE001
            return {"unobservable": f"{type(e).__name__}: {e}"}, r, args

    # ---- run a built expression on concrete inputs
    def run_model(self, r, feeds_vars, feeds):
        """onnxruntime (no graph optimisation); onnx.reference when ORT has no kernel. -> (array, engine)"""
        import onnx.reference

        with warnings.catch_warnings():
            warnings.simplefilter("ignore")
            model = self.spox.build(feeds_vars, {"r": r})
        try:
            sess = self.ort.InferenceSession(model.SerializeToString(), self.so, providers=["CPUExecutionProvider"])
            return sess.run(None, feeds)[0], "onnxruntime"
        except Exception as e:  # noqa: BLE001
            msg = str(e)
            if "NOT_IMPLEMENTED" not in msg and "not implemented" not in msg.lower():
                raise
        return onnx.reference.ReferenceEvaluator(model).run(None, feeds)[0], "onnx.reference"


def grid(np, dtname, divisor=False, no_min=False):
    dt = np.dtype(dtname)
    if dt.kind in "iu":
        info = np.iinfo(dt)
        vals = [v for v in [-7, -2, -1, 0, 1, 2, 7, info.min, info.max] if info.min <= v <= info.max]
        if no_min and info.min < 0:
            vals = [v for v in vals if v != info.min]
    elif dt.kind == "b":
        vals = [False, True]
    else:
        info = np.finfo(dt)
        vals = [-7, -2, -1, 0, 1, 2, 7, float(info.min), float(info.max), 0.5, -2.5]
        if divisor:
            vals = [v for v in vals if v != 0]
        # signed zeros, infinities, nan, subnormals: kept apart from `set` (0.0 == -0.0)
        special = [float("inf"), float("-inf"), float("nan"), float(info.smallest_subnormal), -float(info.smallest_subnormal)]
        if not divisor:
            special += [-0.0]
        return np.array(sorted(set(vals)) + special, dtype=dt)
    if divisor:
        vals = [v for v in vals if v != 0]
    return np.array(sorted(set(vals)), dtype=dt)


EXACT_OPS = ("add", "sub", "mul", "truediv", "neg")


def agree(np, got, want, exact=False):
    """Elementwise agreement: exact for integers/bools. For floats: `exact` (the IEEE basic operations
    + - * / and negation, on which numpy and a correct ONNX graph agree bit for bit, nan <-> nan) or a
    tight relative tolerance (floor division, whose emitted algorithm legitimately differs from numpy's)."""
    if want.dtype.kind == "f" and exact:
        return (np.isnan(want) & np.isnan(got)) | ((got == want) & (np.signbit(got) == np.signbit(want)))
    if want.dtype.kind == "f":
        rtol = {2: 2e-3, 4: 2e-6, 8: 1e-12}[want.dtype.itemsize]
        with np.errstate(all="ignore"):
            close = np.isclose(got, want, rtol=rtol, atol=0, equal_nan=True) | (got == want)
            # where numpy's result is +-0.0, +-inf or nan the comparison is exact, sign included
            special = (want == 0) | ~np.isfinite(want)
            exact = (np.isnan(want) & np.isnan(got)) | ((got == want) & (np.signbit(got) == np.signbit(want)))
            return np.where(special, exact, close)
    return got == want


def classify_floordiv_float(np, x, y, got, want, dt):
    """Is this the listed finding: the IEEE-rounded quotient x/y is an integer although the exact
    quotient lies strictly below it, so Floor(Div) is one above numpy's fmod-based floor_divide?"""
    try:
        fx, fy = Fraction(float(x)), Fraction(float(y))
        exact = fx / fy
        with np.errstate(all="ignore"):
            q = np.dtype(dt).type(x) / np.dtype(dt).type(y)
        qf = Fraction(float(q))
        if qf.denominator == 1 and float(got) == float(q) and float(want) == float(q) - 1 and (
                (exact < qf and qf - exact < 1) if True else False):
            return True
    except Exception:  # noqa: BLE001
        pass
    return False


def classify_floordiv_nonfinite(np, x, y, dt):
    """The other listed face of Floor(Div) vs numpy's fmod-based floor_divide: an operand is not finite, or
    the IEEE quotient x/y has lost the information (underflow to +-0 of a non-zero dividend, overflow)."""
    try:
        t = np.dtype(dt).type
        with np.errstate(all="ignore"):
            fx, fy = t(x), t(y)
            q = fx / fy
        return bool(not np.isfinite(fx) or not np.isfinite(fy) or not np.isfinite(q) or (q == 0 and fx != 0))
    except Exception:  # noqa: BLE001
        return False


def numpy_expect(np, opname, a, b):
    with warnings.catch_warnings(), np.errstate(all="ignore"):
        warnings.simplefilter("ignore")
        try:
            return ("ok", PYOP[opname](a) if opname in UNARY else PYOP[opname](a, b))
        except Exception as e:  # noqa: BLE001
            return ("err", type(e).__name__)


def value_case(env: Env, opname, oa, ob, settings=(True, True), const_path=False):
    """The oracle on one operator/operand-kind pair over the whole value grid.
    Returns a list of (key, what, extra) failures; [] if numpy and spox agree everywhere."""
    np = env.np
    out = []
    div = opname in ("truediv", "floordiv")
    is_var = [oa[0] == "var", ob is not None and ob[0] == "var"]

    def dtn(o):
        return env.dtypes[o[1]]

    # numpy-side operands (arrays for Vars, the scalar itself otherwise), broadcasting shapes (N,1) x (M,)
    va = grid(np, dtn(oa)).reshape(-1, 1) if is_var[0] else env.realise(oa)
    if opname in UNARY:
        vb = None
    else:
        vb = grid(np, dtn(ob), divisor=div) if is_var[1] else env.realise(ob)
        if div and not is_var[1] and vb == 0:
            return out
    runs = [(va, vb)]
    if opname == "floordiv" and is_var[0] and is_var[1]:
        # INT_MIN // -1 is excluded: run once without -1 among the divisors, once with -1 but without INT_MIN
        if np.dtype(dtn(ob)).kind == "i" and np.dtype(dtn(oa)).kind == "i":
            runs = [(va, vb[vb != -1]), (grid(np, dtn(oa), no_min=True).reshape(-1, 1), vb[vb == -1])]
    elif opname == "floordiv" and is_var[0] and not is_var[1] and vb == -1 and np.dtype(dtn(oa)).kind == "i":
        runs = [(grid(np, dtn(oa), no_min=True).reshape(-1, 1), vb)]
    for xa, xb in runs:
        kind, want = numpy_expect(np, opname, xa, xb)
        # spox side
        if const_path:
            a = env.op.const(xa) if is_var[0] else xa
            b = (env.op.const(xb) if is_var[1] else xb) if opname not in UNARY else None
        else:
            a = env.spox.argument(env.spox.Tensor(xa.dtype, ("N", 1))) if is_var[0] else xa
            b = (env.spox.argument(env.spox.Tensor(xb.dtype, ("M",))) if is_var[1] else xb) if opname not in UNARY else None
        try:
            with warnings.catch_warnings():
                warnings.simplefilter("ignore")
                with env.fut.operator_overloading(env.op, type_promotion=settings[0], constant_promotion=settings[1]):
                    r = PYOP[opname](a) if opname in UNARY else PYOP[opname](a, b)
            if not isinstance(r, env.Var):
                raise TypeError(f"operator returned {type(r).__name__}")
        except Exception as e:  # noqa: BLE001
            if kind == "ok":
                sign = "unsigned" if is_var[0] and np.dtype(dtn(oa)).kind == "u" else "other"
                key = f"{opname}:{sign}:refused" if opname == "neg" else f"{opname}:refused:{env.err_name(e)}"
                out.append((key, f"{describe(env, opname, oa, ob)} raises {env.err_name(e)}; numpy computes a "
                                 f"{want.dtype} result", None))
            continue
        if kind == "err":
            out.append((f"{opname}:accepted-where-numpy-raises:{want}",
                        f"{describe(env, opname, oa, ob)}: numpy raises {want}, spox builds {r.type}", None))
            continue
        want = np.asarray(want)
        if const_path:
            got, engine = r._get_value(), "propagated value"
        else:
            feeds_vars, feeds = {}, {}
            if is_var[0]:
                feeds_vars["a"], feeds["a"] = a, xa
            if is_var[1]:
                feeds_vars["b"], feeds["b"] = b, xb
            got, engine = env.run_model(r, feeds_vars, feeds)
        got = np.asarray(got)
        if got.dtype != want.dtype:
            out.append((f"{opname}:result-dtype", f"{describe(env, opname, oa, ob)}: spox gives {got.dtype}, numpy {want.dtype} ({engine})", None))
            continue
        if got.shape != want.shape:
            out.append((f"{opname}:result-shape", f"{describe(env, opname, oa, ob)}: shape {got.shape} vs numpy {want.shape}", None))
            continue
        ok = agree(np, got, want, exact=opname in EXACT_OPS)
        if not ok.all():
            idx = tuple(np.argwhere(~ok)[0])
            x = np.broadcast_to(xa, got.shape)[idx]
            y = None if xb is None else np.broadcast_to(xb, got.shape)[idx]
            tkind = "float" if want.dtype.kind == "f" else "int"
            key = f"{opname}:{tkind}:wrong-value"
            if opname == "floordiv" and tkind == "float":
                # both faces of Floor(Div) vs numpy's fmod-based floor_divide are listed findings; a grid may show both
                bx, by = np.broadcast_to(xa, got.shape), np.broadcast_to(xb, got.shape)
                fam = []
                for i in np.argwhere(~ok):
                    i = tuple(i)
                    if classify_floordiv_float(np, bx[i], by[i], got[i], want[i], want.dtype):
                        fam.append("floordiv:float:rounded-quotient")
                    elif classify_floordiv_nonfinite(np, bx[i], by[i], want.dtype):
                        fam.append("floordiv:float:non-finite-or-underflow")
                    else:
                        fam.append(None)
                        x, y, idx = bx[i], by[i], i
                        break
                if None not in fam:
                    key = "floordiv:float:rounded-quotient" if "floordiv:float:rounded-quotient" in fam else fam[0]
            elif opname == "floordiv" and tkind == "int" and (x < 0) != (y < 0) and got[idx] == want[idx] + 1:
                key = "floordiv:int:opposite-signs-nonzero-remainder"
            out.append((key, f"{describe(env, opname, oa, ob)} at a={x!r}, b={y!r}: spox {got[idx]!r}, numpy {want[idx]!r} "
                             f"({int((~ok).sum())} of {ok.size} grid points differ; {engine})",
                        {"x": x.item() if hasattr(x, 'item') else x, "y": None if y is None else (y.item() if hasattr(y, 'item') else y)}))
    return out



# --------------------------------------------------------------------------- expression histories
# A history = a few Vars + a forest of operator_overloading blocks (successive and nested, each with its
# own promotion settings) whose bodies apply operators to the SAME Vars and to earlier results, so that
# the same Var needs different casts at different uses. Hidden state in the dispatcher (a cast memoised
# per Var, a target type remembered from the previous call, ...) shows up here and nowhere else.
HIST_DTS = [2, 3, 0, 9, 4, 10, 1, 6]  # int32 int64 int8 float32 uint8 float64 int16 uint32
H_VALUES = [-7, -3, -2, 2, 3, 5]


def hist_steps(block):
    """Steps of a block forest in execution order, with the settings in force."""
    out = []
    for b in block:
        out.extend((b["st"], s) for s in b["pre"])
        if b.get("inner"):
            out.extend(hist_steps([b["inner"]]))
        out.extend((b["st"], s) for s in b.get("post", []))
    return out


def gen_history(rng, value_oracle):
    nv = rng.randrange(2, 5)
    dts = rng.sample(HIST_DTS, nv)
    n_steps = rng.randrange(2, 6)
    shape_kind = rng.choice(["single", "successive", "nested"])

    def settings():
        if value_oracle:
            return [True, rng.random() < 0.7]
        return [rng.random() < 0.7, rng.random() < 0.7]

    steps = []
    produced = 0

    def operand(avoid, cp, divisor=False):
        for _ in range(20):
            r = rng.random()
            if r < 0.45:
                o = ["v", 0 if rng.random() < 0.6 else rng.randrange(nv)]
            elif r < 0.7 and produced and not divisor:
                o = ["r", rng.randrange(produced)]
            elif r < 0.85 and cp:
                o = rng.choice([["int", 2], ["int", 3], ["float", 2.5], ["float", 0.5]])
            else:
                o = ["v", rng.randrange(nv)]
            if o != avoid:
                return o
        return ["v", (avoid[1] + 1) % nv] if avoid[0] == "v" else ["v", 0]

    def mk_steps(k, st):
        nonlocal produced
        out = []
        for _ in range(k):
            op = rng.choice(BIN + (["neg"] if not value_oracle else []))
            if op == "neg":
                a = operand(None, False)
                if a[0] not in ("v", "r"):
                    a = ["v", 0]
                out.append({"op": op, "a": a, "b": None})
            else:
                div = op in ("truediv", "floordiv")
                a = operand(None, st[1])
                b = operand(a, st[1], divisor=div and value_oracle)
                if a[0] in ("int", "float") and b[0] in ("int", "float"):
                    b = ["v", rng.randrange(nv)]
                out.append({"op": op, "a": a, "b": b})
            produced += 1
        return out

    if shape_kind == "single":
        blocks = [{"st": settings(), "pre": mk_steps(n_steps, None) if False else None}]
        st = blocks[0]["st"]
        blocks[0]["pre"] = mk_steps(n_steps, st)
    elif shape_kind == "successive":
        k = rng.randrange(1, n_steps)
        s1, s2 = settings(), settings()
        blocks = [{"st": s1, "pre": mk_steps(k, s1)}, {"st": s2, "pre": mk_steps(n_steps - k, s2)}]
    else:
        s1, s2 = settings(), settings()
        k1 = rng.randrange(0, n_steps)
        k2 = rng.randrange(1, n_steps - k1 + 1) if n_steps - k1 >= 1 else 0
        pre = mk_steps(k1, s1)
        inner = {"st": s2, "pre": mk_steps(max(k2, 1), s2)}
        post = mk_steps(max(n_steps - k1 - max(k2, 1), 0), s1)
        blocks = [{"st": s1, "pre": pre, "inner": inner, "post": post}]
    vals = []
    for d in dts:
        pool = [v for v in H_VALUES if v > 0] if d in (4, 5, 6, 7) else H_VALUES
        vals.append([rng.choice(pool) for _ in range(6)])
    return {"vars": dts, "values": vals, "blocks": blocks}


FIXED_HISTORIES = [
    # the same int32 Var first promoted to int32, then to float64
    {"vars": [2, 2], "values": [[-7, 7, 5, -3, 2, 3], [2, -2, 3, 5, -7, 2]],
     "blocks": [{"st": [True, True], "pre": [{"op": "add", "a": ["v", 0], "b": ["v", 1]}, {"op": "truediv", "a": ["v", 0], "b": ["v", 1]}]}]},
    {"vars": [2], "values": [[-7, 7, 5, -3, 2, 3]],
     "blocks": [{"st": [True, True], "pre": [{"op": "mul", "a": ["v", 0], "b": ["float", 2.5]}, {"op": "add", "a": ["v", 0], "b": ["int", 1]}]}]},
    {"vars": [2, 3, 0], "values": [[-7, 7, 5, -3, 2, 3], [2, -2, 3, 5, -7, 2], [3, 3, -2, 2, 5, -7]],
     "blocks": [{"st": [True, True], "pre": [{"op": "add", "a": ["v", 0], "b": ["v", 1]}, {"op": "add", "a": ["v", 0], "b": ["v", 2]},
                                             {"op": "floordiv", "a": ["r", 0], "b": ["v", 2]}]}]},
    # the same Var across successive blocks with different settings, and across a nested block
    {"vars": [2, 2, 3], "values": [[-7, 7, 5, -3, 2, 3], [2, -2, 3, 5, -7, 2], [3, 3, -2, 2, 5, -7]],
     "blocks": [{"st": [False, True], "pre": [{"op": "add", "a": ["v", 0], "b": ["v", 1]}]},
                {"st": [True, True], "pre": [{"op": "add", "a": ["v", 0], "b": ["v", 2]}, {"op": "truediv", "a": ["v", 0], "b": ["v", 1]}]}]},
    {"vars": [0, 9], "values": [[-7, 7, 5, -3, 2, 3], [2, -2, 3, 5, -7, 2]],
     "blocks": [{"st": [True, True], "pre": [{"op": "mul", "a": ["v", 0], "b": ["int", 3]}],
                 "inner": {"st": [True, True], "pre": [{"op": "sub", "a": ["v", 0], "b": ["v", 1]}]},
                 "post": [{"op": "floordiv", "a": ["v", 0], "b": ["int", 2]}, {"op": "add", "a": ["r", 0], "b": ["r", 1]}]}]},
]


# --------------------------------------------------------------------------- composed expressions (round 10)
# Histories that realise, on the real code, the expression trees of `logical_expr_matches` (`& | ^ ~` over boolean
# Vars, any of the four settings, all truth assignments) and of the unary-minus case of `expr_scalars_match`
# (`+ - * //` and unary `-` over SIGNED integer Vars with Python int literals on either side, INT_MIN among the
# values). They run through the same correspondence (each step dispatched by the model on the element types it
# computed for the earlier steps) and the same model-free oracle (every intermediate: onnxruntime vs numpy).
R10_FIXED = [
    # ~(x0 & x1) ^ (x0 | ~x1), promotion off: every intermediate boolean, numpy's truth table
    {"vars": [11, 11], "values": [[False, False, True, True], [False, True, False, True]],
     "blocks": [{"st": [False, False], "pre": [{"op": "and_", "a": ["v", 0], "b": ["v", 1]}, {"op": "not_", "a": ["r", 0], "b": None},
                                               {"op": "not_", "a": ["v", 1], "b": None}, {"op": "or_", "a": ["v", 0], "b": ["r", 2]},
                                               {"op": "xor", "a": ["r", 1], "b": ["r", 3]}]}]},
    # a result re-used twice, across a nested block with other settings (the two slots always hold different
    # objects: the rendering of the real tree names operands by identity)
    {"vars": [11, 11, 11], "values": [[bool(i & 1) for i in range(8)], [bool(i & 2) for i in range(8)], [bool(i & 4) for i in range(8)]],
     "blocks": [{"st": [True, True], "pre": [{"op": "xor", "a": ["v", 0], "b": ["v", 2]}, {"op": "or_", "a": ["r", 0], "b": ["v", 1]}],
                 "inner": {"st": [False, True], "pre": [{"op": "not_", "a": ["r", 1], "b": None}, {"op": "and_", "a": ["r", 2], "b": ["v", 2]}]},
                 "post": [{"op": "xor", "a": ["r", 3], "b": ["r", 1]}, {"op": "not_", "a": ["r", 4], "b": None}]}]},
    # -(x0 // 2) * 3 and 100 - (-x0) on int8 incl. -128 (numpy wraps -(-128) to -128)
    {"vars": [0], "values": [[-128, -7, -1, 0, 7, 127]],
     "blocks": [{"st": [True, True], "pre": [{"op": "floordiv", "a": ["v", 0], "b": ["int", 2]}, {"op": "neg", "a": ["r", 0], "b": None},
                                              {"op": "mul", "a": ["r", 1], "b": ["int", 3]}, {"op": "neg", "a": ["v", 0], "b": None},
                                              {"op": "sub", "a": ["int", 100], "b": ["r", 3]}]}]},
    # unary minus of a promoted intermediate: -(x0 + x1) // x1 with int16 / int64
    {"vars": [1, 3], "values": [[-32768, -7, 5, 32767, 2, -3], [3, -2, 5, -7, 2, 3]],
     "blocks": [{"st": [True, True], "pre": [{"op": "add", "a": ["v", 0], "b": ["v", 1]}, {"op": "neg", "a": ["r", 0], "b": None},
                                              {"op": "floordiv", "a": ["r", 1], "b": ["v", 1]}, {"op": "neg", "a": ["v", 0], "b": None},
                                              {"op": "mul", "a": ["r", 3], "b": ["r", 1]}]}]},
]


def gen_composed(rng, kind):
    """kind 'logic': boolean Vars, & | ^ ~, any settings, all truth assignments.
    kind 'neg': signed integer Vars, + - * // and unary -, int literals (constant promotion on) or none (off), promotion on,
    INT_MIN among the values."""
    steps, produced = [], 0
    if kind == "logic":
        nv = rng.randrange(2, 4)
        dts = [11] * nv
        vals = [[bool(i >> k & 1) for i in range(2 ** nv)] for k in range(nv)]
        st = [rng.random() < 0.5, rng.random() < 0.5]
    else:
        nv = rng.randrange(2, 4)
        dts = [rng.choice([0, 1, 2, 3]) for _ in range(nv)]
        vals = []
        for d in dts:
            lo = -(2 ** (8 * 2 ** d - 1))
            vals.append([rng.choice([lo, -lo - 1] + H_VALUES * 2) for _ in range(6)])
        st = [True, rng.random() < 0.6]   # constant promotion off: no literals, unary minus must still work

    def ref(divisor=False, avoid=None):
        for _ in range(20):
            if produced and not divisor and rng.random() < 0.55:
                o = ["r", rng.randrange(produced)]
            else:
                o = ["v", rng.randrange(nv)]
            if o != avoid:
                return o
        return ["v", (avoid[1] + 1) % nv] if avoid[0] == "v" else ["v", 0]

    def mk(k):
        nonlocal produced
        out = []
        for _ in range(k):
            if kind == "logic":
                op = rng.choice(LOGIC + ["not_"])
                a_ = ref()
                stp = {"op": op, "a": a_, "b": None if op == "not_" else ref(avoid=a_)}
            else:
                op = rng.choice(["add", "sub", "mul", "floordiv", "neg", "neg"])
                if op == "neg":
                    stp = {"op": op, "a": ref(), "b": None}
                elif st[1] and rng.random() < 0.3:
                    lit = ["int", rng.choice([2, 3, 7] if op == "floordiv" else [-3, 2, 3, 100])]
                    # a literal divisor is never 0 / -1; a literal dividend meets a Var (never 0 / -1 among the values)
                    stp = {"op": op, "a": ref(), "b": lit} if rng.random() < 0.5 else {"op": op, "a": lit, "b": ref(divisor=op == "floordiv")}
                else:
                    a_ = ref()
                    stp = {"op": op, "a": a_, "b": ref(divisor=op == "floordiv", avoid=a_)}
            out.append(stp)
            produced += 1
        return out

    n = rng.randrange(3, 8)
    if rng.random() < 0.5:
        blocks = [{"st": st, "pre": mk(n)}]
    else:
        k = rng.randrange(1, n)
        st2 = [rng.random() < 0.5, rng.random() < 0.5] if kind == "logic" else list(st)
        pre = mk(k)
        inner = {"st": st2, "pre": mk(max(1, (n - k) // 2))}
        blocks = [{"st": st, "pre": pre, "inner": inner, "post": mk(max(0, n - k - max(1, (n - k) // 2)))}]
    return {"vars": dts, "values": vals, "blocks": blocks}


# --------------------------------------------------------------------------- families of ==-equal scalars in ONE block (round 10)
# `0.0 == -0.0 == 0 == False`, `1 == 1.0 == True`, `2 == 2.0 == np.float32(2) == np.int64(2)` - equal, equally hashed,
# but different constants (sign of zero, Python type, numpy scalar type decide the promoted Constant / the result type).
# A dispatcher that remembers promoted constants under Python equality gives the SECOND member of a family the first
# one's Constant. So: one block, several members of one family one after the other (both orders, both sides, several
# operators interleaved), every step compared with numpy bit for bit (sign of zero, +-inf, nan) - through the built
# model + onnxruntime AND through the propagated value.
EQ_FAMILIES = {
    "zero": [["float", 0.0], ["float", -0.0], ["int", 0], ["bool", False]],
    "one": [["int", 1], ["float", 1.0], ["bool", True]],
    "two": [["int", 2], ["float", 2.0], ["np", 9, 2], ["np", 3, 2]],
}
FAM_VALUES = {"f": [-7.5, -0.0, 0.0, 2.5, 3.0, -2.0], "i": [-7, -2, 1, 3, 5, 2]}
FAM_OPS = ["mul", "truediv", "add", "sub", "floordiv"]


def fam_is_zero(c):
    return c[0] != "np" and c[1] == 0


def gen_family_blocks(rng, n_random):
    blocks = []
    for fam, members in EQ_FAMILIES.items():
        for d in (9, 10, 2):
            for op in FAM_OPS:
                for order in (members, members[::-1], members[1:] + members[:1]):
                    steps = []
                    for c in order:
                        for side in ("r", "l"):
                            steps.append({"op": op, "side": side, "c": c})
                    blocks.append({"family": fam, "dtype": d, "steps": steps})
    for _ in range(n_random):
        fam = rng.choice(list(EQ_FAMILIES))
        members = EQ_FAMILIES[fam]
        steps = [{"op": rng.choice(FAM_OPS), "side": rng.choice("rl"), "c": rng.choice(members)} for _ in range(rng.randrange(3, 9))]
        blocks.append({"family": fam, "dtype": rng.choice([9, 10, 8, 2, 3, 0]), "steps": steps})
    for b in blocks:
        kind = env_kind(b["dtype"])
        # outside the claim: division by a zero CONSTANT in floor division, float floor division by a Var holding zeros;
        # a numpy scalar on the LEFT (numpy's own dispatch hands it to Var.__r*__ as a Python scalar - not the dispatcher's doing)
        b["steps"] = [s_ for s_ in b["steps"]
                      if not (s_["op"] == "floordiv" and ((s_["side"] == "r" and fam_is_zero(s_["c"])) or (s_["side"] == "l" and kind == "f")))
                      and not (s_["side"] == "l" and s_["c"][0] == "np")]
    return [b for b in blocks if len(b["steps"]) >= 2]


def env_kind(d):
    return "f" if d in (8, 9, 10) else "i"


def describe_family(env, blk):
    def cs(c):
        return repr(env.realise(c)) if c[0] != "np" else f"np.{env.dtypes[c[1]]}({c[2]})"
    parts = [f"x {SYM[s_['op']]} {cs(s_['c'])}" if s_["side"] == "r" else f"{cs(s_['c'])} {SYM[s_['op']]} x" for s_ in blk["steps"]]
    return f"(x: {env.dtypes[blk['dtype']]}) in ONE block [tp=1,cp=1]: " + "; ".join(parts)


def bits_equal(np, got, want):
    got, want = np.asarray(got), np.asarray(want)
    if got.dtype != want.dtype or got.shape != want.shape:
        return None
    if want.dtype.kind == "f":
        return (np.isnan(want) & np.isnan(got)) | ((got == want) & (np.signbit(got) == np.signbit(want)))
    return got == want


def family_case(env: Env, blk):
    """-> ([(key, what)], number of steps compared). Model-free."""
    np = env.np
    kind = env_kind(blk["dtype"])
    arr = np.array(FAM_VALUES[kind], dtype=env.dtypes[blk["dtype"]])
    consts = [env.realise(s_["c"]) for s_ in blk["steps"]]
    want = []
    for s_, c in zip(blk["steps"], consts):
        a, b = (arr, c) if s_["side"] == "r" else (c, arr)
        k, w = numpy_expect(np, s_["op"], a, b)
        want.append(np.asarray(w) if k == "ok" else None)
    out, compared = [], 0
    for path in ("built model + onnxruntime", "propagated value"):
        with warnings.catch_warnings():
            warnings.simplefilter("ignore")
            x = (env.spox.argument(env.spox.Tensor(arr.dtype, ("N",))) if path.startswith("built") else env.op.const(arr))
            res = []
            with env.fut.operator_overloading(env.op, type_promotion=True, constant_promotion=True):
                for s_, c in zip(blk["steps"], consts):
                    try:
                        r = PYOP[s_["op"]](x, c) if s_["side"] == "r" else PYOP[s_["op"]](c, x)
                        res.append(r if isinstance(r, env.Var) else TypeError(f"returned {type(r).__name__}"))
                    except Exception as e:  # noqa: BLE001
                        res.append(e)
        live = [k for k, r in enumerate(res) if isinstance(r, env.Var) and want[k] is not None]
        for k, r in enumerate(res):
            if isinstance(r, Exception) and want[k] is not None:
                out.append((f"family:{blk['steps'][k]['op']}:refused:{type(r).__name__}",
                            f"step {k} of {describe_family(env, blk)} raises {type(r).__name__}: {r}; numpy computes {want[k].dtype}"))
        if not live:
            continue
        if path.startswith("built"):
            with warnings.catch_warnings():
                warnings.simplefilter("ignore")
                model = env.spox.build({"x": x}, {f"r{k}": res[k] for k in live})
            sess = env.ort.InferenceSession(model.SerializeToString(), env.so, providers=["CPUExecutionProvider"])
            got_all = dict(zip([o.name for o in sess.get_outputs()], sess.run(None, {"x": arr})))
            got = {k: got_all[f"r{k}"] for k in live}
        else:
            got = {}
            for k in live:
                v = res[k]._get_value() if hasattr(res[k], "_get_value") else None
                if v is not None:
                    got[k] = v
        for k in live:
            if k not in got:
                continue
            compared += 1
            w = np.broadcast_to(want[k], np.asarray(got[k]).shape) if want[k].shape == () else want[k]
            ok = bits_equal(np, got[k], w)
            op = blk["steps"][k]["op"]
            if ok is None:
                out.append((f"family:{op}:result-dtype", f"step {k} of {describe_family(env, blk)} ({path}): spox {np.asarray(got[k]).dtype}{np.asarray(got[k]).shape}, numpy {w.dtype}{w.shape}"))
            elif not ok.all():
                i = int(np.argwhere(~ok)[0][0])
                if op == "floordiv" and w.dtype.kind == "f" and classify_floordiv_float(np, arr[i] if blk["steps"][k]["side"] == "r" else consts[k],
                                                                                      consts[k] if blk["steps"][k]["side"] == "r" else arr[i], np.asarray(got[k])[i], w[i], w.dtype):
                    key = "floordiv:float:rounded-quotient"
                else:
                    key = f"family:{op}:wrong-value" + (":propagated" if path.startswith("prop") else "")
                out.append((key, f"step {k} of {describe_family(env, blk)} ({path}) at x = {arr[i]!r}: spox {np.asarray(got[k])[i]!r}, numpy {w[i]!r} "
                                 f"(compared bit for bit: sign of zero, infinities, nan)"))
    return out, compared


def run_history(env: Env, hist, shape=()):
    """Execute a history on the real code. -> (per-step outcome dicts, per-step result Vars, base Vars)"""
    np = env.np
    with warnings.catch_warnings():
        warnings.simplefilter("ignore")
        base = [env.spox.argument(env.spox.Tensor(np.dtype(env.dtypes[d]), shape)) for d in hist["vars"]]
    results, outcomes = [], []

    def resolve(ref):
        if ref is None:
            return None
        if ref[0] == "v":
            return base[ref[1]]
        if ref[0] == "r":
            return results[ref[1]] if ref[1] < len(results) else None
        return ref[1]

    def do_steps(steps):
        for stp in steps:
            a, b = resolve(stp["a"]), resolve(stp["b"])
            missing = (stp["a"][0] == "r" and a is None) or (stp["b"] is not None and stp["b"][0] == "r" and b is None)
            if missing:
                results.append(None)
                outcomes.append({"skipped": True})
                continue
            try:
                with warnings.catch_warnings():
                    warnings.simplefilter("ignore")
                    r = PYOP[stp["op"]](a) if stp["op"] in UNARY else PYOP[stp["op"]](a, b)
                if not isinstance(r, env.Var):
                    raise TypeError(f"returned {type(r).__name__}")
            except Exception as e:  # noqa: BLE001
                results.append(None)
                outcomes.append({"err": env.err_name(e)})
                continue
            results.append(r)
            try:
                outcomes.append({"tree": env.tree(r, [a, b]), "dtype": env.code(r.type.dtype)})
            except Exception as e:  # noqa: BLE001
                outcomes.append({"unobservable": f"{type(e).__name__}: {e}"})

    def do_block(b):
        with env.fut.operator_overloading(env.op, type_promotion=b["st"][0], constant_promotion=b["st"][1]):
            do_steps(b["pre"])
            if b.get("inner"):
                do_block(b["inner"])
            do_steps(b.get("post", []))

    for b in hist["blocks"]:
        do_block(b)
    return outcomes, results, base


def model_history(drv, hist):
    """The model applied compositionally: each step is dispatched on the element types of its operands."""
    dts = list(hist["vars"])
    res_dt, out = [], []

    def enc(ref):
        if ref is None:
            return ["other"], True
        if ref[0] == "v":
            return ["var", dts[ref[1]]], True
        if ref[0] == "r":
            d = res_dt[ref[1]] if ref[1] < len(res_dt) else None
            return (["var", d], True) if d is not None else (None, False)
        if ref[0] == "int":
            return ["int", ref[1]], True
        return ["float"], True

    for st, stp in hist_steps(hist["blocks"]):
        a, oka = enc(stp["a"])
        b, okb = enc(stp["b"])
        if not (oka and okb):
            res_dt.append(None)
            out.append({"skipped": True})
            continue
        ans = drv.ask("C17", {"settings": st, "op": stp["op"], "a": a, "b": b})
        res_dt.append(ans.get("dtype") if "tree" in ans else None)
        out.append(ans)
    return out


def describe_history(env, hist):
    def ref(r):
        if r is None:
            return ""
        if r[0] == "v":
            return f"x{r[1]}"
        if r[0] == "r":
            return f"r{r[1]}"
        return repr(r[1])
    parts = []
    k = 0
    for st, stp in hist_steps(hist["blocks"]):
        e = f"{SYM[stp['op']]}{ref(stp['a'])}" if stp["op"] in UNARY else f"{ref(stp['a'])} {SYM[stp['op']]} {ref(stp['b'])}"
        parts.append(f"r{k} = {e} [tp={int(st[0])},cp={int(st[1])}]")
        k += 1
    vs = ", ".join(f"x{i}: {env.dtypes[d]}" for i, d in enumerate(hist["vars"]))
    return f"({vs}) " + "; ".join(parts)


def history_value_case(env: Env, hist):
    """Model-free: every intermediate result of the history, through build + onnxruntime, against numpy
    evaluating the same expressions on the same operand values. -> [(key, what)]"""
    np = env.np
    n = len(hist["values"][0])
    outcomes, results, base = run_history(env, hist, shape=("N",))
    arrays = [np.array(v, dtype=env.dtypes[d]) for v, d in zip(hist["values"], hist["vars"])]
    np_res = []
    steps = hist_steps(hist["blocks"])

    def nres(ref):
        if ref is None:
            return None
        if ref[0] == "v":
            return arrays[ref[1]]
        if ref[0] == "r":
            return np_res[ref[1]]
        return ref[1]

    out = []
    for k, (st, stp) in enumerate(steps):
        a, b = nres(stp["a"]), nres(stp["b"])
        if (stp["a"][0] == "r" and a is None) or (stp["b"] is not None and stp["b"][0] == "r" and b is None):
            np_res.append(None)
            continue
        kind, want = numpy_expect(np, stp["op"], a, b)
        np_res.append(np.asarray(want) if kind == "ok" else None)
        if kind == "ok" and results[k] is None and "err" in outcomes[k]:
            key = "neg:unsigned:refused" if (stp["op"] == "neg" and np.asarray(a).dtype.kind == "u") else f"history:{stp['op']}:refused:{outcomes[k]['err']}"
            out.append((key, f"step r{k} of {describe_history(env, hist)} raises {outcomes[k]['err']}; numpy computes a {np.asarray(want).dtype} result"))
    live = [k for k in range(len(steps)) if results[k] is not None and np_res[k] is not None]
    if not live:
        return out, 0
    with warnings.catch_warnings():
        warnings.simplefilter("ignore")
        model = env.spox.build({f"x{i}": v for i, v in enumerate(base)}, {f"r{k}": results[k] for k in live})
    sess = env.ort.InferenceSession(model.SerializeToString(), env.so, providers=["CPUExecutionProvider"])
    names = [o.name for o in sess.get_outputs()]
    got_all = dict(zip(names, sess.run(None, {f"x{i}": arrays[i] for i in range(len(arrays))})))
    for k in live:
        got, want = np.asarray(got_all[f"r{k}"]), np_res[k]
        op = steps[k][1]["op"]
        if want.shape == ():
            want = np.broadcast_to(want, (n,))
        if got.dtype != want.dtype:
            out.append((f"history:{op}:result-dtype", f"step r{k} of {describe_history(env, hist)}: spox gives {got.dtype}, numpy {want.dtype}"))
            break  # later steps inherit the difference
        ok = agree(np, got, np.broadcast_to(want, got.shape), exact=op in EXACT_OPS)
        if not ok.all():
            i = int(np.argwhere(~ok)[0][0])
            a, b = nres(steps[k][1]["a"]), nres(steps[k][1]["b"])
            key = f"history:{op}:wrong-value"
            if op == "floordiv" and want.dtype.kind == "f":
                xa, xb = np.broadcast_to(np.asarray(a), got.shape), np.broadcast_to(np.asarray(b), got.shape)
                if all(classify_floordiv_float(np, xa[j[0]], xb[j[0]], got[j[0]], np.broadcast_to(want, got.shape)[j[0]], want.dtype)
                       for j in np.argwhere(~ok)):
                    key = "floordiv:float:rounded-quotient"
            out.append((key, f"step r{k} of {describe_history(env, hist)} at element {i} (values {[v[i] for v in hist['values']]}): "
                             f"spox {got[i]!r}, numpy {np.broadcast_to(want, got.shape)[i]!r}"))
            break
    return out, len(live)


def history_corr_case(env: Env, drv, hist):
    """-> list of mismatch descriptions between the real outcomes and the model's, step by step."""
    real, _, _ = run_history(env, hist)
    model = model_history(drv, hist)
    bad = []
    for k, (r, m_) in enumerate(zip(real, model)):
        if "unobservable" in r:
            bad.append(f"r{k} not observable: {r['unobservable']}")
        elif r != m_:
            bad.append(f"step r{k} of {describe_history(env, hist)}: model {m_} real {r}")
    return bad


# --------------------------------------------------------------------------- scoped histories (which block is in force)
# A forest of blocks, each realised in one of several forms: a `with` statement, a freshly decorated
# function, ONE decorated function per settings that executes any body (so a nested block of the same
# settings is that function calling itself), two functions sharing one decorator object calling each
# other, a generator suspended inside a `with` while the caller runs the body. Bodies may raise (caught
# just outside their block). At every probe a few operator applications are made.
SCOPE_FORMS = ["with", "decorator", "recursive", "mutual", "generator"]
PROBE_EXPRS = [("add", ["var", 3], ["var", 9]),      # int64 Var + float32 Var: mixed element types
               ("add", ["var", 2], ["float", 2.5]),  # integer Var + Python float
               ("add", ["var", 2], ["float", 2.0]),  # ... a WHOLE-NUMBER float is a float all the same
               ("mul", ["float", -3.0], ["var", 3]),  # ... on the left
               ("truediv", ["var", 2], ["var", 2]),  # same element type
               ("neg", ["var", 2], None)]


class _ScopeBoom(Exception):
    pass


def gen_scoped(rng, size):
    budget = [size]

    def nodes(depth, parent_s):
        out = ["p"] if rng.random() < 0.5 else []
        while budget[0] > 0 and rng.random() < 0.7:
            budget[0] -= 1
            if parent_s is not None and rng.random() < 0.5:
                s_, form = parent_s, rng.choice(["recursive", "recursive", "mutual", "decorator"])
            else:
                s_, form = [rng.random() < 0.5, rng.random() < 0.6], rng.choice(SCOPE_FORMS)
            body = nodes(depth + 1, s_) if depth < 4 else ["p"]
            out.append({"s": s_, "form": form, "raises": rng.random() < 0.15, "body": body, "call": rng.choice(CALL_STYLES)})
            if rng.random() < 0.6:
                out.append("p")
        return out

    prog = nodes(0, None)
    prog.append("p")  # always look once more after everything, outside all blocks
    return prog


FIXED_SCOPED = [
    # a decorated function that calls itself (depth 3), then outside
    [{"s": [True, True], "form": "recursive", "raises": False, "body": ["p", {"s": [True, True], "form": "recursive", "raises": False, "body": [
        "p", {"s": [True, True], "form": "recursive", "raises": False, "body": ["p"]}, "p"]}, "p"]}, "p"],
    # the same inside an enclosing block with promotion off
    [{"s": [False, True], "form": "with", "raises": False, "body": ["p", {"s": [True, True], "form": "recursive", "raises": False, "body": [
        {"s": [True, True], "form": "recursive", "raises": False, "body": ["p"]}]}, "p"]}, "p"],
    # two functions sharing one decorator object, one calling the other
    [{"s": [True, False], "form": "mutual", "raises": False, "body": [{"s": [True, False], "form": "mutual", "raises": False, "body": ["p"]}, "p"]}, "p"],
    # a generator suspended inside a block while the caller probes; an inner body that raises
    [{"s": [True, True], "form": "generator", "raises": False, "body": ["p", {"s": [False, False], "form": "decorator", "raises": True, "body": ["p"]}, "p"]}, "p"],
]
# an inner block that switches promotion OFF inside an outer block with promotion ON - explicitly by keyword, positionally,
# by omission (the default), in every block form, to depth 4, with a raising inner body: an explicit False is not "unset"
for _form in ("with", "decorator", "recursive", "mutual", "generator"):
    for _call, _cp in (("kw", True), ("pos", True), ("omit-tp", True), ("omit-both", True), ("kw", False), ("pos-tp", True)):
        FIXED_SCOPED.append([{"s": [True, True], "form": "with", "raises": False, "call": "kw", "body": [
            "p", {"s": [False, _cp], "form": _form, "raises": False, "call": _call, "body": ["p"]}, "p"]}, "p"])
FIXED_SCOPED.append([{"s": [True, False], "form": "decorator", "raises": False, "call": "pos", "body": [
    {"s": [False, True], "form": "with", "raises": False, "call": "omit-both", "body": [
        "p", {"s": [True, True], "form": "with", "raises": False, "call": "omit-cp", "body": [
            "p", {"s": [False, True], "form": "decorator", "raises": True, "call": "kw", "body": ["p"]}, "p"]}, "p"]}, "p"]}, "p"])


CALL_STYLES = ["kw", "pos", "pos-tp", "omit-tp", "omit-cp", "omit-both"]


def call_ok(style, s_):
    """a style that omits an option is only a way to write the settings if the omitted option has its default"""
    return {"kw": True, "pos": True, "pos-tp": s_[1] is True, "omit-tp": s_[0] is False, "omit-cp": s_[1] is True,
            "omit-both": s_[0] is False and s_[1] is True}[style]


def open_block(env, n):
    """operator_overloading(...) as written: options by keyword, positionally, or omitted (then the default applies)"""
    oo, s_ = env.fut.operator_overloading, n["s"]
    style = n.get("call", "kw")
    if not call_ok(style, s_):
        style = "kw"
    if style == "pos":
        return oo(env.op, s_[0], s_[1])
    if style == "pos-tp":
        return oo(env.op, s_[0])
    if style == "omit-tp":
        return oo(env.op, constant_promotion=s_[1])
    if style == "omit-cp":
        return oo(env.op, type_promotion=s_[0])
    if style == "omit-both":
        return oo(env.op)
    return oo(env.op, type_promotion=s_[0], constant_promotion=s_[1])


def scoped_tree_json(prog):
    """for the model: the call as written (null = option omitted)"""
    out = []
    for n in prog:
        if n == "p":
            out.append("p")
            continue
        style = n.get("call", "kw") if call_ok(n.get("call", "kw"), n["s"]) else "kw"
        tp = None if style in ("omit-tp", "omit-both") else n["s"][0]
        cp = None if style in ("omit-cp", "omit-both", "pos-tp") else n["s"][1]
        out.append(["b", [tp, cp], scoped_tree_json(n["body"])])
    return out


def enclosing_settings(prog, cur=None):
    """The statement's own reading: the settings of the innermost enclosing block, per probe."""
    out = []
    for n in prog:
        if n == "p":
            out.append(cur)
        else:
            out.extend(enclosing_settings(n["body"], n["s"]))
    return out


def run_scoped(env: Env, prog):
    """Execute the forest on the real managers. -> per probe: list of outcome dicts (one per PROBE_EXPRS)."""
    oo = env.fut.operator_overloading
    probes = []
    cache = {}

    def probe():
        res = []
        for opname, oa, ob in PROBE_EXPRS:
            a = env.realise(oa)
            b = env.realise(ob) if ob is not None else None
            try:
                with warnings.catch_warnings():
                    warnings.simplefilter("ignore")
                    r = PYOP[opname](a) if opname in UNARY else PYOP[opname](a, b)
                if not isinstance(r, env.Var):
                    res.append({"err": f"returned:{type(r).__name__}"})
                    continue
                res.append({"tree": env.tree(r, [a, b]), "dtype": env.code(r.type.dtype)})
            except Exception as e:  # noqa: BLE001
                res.append({"err": env.err_name(e)})
        probes.append(res)

    def run_nodes(nodes):
        for n in nodes:
            if n == "p":
                probe()
            else:
                try:
                    run_block(n)
                except _ScopeBoom:
                    pass

    def body_of(n):
        def body():
            run_nodes(n["body"])
            if n["raises"]:
                raise _ScopeBoom()
        return body

    def executor(key, n_):
        """one decorated function per (form, settings, call style) that runs whatever body it is given"""
        if key not in cache:
            if key[0] == "recursive":
                @open_block(env, n_)
                def f(body):
                    body()
                cache[key] = [f]
            else:  # mutual: one decorator object, two functions
                deco = open_block(env, n_)

                @deco
                def g1(body):
                    body()

                @deco
                def g2(body):
                    body()
                cache[key] = [g1, g2]
        return cache[key]

    depth = [0]

    def run_block(n):
        s_, form, body = n["s"], n["form"], body_of(n)
        depth[0] += 1
        try:
            if form == "with":
                with open_block(env, n):
                    body()
            elif form == "decorator":
                open_block(env, n)(body)()
            elif form in ("recursive", "mutual"):
                fs = executor((form, tuple(s_), n.get("call", "kw")), n)
                fs[depth[0] % len(fs)](body)
            else:  # generator suspended inside the block while the caller runs the body
                def gen():
                    with open_block(env, n):
                        yield 1
                g = gen()
                next(g)
                try:
                    body()
                except _ScopeBoom:
                    try:
                        g.throw(_ScopeBoom())
                    except (_ScopeBoom, StopIteration):
                        pass
                    raise
                try:
                    next(g)
                except StopIteration:
                    pass
        finally:
            depth[0] -= 1

    run_nodes(prog)
    return probes


def scoped_oracle(env: Env, prog, probes):
    """Model-free: what the statement says about each probe given its enclosing block. -> [(key, what)]"""
    bad = []
    for i, (st, res) in enumerate(zip(enclosing_settings(prog), probes)):
        where = "outside every block" if st is None else f"inside a block with type_promotion={st[0]}, constant_promotion={st[1]}"
        for (opname, oa, ob), r in zip(PROBE_EXPRS, res):
            expr = describe(env, opname, oa, ob)
            if st is None:
                if r.get("err") != "TypeError":
                    bad.append((f"scoped:outside-block:{opname}:not-TypeError", f"probe {i} ({where}, after earlier blocks have exited): {expr} gives {r}"))
            elif not st[0]:
                if opname == "add" and oa[0] == "var" and ob[0] == "var" and r.get("err") != "TypeError":
                    bad.append(("scoped:no-promotion:mixed-dtypes:not-TypeError", f"probe {i} ({where}): {expr} gives {r}"))
                if "float" in (oa[0], ob[0] if ob is not None else None) and r.get("err") != "TypeError":
                    bad.append(("scoped:no-promotion:float-constant:not-TypeError", f"probe {i} ({where}): {expr} gives {r}"))
                if "tree" in r and "Cast[" in r["tree"]:
                    bad.append(("scoped:no-promotion:operand-converted", f"probe {i} ({where}): {expr} gives {r}"))
            else:
                if opname in ("add", "truediv") and ob[0] == "var":
                    want = env.code(numpy_expect(env.np, opname, np_operand_for(env, oa), np_operand_for(env, ob))[1].dtype)
                    if r.get("dtype") != want:
                        bad.append((f"scoped:promotion:{opname}:result-dtype", f"probe {i} ({where}): {expr} gives {r}, numpy's element type is {env.dtypes[want]}"))
                if "float" in (oa[0], ob[0] if ob is not None else None):
                    if st[1] and r.get("dtype") != env.code("float64"):
                        bad.append(("scoped:promotion:constant:result-dtype", f"probe {i} ({where}): {expr} gives {r}"))
                    if not st[1] and r.get("err") != "TypeError":
                        bad.append(("scoped:no-constant-promotion:not-TypeError", f"probe {i} ({where}): {expr} gives {r}"))
    return bad


def np_operand_for(env, o):
    return env.np.ones((2,), dtype=env.dtypes[o[1]])


def scoped_case(env: Env, prog):
    saved = getattr(env.Var, "_operator_dispatcher", None)
    try:
        probes = run_scoped(env, prog)
    finally:
        env.restore_dispatcher(saved)  # a leaking manager must not poison the rest of the run
    return probes, scoped_oracle(env, prog, probes)


# --------------------------------------------------------------------------- operand shapes (ranks)
SHAPE_PAIRS = [((), (3,)), ((3,), ()), ((), (2, 3)), ((2, 3), ()), ((1,), (3,)), ((3,), (2, 3)),
               ((), ()), ((1,), ()), ((), (1,)), ((2, 1), (3,)), ((2, 3), (2, 3))]


def shape_value_case(env: Env, opname, da, db, sa, sb):
    """Var x Var with the given element types AND shapes (rank 0 against rank >= 1, broadcasting pairs):
    dtype, shape and values of the built model vs numpy on the same arrays. -> [(key, what)]"""
    np = env.np
    dta, dtb = np.dtype(env.dtypes[da]), np.dtype(env.dtypes[db])
    div = opname in ("truediv", "floordiv")

    def fill(dt, shape, divisor, variant):
        g = grid(np, dt.name, divisor=divisor)
        g = g[np.isfinite(g.astype(np.float64))] if dt.kind == "f" else g
        if divisor and dt.kind == "i":
            g = g[g != -1]
        n = int(np.prod(shape)) if shape else 1
        # rank 0: one value per variant, among them the extremes (a scalar holding a large value must not wrap)
        vals = np.resize(np.roll(g, -variant * 2 - (1 if shape == () else 0)), n) if shape else np.array([g[-1 - variant] if variant < 2 else g[variant]])
        return vals.astype(dt).reshape(shape)

    a = env.spox.argument(env.spox.Tensor(dta, sa))
    b = env.spox.argument(env.spox.Tensor(dtb, sb))
    try:
        with warnings.catch_warnings():
            warnings.simplefilter("ignore")
            with env.fut.operator_overloading(env.op, type_promotion=True):
                r = PYOP[opname](a, b)
            model = env.spox.build({"a": a, "b": b}, {"r": r})
    except Exception as e:  # noqa: BLE001
        return [(f"{opname}:refused:{env.err_name(e)}", f"Var[{dta.name}{list(sa)}] {SYM[opname]} Var[{dtb.name}{list(sb)}] raises {env.err_name(e)}")]
    sess = env.ort.InferenceSession(model.SerializeToString(), env.so, providers=["CPUExecutionProvider"])
    out = []
    for variant in range(3):
        xa, xb = fill(dta, sa, False, variant), fill(dtb, sb, div, variant)
        if opname == "floordiv" and dta.kind == "i":
            xa = np.where(xa == np.iinfo(dta).min, np.iinfo(dta).min + 1, xa).astype(dta)
        kind, want = numpy_expect(np, opname, xa, xb)
        if kind != "ok":
            continue
        want = np.asarray(want)
        got = np.asarray(sess.run(None, {"a": xa, "b": xb})[0])
        what = f"Var[{dta.name}{list(sa)}] {SYM[opname]} Var[{dtb.name}{list(sb)}]"
        if got.dtype != want.dtype:
            out.append((f"{opname}:result-dtype", f"{what}: spox gives {got.dtype}, numpy {want.dtype}"))
            break
        if got.shape != want.shape:
            out.append((f"{opname}:result-shape", f"{what}: shape {got.shape}, numpy {want.shape}"))
            break
        ok = agree(np, got, want, exact=opname in EXACT_OPS)
        if not ok.all():
            idx = tuple(np.argwhere(~ok)[0])
            key = f"{opname}:{'float' if want.dtype.kind == 'f' else 'int'}:wrong-value"
            if opname == "floordiv" and want.dtype.kind == "f":
                continue  # the float // findings are classified on the full grids, not here
            out.append((key, f"{what} at a={xa.tolist()}, b={xb.tolist()}: spox {got[idx]!r}, numpy {want[idx]!r} at {idx}"))
            break
    return out



# --------------------------------------------------------------------------- symbolic static shapes
# Operators on Vars whose STATIC shapes contain named dimensions (equal names, different names, a name
# against a constant, against 1), anonymous dimensions, or are of unknown rank. Such operands are legal:
# the expression must build (no exception at construction) and, on runtime inputs that conform to the
# static shapes and do broadcast, compute what numpy computes.
SYM_FIXED = [(["N"], ["M"]), (["N"], [4]), ([2, "K"], [3]), (["N"], ["N"]), (["N"], [1]), ([1], ["N"]), ([None], [3]),
             ([None], [None]), (None, [3]), ([3], None), (None, None), (["N", "M"], ["M"]), (["N", 1], [1, "M"]),
             ([], ["N"]), (["N"], []), ([2, "N"], ["N"]), (["B", "N", 3], [3]), (["N"], ["M", "N"]), (["N", "M"], ["M", "N"]),
             ([None, "N"], ["M", None]), ([2, "K"], ["K"]), (["N"], [2, 3]), (None, ["N"]), (["N", 3], [None, 1])]
SYM_DIMS = [1, 2, 3, "N", "M", "K", None]
RDUNDER = {"add": "__radd__", "sub": "__rsub__", "mul": "__rmul__", "truediv": "__rtruediv__", "floordiv": "__rfloordiv__",
           "and_": "__rand__", "or_": "__ror__", "xor": "__rxor__"}


def sym_runtime_shapes(np, sa, sb, limit=3, pick=None):
    """Runtime shape pairs that conform to the static shapes (same name = same size within the pair of
    operands, anonymous dims independent, unknown rank = any rank <= 2) and that numpy broadcasts."""
    import itertools

    consts = sorted({d for s_ in (sa, sb) if s_ is not None for d in s_ if isinstance(d, int)} | {0, 1, 2, 3})
    names = sorted({d for s_ in (sa, sb) if s_ is not None for d in s_ if isinstance(d, str)})
    free = [(k, i) for k, s_ in enumerate((sa, sb)) if s_ is not None for i, d in enumerate(s_) if d is None]
    unk = [k for k, s_ in enumerate((sa, sb)) if s_ is None]
    ranks = [(), (1,), (3,), (2, 1), (1, 3)]
    out = []
    for nv in itertools.product(consts, repeat=len(names)):
        env_ = dict(zip(names, nv))
        for fv in itertools.product([1, 2, 3], repeat=len(free)):
            fenv = dict(zip(free, fv))
            for uv in itertools.product(ranks, repeat=len(unk)):
                uenv = dict(zip(unk, uv))
                conc = []
                for k, s_ in enumerate((sa, sb)):
                    if s_ is None:
                        conc.append(uenv[k])
                    else:
                        conc.append(tuple(d if isinstance(d, int) else (env_[d] if isinstance(d, str) else fenv[(k, i)])
                                          for i, d in enumerate(s_)))
                try:
                    np.broadcast_shapes(*conc)
                except ValueError:
                    continue
                out.append(tuple(conc))
    if not out:
        return []
    # prefer variety: a pair where the operands differ in some axis (one side 1), and one where they agree
    out.sort(key=lambda c: (c[0] == c[1], -sum(c[0]) - sum(c[1])))
    zero = [c for c in out if 0 in c[0] or 0 in c[1]]  # a zero-length axis at run time
    nz = [c for c in out if c not in zero] or out
    if pick is not None and len(nz) > limit:
        rest = nz[1:-1]
        chosen = [nz[0], nz[-1]] + ([rest[pick % len(rest)]] if rest else [])
    else:
        chosen = nz[:limit]
    if zero and pick is not None:
        chosen.append(zero[pick % len(zero)])
    return chosen


def symbolic_case(env: Env, c):
    """One operator application on Vars with symbolic static shapes. -> [(key, what)]"""
    np = env.np
    opname, sa, sb = c["op"], c["sa"], c.get("sb")
    settings = c.get("settings", [True, True])
    form = c.get("form", "op")
    unary = opname in UNARY
    dta = np.dtype(env.dtypes[c["da"]])
    kb = c.get("kb", "var")  # the right operand: a Var, or a Python scalar
    dtb = np.dtype(env.dtypes[c["db"]]) if (not unary and kb == "var") else None
    tup = lambda s_: None if s_ is None else tuple(s_)  # noqa: E731
    if not unary and kb != "var":
        sb = []

    op_mod = env.op
    if c.get("opset"):
        import importlib

        op_mod = importlib.import_module(f"spox.opset.ai.onnx.v{c['opset']}")  # public modules

    def operand(name, dt, s_, runnable):
        """A Var of the given static type. `build` refuses model inputs of unknown rank, so for running
        the model an operand of unknown rank is a runtime Reshape of a flat input (static rank unknown)."""
        if s_ is not None or not runnable:
            v = env.spox.argument(env.spox.Tensor(dt, tup(s_)))
            return v, {name: v}
        flat = env.spox.argument(env.spox.Tensor(dt, (f"n_{name}",)))
        shp = env.spox.argument(env.spox.Tensor(np.int64, (f"r_{name}",)))
        return op_mod.reshape(flat, shp), {name: flat, f"{name}_shape": shp}

    def show(dt, s_):
        return f"Var[{dt.name}, shape={'unknown rank' if s_ is None else tuple(s_)}]"

    b = c.get("scalar")
    expr = (f"{SYM[opname]}{show(dta, sa)}" if unary else
            f"{show(dta, sa)} {SYM[opname]} {show(dtb, sb) if kb == 'var' else repr(b)}")
    if form == "reflected":
        expr += f"  [as right.{RDUNDER[opname]}(left)]"
    elif form == "swapped":
        expr = f"{b!r} {SYM[opname]} {show(dta, sa)}"
    if c.get("same"):
        expr += "  [the same Var on both sides]"
    if c.get("opset") or c.get("ambient"):
        expr += f"  [operator_overloading(v{c.get('opset', 17)}){', inside ' + c['ambient'] if c.get('ambient') else ''}]"
    runtime = sym_runtime_shapes(np, sa, [] if unary else sb, pick=c.get("pick"))
    if c.get("same"):
        runtime = [(ra, ra) for ra, _ in sym_runtime_shapes(np, sa, [], pick=c.get("pick"))]
    if not runtime:
        return []  # statically incompatible for all conforming values: the statement makes no demand

    import contextlib

    def ambient():
        """An unrelated scoped setting around the operator application: the answer must not depend on it."""
        amb = c.get("ambient")
        if not amb:
            return contextlib.nullcontext()
        kind, _, val = amb.partition(":")
        if kind == "vp":
            return env.fut.value_prop_backend(getattr(env.fut.ValuePropBackend, val))
        return env.fut.type_warning_level(getattr(env.fut.TypeWarningLevel, val))

    def construct(a, b):
        with ambient(), env.fut.operator_overloading(op_mod, type_promotion=settings[0], constant_promotion=settings[1]):
            if unary:
                r = PYOP[opname](a)
            elif form == "reflected":
                r = getattr(b, RDUNDER[opname])(a)
            elif form == "swapped":
                r = PYOP[opname](b, a)
            else:
                r = PYOP[opname](a, b)
        if not isinstance(r, env.Var):
            raise TypeError(f"operator returned {type(r).__name__}")
        return r

    try:
        with warnings.catch_warnings():
            warnings.simplefilter("ignore")
            for runnable in ((False, True) if (sa is None or (sb is None and not unary)) else (True,)):
                a, feeds_vars = operand("a", dta, sa, runnable)
                if not unary and kb == "var" and c.get("same"):
                    b = a  # ONE Var in both slots
                elif not unary and kb == "var":
                    b, fv = operand("b", dtb, sb, runnable)
                    feeds_vars.update(fv)
                r = construct(a, b)
    except Exception as e:  # noqa: BLE001
        ra, rb = runtime[0]
        return [(f"{opname}:symbolic-shapes:refused:{env.err_name(e)}",
                 f"{expr} raises {env.err_name(e)} ({str(e)[:120]}) at construction although the static shapes are legal and "
                 f"runtime values of shapes {ra} and {rb} conform to them and broadcast")]
    claimed = None
    try:
        claimed = r.unwrap_tensor().shape
    except Exception:  # noqa: BLE001
        pass
    with warnings.catch_warnings():
        warnings.simplefilter("ignore")
        if claimed is None:  # `build` refuses results of unknown rank too: hand out the flattened result and its shape
            outs = {"r": op_mod.reshape(r, op_mod.const(np.array([-1], dtype=np.int64))), "r_shape": op_mod.shape(r)}
        else:
            outs = {"r": r}
        model = env.spox.build(feeds_vars, outs)
    sess = env.ort.InferenceSession(model.SerializeToString(), env.so, providers=["CPUExecutionProvider"])
    out_names = [o.name for o in model.graph.output]
    vals = {"i": [-7, 2, -1, 3, 1, -2, 7, 5], "u": [7, 2, 1, 3, 5, 4, 9, 6], "f": [-7, 2, -1.5, 3, 0.5, -2, 7, 2.5], "b": [True, False, True, True, False]}
    out = []
    for k, (ra, rb) in enumerate(runtime):
        def fill(dt, shape, off):
            n = int(np.prod(shape)) if shape else 1
            return np.resize(np.roll(np.array(vals[dt.kind], dtype=dt), -(off + k)), n).reshape(shape)
        def feed(name, x):
            if f"{name}_shape" in feeds_vars:
                return {name: x.reshape(-1), f"{name}_shape": np.array(x.shape, dtype=np.int64)}
            return {name: x}
        xa = fill(dta, ra, 0)
        feeds = feed("a", xa)
        if unary:
            na, nb = xa, None
        elif kb == "var" and c.get("same"):
            na, nb = xa, xa
        elif kb == "var":
            xb = fill(dtb, rb, 3)
            feeds.update(feed("b", xb))
            na, nb = xa, xb
        else:
            na, nb = xa, b
        if form == "swapped":
            na, nb = nb, na
        kind, want = numpy_expect(np, opname, na, nb)
        if kind != "ok":
            continue
        want = np.asarray(want)
        try:
            res_ = dict(zip(out_names, sess.run(None, feeds)))
            got = np.asarray(res_["r"])
            if "r_shape" in res_:
                got = got.reshape(tuple(int(v) for v in res_["r_shape"]))
        except Exception as e:  # noqa: BLE001
            out.append((f"{opname}:symbolic-shapes:runtime-refuses", f"{expr}: onnxruntime refuses inputs of shapes {ra}, {rb}: {str(e)[:160]}"))
            break
        if not settings[0]:
            # promotion off: "results keep the operands' element type"; values are numpy's where numpy keeps it too
            if got.dtype != dta:
                out.append(("no-promotion:result-dtype-changed", f"{expr} with type promotion off: result {got.dtype}"))
                break
        elif got.dtype != want.dtype:
            out.append((f"{opname}:result-dtype", f"{expr}: spox gives {got.dtype}, numpy {want.dtype}"))
            break
        if got.shape != want.shape:
            out.append((f"{opname}:result-shape", f"{expr} on runtime shapes {ra}, {rb}: shape {got.shape}, numpy {want.shape}"))
            break
        if got.dtype != want.dtype:
            continue
        if claimed is not None and (len(claimed) != len(want.shape) or any(isinstance(d, int) and d != w for d, w in zip(claimed, want.shape))):
            out.append((f"{opname}:symbolic-shapes:claimed-shape-contradicted",
                        f"{expr}: the result is typed with shape {claimed}, but on conforming inputs of shapes {ra}, {rb} it has shape {want.shape}"))
            break
        if opname == "floordiv" and want.dtype.kind == "f":
            continue
        ok = agree(np, got, want, exact=opname in EXACT_OPS)
        if not ok.all():
            idx = tuple(np.argwhere(~ok)[0])
            out.append((f"{opname}:{'float' if want.dtype.kind == 'f' else 'int'}:wrong-value",
                        f"{expr} at a={xa.tolist()}, b={nb.tolist() if hasattr(nb, 'tolist') else nb}: spox {got[idx]!r}, numpy {want[idx]!r} at {idx}"))
            break
    return out


def gen_symbolic(rng, n_random, ND):
    """Cases: every overloaded operator x fixed + seeded shape pairs x dtypes x settings x call form."""
    cases = []

    def rshape():
        if rng.random() < 0.12:
            return None
        return [rng.choice(SYM_DIMS) for _ in range(rng.choice([0, 1, 1, 2, 2, 3]))]

    pairs = list(SYM_FIXED) + [(rshape(), rshape()) for _ in range(n_random)]
    num = list(range(11))
    for k, (sa, sb) in enumerate(pairs):
        for opname in BIN:
            st = rng.choice(SETTINGS[1:])
            da = rng.choice(num)
            db = rng.choice(num) if st[0] else da
            form = "reflected" if rng.random() < 0.25 else "op"
            cases.append({"op": opname, "da": da, "db": db, "sa": sa, "sb": sb, "settings": st, "form": form, "pick": k})
        for opname in (LOGIC if k < len(SYM_FIXED) else [LOGIC[k % 3]]):
            cases.append({"op": opname, "da": 11, "db": 11, "sa": sa, "sb": sb, "settings": rng.choice(SETTINGS[1:]),
                          "form": "reflected" if k % 4 == 3 else "op", "pick": k})
        # a Python scalar on either side of a Var with a symbolic shape
        opname = BIN[k % 5]
        d = rng.choice(num)
        sc = rng.choice([2, 3, -1] if d not in (4, 5, 6, 7) else [2, 3]) if rng.random() < 0.6 or d < 8 else 2.5
        cases.append({"op": opname, "da": d, "sa": sa, "kb": "scalar", "scalar": sc, "settings": [isinstance(sc, float) or rng.random() < 0.7, True],
                      "form": "swapped" if k % 2 else "op", "pick": k})
        cases.append({"op": "neg", "da": rng.choice([0, 1, 2, 3, 8, 9, 10]), "sa": sa, "settings": rng.choice(SETTINGS[1:]), "pick": k})
        cases.append({"op": "not_", "da": 11, "sa": sb, "settings": rng.choice(SETTINGS[1:]), "pick": k})
        # ONE Var in both operand slots
        opname = (BIN + LOGIC)[k % 8]
        d = 11 if opname in LOGIC else rng.choice(num)
        cases.append({"op": opname, "da": d, "db": d, "sa": sa, "sb": sa, "same": True, "settings": rng.choice(SETTINGS[1:]), "pick": k})
    ambients = [None, None, "vp:NONE", "vp:ONNXRUNTIME", "vp:REFERENCE", "tw:NONE", "tw:CRITICAL", "tw:OUTPUTS"]
    for i, c_ in enumerate(cases):
        # every opset module of ai.onnx, every value of the two unrelated scoped settings
        c_["opset"] = [17, 18, 19, 20, 21][(i + i // 5) % 5]
        amb = ambients[(i + i // 8) % 8]
        if amb:
            c_["ambient"] = amb
    return cases


def describe(env, opname, oa, ob):
    def d(o):
        if o is None:
            return ""
        if o[0] == "var":
            return f"Var[{env.dtypes[o[1]]}]"
        if o[0] == "np":
            return f"np.{env.dtypes[o[1]]}({o[2] if len(o) > 2 else 3})"
        return repr(env.realise(o))
    return f"{SYM[opname]}{d(oa)}" if opname in UNARY else f"{d(oa)} {SYM[opname]} {d(ob)}"


def float_probe(env: Env, dtname, x, y):
    """Floor(Div) vs numpy floor_divide on one float pair (the family of the listed finding)."""
    np = env.np
    dt = np.dtype(dtname)
    a = env.spox.argument(env.spox.Tensor(dt, ()))
    b = env.spox.argument(env.spox.Tensor(dt, ()))
    with env.fut.operator_overloading(env.op, type_promotion=True):
        r = a // b
    xa, xb = np.array(x, dt), np.array(y, dt)
    got, engine = env.run_model(r, {"a": a, "b": b}, {"a": xa, "b": xb})
    with np.errstate(all="ignore"):
        want = xa // xb
    if agree(np, np.asarray(got), np.asarray(want)).all():
        return None
    key = "floordiv:float:rounded-quotient" if classify_floordiv_float(np, xa, xb, got, want, dt) else "floordiv:float:wrong-value"
    return (key, f"Var[{dtname}] // Var[{dtname}] at a={x}, b={y}: spox {float(got)} (Floor(Div)), numpy {float(want)} ({engine})")


def strictness_case(env: Env, opname, oa, ob):
    """The statement about promotion switched off, judged on the real code only."""
    np = env.np
    out = []
    res, r, args = env.dispatch([False, True], opname, oa, ob)
    ka = [o[0] for o in (oa, ob)]
    dts = [env.dtypes[o[1]] for o in (oa, ob) if o[0] == "var"]
    must_raise = None
    if len(dts) == 2 and dts[0] != dts[1]:
        must_raise = "operands of different element types"
    elif "float" in ka and np.dtype(dts[0]).kind in "iu":
        must_raise = "a Python float meeting an integer Var"
    if must_raise:
        if res.get("err") != "TypeError":
            out.append((f"no-promotion:{'mixed-dtypes' if len(dts) == 2 else 'float-constant'}:not-TypeError",
                        f"{describe(env, opname, oa, ob)} with type promotion off ({must_raise}): {res}"))
    elif "tree" in res:
        if env.dtypes[res["dtype"]] != dts[0]:
            out.append(("no-promotion:result-dtype-changed", f"{describe(env, opname, oa, ob)}: result {env.dtypes[res['dtype']]}"))
        if "Cast[" in res["tree"].replace(f"Cast[{res['dtype']}](And", "And"):  # the fix's bool->int Cast is not a conversion of an operand
            out.append(("no-promotion:operand-converted", f"{describe(env, opname, oa, ob)}: {res['tree']}"))
    return out


def outside_case(env: Env, opname, oa, ob):
    res, _, _ = env.dispatch(None, opname, oa, ob)
    if res.get("err") != "TypeError":
        return [(f"outside-block:{opname}:not-TypeError",
                 f"{describe(env, opname, oa, ob)} outside operator_overloading: {res if 'err' in res else 'no error'}")]
    return []


CHECKS = {
    "value": lambda env, c: [(k, w) for k, w, _ in value_case(env, c["op"], c["a"], c.get("b"), tuple(c.get("settings", (True, True))), c.get("const_path", False))],
    "float_probe": lambda env, c: [x for x in [float_probe(env, c["dtype"], c["x"], c["y"])] if x],
    "strict": lambda env, c: strictness_case(env, c["op"], c["a"], c["b"]),
    "outside": lambda env, c: outside_case(env, c["op"], c["a"], c.get("b")),
    "history": lambda env, c: history_value_case(env, c["hist"])[0],
    "family": lambda env, c: family_case(env, c["block"])[0],
    "scoped": lambda env, c: scoped_case(env, c["prog"])[1],
    "symbolic": lambda env, c: symbolic_case(env, c),
    "shape": lambda env, c: shape_value_case(env, c["op"], c["da"], c["db"], tuple(c["sa"]), tuple(c["sb"])),
}


def run(ck: core.Check):
    from translator import result_type

    table = result_type.generate()
    ck.cov["generated_table"] = {"dtypes": table["dtypes"], "numpy": table["numpy"],
                                 "target_kinds": len(table["rt2"]), "onnx_ops": sorted(table["allowed"])}
    # wiring of Var's operator dunders to the dispatcher + inventory of the dispatcher classes (tie G ->
    # var_dunders_wired); digests of the covered function bodies vs the committed baseline: a changed body
    # (an added early check, a cache ...) escalates the seeded parts of this run to the thorough counts
    boost = False
    try:
        import json as _json
        from pathlib import Path

        from translator import var_dunders

        vd = var_dunders.generate()
        base_ = _json.loads((Path(__file__).resolve().parent.parent / "c17_source_baseline.json").read_text())["digests"]
        changed_ = sorted(k for k in set(base_) | set(vd["digests"]) if base_.get(k) != vd["digests"].get(k))
        boost = bool(changed_) and not os.environ.get("VERIF_NO_ESCALATE")
        ck.cov["operator_wiring"] = {"dunders": len(vd["wires"]), "opaque": [w[0] for w in vd["wires"] if w[1] == "opaque"],
                                     "changed_since_baseline": changed_}
        if boost:
            ck.notes.append(f"dispatcher / Var operator code differs from the committed baseline: {changed_} - seeded parts run with thorough counts")
    except Exception as e:  # noqa: BLE001
        ck.broken("generated", "C17 operator wiring inventory", f"{type(e).__name__}: {e}")
    ck.lean(["SpoxModel.Props.C17"], audit="SpoxModel.Audit.C17")
    if ck.thorough:
        ck.leanchecker(["SpoxModel.Props.C17"])

    env = Env(table)
    np = env.np
    rng = ck.rng
    ND = len(table["dtypes"])  # 12 (11 numeric + bool)
    NUM = list(range(11))
    saved = getattr(env.Var, "_operator_dispatcher", None)

    # ------------------------------------------------------------------ correspondence: dispatch decisions
    scal = [["int", 3], ["int", -1], ["int", 1000], ["int", 2 ** 40], ["float"], ["bool", True],
            ["other", "none"], ["other", "str"], ["other", "ellipsis"]] + [["np", d] for d in range(ND)]
    # malformed operands of other shapes: containers, numeric-looking strings, bytes, arrays, non-real numbers
    JUNK = ["list", "bytes", "numstr", "dtypestr", "arr0", "arr1", "fraction", "dict", "set", "gen", "varlist", "type"]
    # (a Python complex is not among them: with promotion on, the Var is first cast to complex128 - which ONNX Cast refuses,
    #  InferenceError - before the constant is looked at; operand kinds the model does not describe are left out)
    scal += [["other", k] for k in JUNK]
    # constants equal to a neutral element of some operator (0, 1, -1, 0.0, 1.0, -0.0, False) and numpy scalars 0 / 1
    scal += [["int", 0], ["int", 1], ["float", 0.0], ["float", 1.0], ["float", -0.0], ["float", -1.0], ["bool", False],
             ["float", 2.0], ["float", -3.0]]
    scal += [["np", d, v] for d in (2, 3, 9, 10, 4) for v in (0, 1)]
    pairs = [(["var", a], ["var", b]) for a in range(ND) for b in range(ND)]
    for d in range(ND):
        for s in scal:
            pairs.append((["var", d], s))
            if not (s[0] == "other" and len(s) > 1 and s[1] in ("arr0", "arr1")):
                pairs.append((s, ["var", d]))  # (an ndarray on the left is numpy's own dispatch, not the dispatcher's)
    cases = []
    for st in SETTINGS:
        for opname in BIN + LOGIC:
            ps = pairs
            if st is None or opname in LOGIC:
                # outside a block / logical operators: every answer is a TypeError or depends on the two
                # dtypes only; a seeded third of the scalar pairs is enough on top of all Var x Var pairs
                ps = pairs[: ND * ND] + [p for p in pairs[ND * ND:] if rng.random() < ck.pick(0.34, 1.0)]
            for oa, ob in ps:
                if st is None and oa[0] == "np":
                    continue  # outside a block numpy's own dispatch decides what happens; not the dispatcher's business
                cases.append((st, opname, oa, ob))
        for opname in UNARY:
            for d in range(ND):
                cases.append((st, opname, ["var", d], ["other"]))
    reqs = []
    for st, opname, oa, ob in cases:
        def enc(o):
            if o[0] == "float":
                return ["float"]
            if o[0] == "np":
                return ["np", o[1]]
            return ["other"] if o[0] == "other" else o
        reqs.append({"settings": st, "op": opname, "a": enc(oa), "b": enc(ob)})
    model = None
    try:
        model = ck.driver().ask_many("C17", reqs)
    except Exception as e:  # noqa: BLE001
        ck.broken("correspondence", "C17 driver", str(e))
    mism = 0
    stats = {"trees": 0, "TypeError": 0, "OverflowError": 0, "InferenceError": 0}
    for i, (st, opname, oa, ob) in enumerate(cases):
        via_op = oa[0] != "np"  # a numpy scalar on the left goes through numpy's own dispatch first
        try:
            res, _, _ = env.dispatch(st, opname, oa, ob, via_operator=via_op)
        except Exception as e:  # noqa: BLE001  (e.g. the dispatcher object is no longer where it was)
            res = {"unobservable": f"{type(e).__name__}: {e}"}
        ck.count(("dispatch", repr(st), opname, repr(oa), repr(ob)))
        if "unobservable" in res:
            stats["unobservable"] = stats.get("unobservable", 0) + 1
            if stats["unobservable"] <= 2:
                ck.broken("correspondence", "C17 dispatcher not observable", f"{describe(env, opname, oa, ob if opname not in UNARY else None)}: {res['unobservable']}")
            continue
        if "err" in res:
            stats[res["err"]] = stats.get(res["err"], 0) + 1
        else:
            stats["trees"] += 1
        mi = model[i] if model is not None else None
        if mi is not None and "tree" in mi:
            for k_, o_ in enumerate((oa, ob)):
                if o_[0] in ("int", "float", "bool", "np") and o_[0] != "other":
                    try:
                        if env.realise(o_) == 0:
                            mi = dict(mi, tree=mi["tree"].replace(":0]", f":#{k_}]"))
                    except Exception:  # noqa: BLE001
                        pass
        if mi is not None and mi != res:
            mism += 1
            if mism <= 4:
                ck.broken("correspondence", "C17 dispatcher model-vs-implementation",
                          f"settings={st} {describe(env, opname, oa, ob if opname not in UNARY else None)}: model {mi} real {res}")
        ck.sample({"settings": st, "expr": describe(env, opname, oa, ob if opname not in UNARY else None), "real": res}, 4)
    env.restore_dispatcher(saved)
    ck.cov["dispatch_cases"] = len(cases)
    ck.cov["dispatch_mismatches"] = mism
    ck.cov["dispatch_outcomes"] = stats
    ck.cov["trees_read_from_modelproto"] = env.tree_fallbacks
    if env.tree_fallbacks:
        ck.notes.append(f"{env.tree_fallbacks} operator trees were read from the built ModelProto (Var/Node internals not where they used to be)")

    # ------------------------------------------------------------------ oracle: values vs numpy (+ eval correspondence)
    def fail(kind, case, found):
        for key, what in found:
            ck.failure(key, what, dict(case, check=kind))

    def safely(fn, *a):
        try:
            return fn(*a)
        except Exception as e:  # noqa: BLE001
            ck.broken("correspondence", "C17 strictness/outside oracle could not observe spox", f"{type(e).__name__}: {e}")
            return []

    value_cases = []
    for opname in BIN:
        for a in NUM:
            for b in NUM:
                value_cases.append((opname, ["var", a], ["var", b]))
        for d in NUM:
            for s in [["int", 2], ["int", -7], ["int", -1], ["int", 3], ["float", 10.0], ["float", 0.5], ["float", -2.5], ["bool", True],
                      ["int", 0], ["int", 1], ["float", 0.0], ["float", 1.0], ["float", -0.0], ["float", -1.0], ["bool", False],
                      # non-finite / out-of-range / denormal Python floats, ints at the edges of the small integer types
                      ["float", float("inf")], ["float", float("nan")], ["float", 1e40], ["float", 1e-320],
                      ["int", 127], ["int", -128], ["int", 255]]:
                value_cases.append((opname, ["var", d], s))
                value_cases.append((opname, s, ["var", d]))
            for s in [["np", 9, 0], ["np", 9, 1], ["np", 3, 0], ["np", 3, 1], ["np", 10, 1]]:
                value_cases.append((opname, ["var", d], s))  # (a numpy scalar on the left goes through numpy first)
    for d in NUM:
        value_cases.append(("neg", ["var", d], None))
    for opname in LOGIC:
        value_cases.append((opname, ["var", 11], ["var", 11]))
    value_cases.append(("not_", ["var", 11], None))
    n_eval = 0
    eval_mism = 0
    eval_reqs, eval_real = [], []
    engines = {}
    def crash_failure(opname, oa, ob, res, extra=None):
        what = (f"{describe(env, opname, oa, ob)}: the runtime died ({res[1]}) on the model spox built, on operand values "
                "for which numpy computes a result" if res[0] == "crash" else
                f"{describe(env, opname, oa, ob)}: {res[1]}")
        if res[0] == "exc" and res[1].split(":")[0] in ("AttributeError", "ImportError", "ModuleNotFoundError", "NameError"):
            ck.broken("correspondence", "C17 value oracle could not observe spox", what)
            return
        ck.failure(f"{opname}:{'runtime-crash' if res[0] == 'crash' else 'oracle-exception'}", what,
                   dict({"check": "value", "op": opname, "a": oa, "b": ob}, **(extra or {})))

    results = forked_batch(lambda c: value_case(env, *c), value_cases)
    for (opname, oa, ob), res in zip(value_cases, results):
        ck.count(("value", opname, repr(oa), repr(ob)))
        if res[0] != "ok":
            crash_failure(opname, oa, ob, res)
            continue
        for key, what, _ in res[1]:
            ck.failure(key, what, {"check": "value", "op": opname, "a": oa, "b": ob})
    ck.cov["value_cases"] = len(value_cases)

    # propagated-value path (constants instead of arguments) on a seeded sample, all operators
    prop_cases = rng.sample(value_cases, ck.pick(60, 400))
    results = forked_batch(lambda c: value_case(env, *c, const_path=True), prop_cases)
    for (opname, oa, ob), res in zip(prop_cases, results):
        ck.count(("value-prop", opname, repr(oa), repr(ob)))
        if res[0] != "ok":
            crash_failure(opname, oa, ob, res, {"const_path": True})
            continue
        for key, what, _ in res[1]:
            ck.failure(key, what + " [propagated value]", {"check": "value", "op": opname, "a": oa, "b": ob, "const_path": True})

    # eval correspondence: the model's integer semantics of the emitted tree vs onnxruntime
    INT = list(range(8))

    def ort_grid(job):
        opname, a, b = job
        dt_a = env.dtypes[a]
        xs = grid(np, dt_a)
        if isinstance(b, tuple) and b[0] == "np":
            # a numpy integer scalar next to an integer Var: theorems arith_npscalar_right/left. On the left the
            # dispatcher method is called directly (Python hands `np.int32(3) - var` to numpy first)
            _, side, db, v = b
            npv = np.dtype(env.dtypes[db]).type(v)
            vv = grid(np, dt_a, divisor=(opname == "floordiv" and side == "l"))
            if opname == "floordiv" and side == "l":
                vv = vv[vv != -1]
            va = env.spox.argument(env.spox.Tensor(np.dtype(dt_a), ("N",)))
            with env.fut.operator_overloading(env.op, type_promotion=True):
                rr = PYOP[opname](va, npv) if side == "r" else getattr(env.dispatcher(), opname)(npv, va)
            if np.dtype(rr.type.dtype).kind not in "iu":
                return None
            got, _ = env.run_model(rr, {"a": va}, {"a": vv})
            if side == "r":
                return ({"settings": [True, True], "op": opname, "a": ["var", a], "b": ["np", db],
                         "xs": [int(t) for t in vv], "ys": [v]}, [[int(t)] for t in got])
            return ({"settings": [True, True], "op": opname, "a": ["np", db], "b": ["var", a],
                     "xs": [v], "ys": [int(t) for t in vv]}, [[int(t) for t in got]])
        if isinstance(b, tuple):
            # a Python int on the right ("r") or on the left ("l") of an integer Var: theorems arith_scalar_right/left
            side, v = b
            vv = grid(np, dt_a, divisor=(opname == "floordiv" and side == "l"))
            if opname == "floordiv" and side == "l":
                vv = vv[vv != -1]
            va = env.spox.argument(env.spox.Tensor(np.dtype(dt_a), ("N",)))
            with env.fut.operator_overloading(env.op, type_promotion=True):
                rr = PYOP[opname](va, v) if side == "r" else PYOP[opname](v, va)
            got, _ = env.run_model(rr, {"a": va}, {"a": vv})
            if side == "r":
                return ({"settings": [True, True], "op": opname, "a": ["var", a], "b": ["int", v],
                         "xs": [int(t) for t in vv], "ys": [v]}, [[int(t)] for t in got])
            return ({"settings": [True, True], "op": opname, "a": ["int", v], "b": ["var", a],
                     "xs": [v], "ys": [int(t) for t in vv]}, [[int(t) for t in got]])
        if opname == "neg":
            va = env.spox.argument(env.spox.Tensor(np.dtype(dt_a), ("N",)))
            with env.fut.operator_overloading(env.op, type_promotion=True):
                rr = -va
            got, _ = env.run_model(rr, {"a": va}, {"a": xs})
            return ({"settings": [True, True], "op": "neg", "a": ["var", a], "b": ["other"],
                     "xs": [int(v) for v in xs], "ys": [0]}, [[int(v)] for v in got])
        dt_b = env.dtypes[b]
        ys = grid(np, dt_b, divisor=(opname == "floordiv"))
        if opname == "floordiv":
            ys = ys[ys != -1]
        res, r, args = env.dispatch([True, True], opname, ["var", a], ["var", b])
        if "tree" not in res or np.dtype(env.dtypes[res["dtype"]]).kind not in "iu":
            return None
        va = env.spox.argument(env.spox.Tensor(np.dtype(dt_a), ("N", 1)))
        vb = env.spox.argument(env.spox.Tensor(np.dtype(dt_b), ("M",)))
        with env.fut.operator_overloading(env.op, type_promotion=True):
            rr = PYOP[opname](va, vb)
        got, _ = env.run_model(rr, {"a": va, "b": vb}, {"a": xs.reshape(-1, 1), "b": ys})
        return ({"settings": [True, True], "op": opname, "a": ["var", a], "b": ["var", b],
                 "xs": [int(v) for v in xs], "ys": [int(v) for v in ys]}, [[int(v) for v in row] for row in got])

    jobs = [(opname, a, b) for opname in ["add", "sub", "mul", "floordiv"] for a in INT for b in INT]
    jobs += [("neg", a, None) for a in range(4)]
    for opname in ["add", "sub", "mul", "floordiv"]:
        for a in (0, 2, 4, 6):  # int8, int32, uint8, uint32 Vars x numpy scalars of three dtypes
            for db, v in ((2, 1000), (1, -7), (4, 200)):
                jobs.append((opname, a, ("np", "r", db, v)))
                jobs.append((opname, a, ("np", "l", db, v)))
    for opname in ["add", "sub", "mul", "floordiv"]:
        for a in INT:
            signed = np.dtype(env.dtypes[a]).kind == "i"
            for v in ([2, -3, 7, 1] if signed else [2, 3, 7, 1]):
                jobs.append((opname, a, ("r", v)))
                jobs.append((opname, a, ("l", v)))
    for job, res in zip(jobs, forked_batch(ort_grid, jobs)):
        if res[0] != "ok":
            ck.broken("correspondence", "C17 integer semantics (eval) vs onnxruntime", f"{job}: {res}")
        elif res[1] is not None:
            eval_reqs.append(res[1][0])
            eval_real.append(res[1][1])
    if model is not None:
        try:
            outs = ck.driver().ask_many("C17", eval_reqs)
            for rq, o, real in zip(eval_reqs, outs, eval_real):
                n_eval += sum(len(r) for r in real)
                if o.get("vals") != real:
                    eval_mism += 1
                    if eval_mism <= 3:
                        ck.broken("correspondence", "C17 integer semantics (eval) vs onnxruntime",
                                  f"{rq['op']} {rq['a']} {rq['b']}: model {str(o.get('vals'))[:200]} onnxruntime {str(real)[:200]}")
        except Exception as e:  # noqa: BLE001
            ck.broken("correspondence", "C17 driver eval", str(e))
    ck.count(None, n_eval)
    ck.cov["eval_points_vs_onnxruntime"] = n_eval
    ck.cov["eval_mismatches"] = eval_mism



    # ------------------------------------------------------------------ operand shapes: rank 0 against rank >= 1, broadcasting pairs
    sh_cases = []
    for opname in ("add", "mul", "truediv"):
        for a in NUM:
            for b in NUM:
                for sa, sb in SHAPE_PAIRS:
                    sh_cases.append((opname, a, b, sa, sb))
    if not ck.thorough:
        core_pairs = {((), (3,)), ((2, 3), ())}
        sh_cases = [c for c in sh_cases if (c[0] == "add" and (c[3], c[4]) in core_pairs) or rng.random() < 0.06]
    sh_mism = 0
    try:
        sh_reqs = [{"settings": [True, True], "op": o_, "a": ["var", a], "b": ["var", b]} for o_, a, b, _, _ in sh_cases]
        sh_model = ck.driver().ask_many("C17", sh_reqs) if model is not None else None
    except Exception as e:  # noqa: BLE001
        ck.broken("correspondence", "C17 driver (shapes)", str(e))
        sh_model = None
    for k, (o_, a, b, sa, sb) in enumerate(sh_cases):
        try:
            res, _, _ = env.dispatch([True, True], o_, ["var", a, list(sa)], ["var", b, list(sb)])
        except Exception as e:  # noqa: BLE001
            res = {"unobservable": f"{type(e).__name__}: {e}"}
        ck.count(("dispatch-shape", o_, a, b, sa, sb))
        if sh_model is not None and "unobservable" not in res and sh_model[k] != res:
            sh_mism += 1
            if sh_mism <= 3:
                ck.broken("correspondence", "C17 dispatcher model-vs-implementation (operand shapes)",
                          f"Var[{env.dtypes[a]}{list(sa)}] {SYM[o_]} Var[{env.dtypes[b]}{list(sb)}]: model (shape-blind) {sh_model[k]} real {res}")
    sv_cases = [c for c in sh_cases if c[3] != c[4]] + [("sub", a, b, (), (3,)) for a in NUM for b in NUM if rng.random() < ck.pick(0.15, 1.0)] \
        + [("floordiv", a, b, (3,), ()) for a in NUM for b in NUM if rng.random() < ck.pick(0.15, 1.0)]
    for c, res in zip(sv_cases, forked_batch(lambda c_: shape_value_case(env, *c_), sv_cases)):
        ck.count(("value-shape",) + c)
        case = {"check": "shape", "op": c[0], "da": c[1], "db": c[2], "sa": list(c[3]), "sb": list(c[4])}
        if res[0] != "ok":
            if res[0] == "exc" and res[1].split(":")[0] in ("AttributeError", "ImportError", "ModuleNotFoundError", "NameError"):
                ck.broken("correspondence", "C17 shape oracle could not observe spox", res[1])
            else:
                ck.failure(f"{c[0]}:runtime-crash" if res[0] == "crash" else f"{c[0]}:oracle-exception", f"{case}: {res[1]}", case)
            continue
        for key, what in res[1]:
            ck.failure(key, what, case)
    ck.cov["shape_cases"] = {"dispatch": len(sh_cases), "values": len(sv_cases), "dispatch_mismatches": sh_mism}


    # ------------------------------------------------------------------ symbolic static shapes (named / anonymous dims, unknown rank)
    sym_cases = gen_symbolic(rng, 200 if boost else ck.pick(36, 400), ND)
    sym_stats = {"cases": len(sym_cases), "with_runtime_inputs": 0, "dispatch_mismatches": 0}
    # (a) the dispatch decision must not depend on the static shapes (the model is shape-blind)
    sym_disp = [c for c in sym_cases if c.get("kb", "var") == "var" and c.get("form", "op") == "op"
                and sym_runtime_shapes(np, c["sa"], [] if c["op"] in UNARY else c["sb"], limit=1)]
    try:
        sym_reqs = [{"settings": c["settings"], "op": c["op"], "a": ["var", c["da"]],
                     "b": ["var", c["db"]] if c["op"] not in UNARY else ["other"]} for c in sym_disp]
        sym_model = ck.driver().ask_many("C17", sym_reqs) if model is not None else None
    except Exception as e:  # noqa: BLE001
        ck.broken("correspondence", "C17 driver (symbolic shapes)", str(e))
        sym_model = None
    for k, c in enumerate(sym_disp):
        try:
            with warnings.catch_warnings():
                warnings.simplefilter("ignore")
                res, _, _ = env.dispatch(c["settings"], c["op"], ["var", c["da"], c["sa"]],
                                         ["var", c["db"], c["sb"]] if c["op"] not in UNARY else ["other"])
        except Exception as e:  # noqa: BLE001
            res = {"unobservable": f"{type(e).__name__}: {e}"}
        if sym_model is not None and "unobservable" not in res and sym_model[k] != res:
            sym_stats["dispatch_mismatches"] += 1
            if sym_stats["dispatch_mismatches"] <= 3:
                ck.broken("correspondence", "C17 dispatcher model-vs-implementation (symbolic static shapes)",
                          f"settings={c['settings']} Var[{env.dtypes[c['da']]}{c['sa']}] {SYM[c['op']]} "
                          f"{'Var[' + env.dtypes[c['db']] + str(c['sb']) + ']' if c['op'] not in UNARY else ''}: model (shape-blind) {sym_model[k]} real {res}")
    env.restore_dispatcher(saved)
    # (b) model-free: builds, and onnxruntime on conforming runtime inputs that broadcast = numpy
    for c, res in zip(sym_cases, forked_batch(lambda c_: symbolic_case(env, c_), sym_cases, size=48)):
        ck.count(("symbolic", c["op"], repr(c["sa"]), repr(c.get("sb")), c.get("form", "op")))
        case = dict(c, check="symbolic")
        if sym_runtime_shapes(np, c["sa"], [] if (c["op"] in UNARY or c.get("kb") == "scalar") else c["sb"], limit=1):
            sym_stats["with_runtime_inputs"] += 1
        if res[0] != "ok":
            if res[0] == "exc" and res[1].split(":")[0] in ("AttributeError", "ImportError", "ModuleNotFoundError", "NameError"):
                ck.broken("correspondence", "C17 symbolic-shape oracle could not observe spox", res[1])
            else:
                ck.failure(f"{c['op']}:runtime-crash" if res[0] == "crash" else f"{c['op']}:oracle-exception", f"{case}: {res[1]}", case)
            continue
        for key, what in res[1]:
            ck.failure(key, what, case)
    ck.cov["symbolic_shape_cases"] = sym_stats
    if sym_stats["with_runtime_inputs"] < len(sym_cases) // 3:
        ck.broken("generator", "C17 symbolic shapes starved", str(sym_stats))

    # ------------------------------------------------------------------ expression histories (hidden state)
    n_hist_v, n_hist_c = (400, 600) if boost else (ck.pick(150, 1500), ck.pick(250, 2500))
    hists_v = list(FIXED_HISTORIES) + [gen_history(rng, True) for _ in range(n_hist_v)]
    hists_c = list(FIXED_HISTORIES) + [gen_history(rng, False) for _ in range(n_hist_c)]
    # round 10: composed logical expressions and unary minus inside integer expressions (own PRNG stream, so the
    # histories above are the ones earlier rounds ran per seed)
    import random as _random
    rng10 = _random.Random(f"C17-composed-{ck.seed}")
    n_comp = 120 if boost else ck.pick(40, 400)
    composed = list(R10_FIXED) + [gen_composed(rng10, "logic") for _ in range(n_comp)] + [gen_composed(rng10, "neg") for _ in range(n_comp)]
    hists_v = hists_v + composed
    comp_ops = {}
    for h in composed:
        for _, s_ in hist_steps(h["blocks"]):
            comp_ops[s_["op"]] = comp_ops.get(s_["op"], 0) + 1
    ck.cov["composed_expression_histories"] = {"fixed": len(R10_FIXED), "logical": n_comp, "signed_with_unary_minus": n_comp,
                                               "applications_by_operator": dict(sorted(comp_ops.items())),
                                               "settings_of_logical": "all four (seeded)", "truth_assignments": "all 2^n, n <= 3",
                                               "integer_values": "INT_MIN / INT_MAX of each Var's type + {-7,-3,-2,2,3,5}"}
    hist_mism = 0
    hstats = {"steps": 0, "reused_var_uses": 0, "nested": 0, "successive": 0}
    for h in hists_c + hists_v:
        sts = hist_steps(h["blocks"])
        hstats["steps"] += len(sts)
        uses = [tuple(r) for _, s_ in sts for r in (s_["a"], s_["b"]) if r is not None and r[0] in ("v", "r")]
        hstats["reused_var_uses"] += len(uses) - len(set(uses))
        hstats["nested"] += int(any(b.get("inner") for b in h["blocks"]))
        hstats["successive"] += int(len(h["blocks"]) > 1)
    if model is not None:
        try:
            drv = ck.driver()
            for h in hists_c + hists_v:
                try:
                    bad = history_corr_case(env, drv, h)
                except Exception as e:  # noqa: BLE001
                    bad = [f"history not observable: {type(e).__name__}: {e}"]
                ck.count(("history-corr", repr(h["vars"]), repr(h["blocks"])))
                if bad:
                    hist_mism += 1
                    if hist_mism <= 3:
                        ck.broken("correspondence", "C17 expression history model-vs-implementation", bad[0])
        except Exception as e:  # noqa: BLE001
            ck.broken("correspondence", "C17 history driver", str(e))
    env.restore_dispatcher(saved)
    results = forked_batch(lambda h: history_value_case(env, h), hists_v, size=32)
    for h, res in zip(hists_v, results):
        ck.count(("history-value", repr(h["vars"]), repr(h["blocks"])))
        if res[0] != "ok":
            if res[0] == "exc" and res[1].split(":")[0] in ("AttributeError", "ImportError", "ModuleNotFoundError", "NameError"):
                ck.broken("correspondence", "C17 history oracle could not observe spox", f"{describe_history(env, h)}: {res[1]}")
            else:
                ck.failure("history:runtime-crash" if res[0] == "crash" else "history:oracle-exception",
                           f"{describe_history(env, h)}: {res[1]}", {"check": "history", "hist": h})
            continue
        for key, what in res[1][0]:
            ck.failure(key, what, {"check": "history", "hist": h})
        hstats["intermediates_compared_with_numpy"] = hstats.get("intermediates_compared_with_numpy", 0) + res[1][1]
    ck.count(None, hstats.get("intermediates_compared_with_numpy", 0))
    if hstats.get("intermediates_compared_with_numpy", 0) < len(hists_v):
        ck.broken("generator", "C17 history oracle starved", f"only {hstats.get('intermediates_compared_with_numpy', 0)} intermediates compared")
    ck.cov["history_cases"] = {"correspondence": len(hists_c) + len(hists_v), "value_oracle": len(hists_v), **hstats}
    ck.cov["history_mismatches"] = hist_mism


    # ------------------------------------------------------------------ ==-equal scalar families inside one block (round 10)
    fam_blocks = gen_family_blocks(_random.Random(f"C17-families-{ck.seed}"), 150 if boost else ck.pick(60, 600))
    fam_stats = {"blocks": len(fam_blocks), "steps": sum(len(b["steps"]) for b in fam_blocks), "compared_bit_for_bit": 0,
                 "families": {k: [repr(x) for x in v] for k, v in EQ_FAMILIES.items()}, "paths": ["built model + onnxruntime", "propagated value"],
                 "var_values": FAM_VALUES}
    results = forked_batch(lambda b: family_case(env, b), fam_blocks, size=32)
    for b, res in zip(fam_blocks, results):
        ck.count(("family", b["family"], b["dtype"]))
        if res[0] != "ok":
            if res[0] == "exc" and res[1].split(":")[0] in ("AttributeError", "ImportError", "ModuleNotFoundError", "NameError"):
                ck.broken("correspondence", "C17 family oracle could not observe spox", f"{describe_family(env, b)}: {res[1]}")
            else:
                ck.failure("family:runtime-crash" if res[0] == "crash" else "family:oracle-exception",
                           f"{describe_family(env, b)}: {res[1]}", {"check": "family", "block": b})
            continue
        for key, what in res[1][0]:
            ck.failure(key, what, {"check": "family", "block": b})
        fam_stats["compared_bit_for_bit"] += res[1][1]
    ck.count(None, fam_stats["compared_bit_for_bit"])
    if fam_stats["compared_bit_for_bit"] < fam_stats["steps"]:
        ck.broken("generator", "C17 family oracle starved", str({k: fam_stats[k] for k in ("blocks", "steps", "compared_bit_for_bit")}))
    ck.cov["equal_scalar_families"] = fam_stats

    # ------------------------------------------------------------------ scoped histories (which settings are in force)
    progs = list(FIXED_SCOPED) + [gen_scoped(rng, rng.randrange(1, 9)) for _ in range(ck.pick(250, 2500))]
    sc_stats = {"programs": len(progs), "probes": 0, "outside_probes": 0, "recursive_or_shared_blocks": 0, "mismatches": 0}
    sc_model = None
    if model is not None:
        try:
            sc_model = ck.driver().ask_many("C17", [{"scoped": scoped_tree_json(pg)} for pg in progs])
        except Exception as e:  # noqa: BLE001
            ck.broken("correspondence", "C17 scoped driver", str(e))
    probe_reqs, probe_real = [], []
    for k, pg in enumerate(progs):
        try:
            probes, bad = scoped_case(env, pg)
        except Exception as e:  # noqa: BLE001
            ck.broken("correspondence", "C17 scoped history not observable", f"{type(e).__name__}: {e}")
            continue
        ck.count(("scoped", repr(pg)))
        encl = enclosing_settings(pg)
        sc_stats["probes"] += len(probes)
        sc_stats["outside_probes"] += sum(1 for x in encl if x is None)
        sc_stats["recursive_or_shared_blocks"] += repr(pg).count("'recursive'") + repr(pg).count("'mutual'")
        for key, what in bad:
            ck.failure(key, what, {"check": "scoped", "prog": pg})
        if sc_model is not None:
            m_set = sc_model[k].get("probes")
            if m_set != encl:
                ck.broken("correspondence", "C17 scoped model vs the enclosing-block reading", f"{pg}: model {m_set} expected {encl}")
                continue
            for st, res in zip(m_set, probes):
                for (opname, oa, ob), r in zip(PROBE_EXPRS, res):
                    probe_reqs.append({"settings": st, "op": opname, "a": oa if oa[0] != "float" else ["float"],
                                       "b": (ob if ob[0] != "float" else ["float"]) if ob is not None else ["other"]})
                    probe_real.append((pg, r))
    if probe_reqs:
        try:
            outs = ck.driver().ask_many("C17", probe_reqs)
            for rq, o, (pg, r) in zip(probe_reqs, outs, probe_real):
                if o != r:
                    sc_stats["mismatches"] += 1
                    if sc_stats["mismatches"] <= 3:
                        ck.broken("correspondence", "C17 scoped history model-vs-implementation",
                                  f"{pg}: settings in force per model {rq['settings']}, {rq['op']}: model {o} real {r}")
        except Exception as e:  # noqa: BLE001
            ck.broken("correspondence", "C17 scoped driver", str(e))
    ck.cov["scoped_histories"] = sc_stats
    if sc_stats["outside_probes"] < len(progs):
        ck.broken("generator", "C17 scoped histories starved", str(sc_stats))

    # float floor division: the family of the listed finding (quotients that round up to an integer)
    probes = [(1.0, 0.1), (6.0, 0.2), (0.3, 0.1), (7.0, 0.7), (2.0, 0.4), (-1.0, 0.1), (1.0, -0.1), (9.0, 0.3), (4.5, 1.5), (-7.0, 2.0)]
    pjobs = [(dtn, x, y) for dtn in ["float32", "float64"] for x, y in probes]
    for (dtn, x, y), res in zip(pjobs, forked_batch(lambda j: float_probe(env, *j), pjobs)):
        ck.count(("float-floordiv", dtn, x, y))
        if res[0] != "ok":
            ck.failure("floordiv:runtime-crash", f"float probe {dtn} {x} // {y}: {res}", {"check": "float_probe", "dtype": dtn, "x": x, "y": y})
        elif res[1]:
            ck.failure(res[1][0], res[1][1], {"check": "float_probe", "dtype": dtn, "x": x, "y": y})

    # promotion switched off; outside a block
    n_strict = 0
    for opname in BIN:
        for a in NUM:
            for b in NUM:
                fail("strict", {"op": opname, "a": ["var", a], "b": ["var", b]},
                     safely(strictness_case, env, opname, ["var", a], ["var", b]))
                n_strict += 1
            for s in [["float", 1.5], ["int", 2], ["float", 0.0], ["float", 1.0], ["float", -0.0], ["int", 0], ["int", 1],
                      ["float", 2.0], ["float", -3.0], ["float", float(2 ** 53)]]:
                for oa, ob in ((["var", a], s), (s, ["var", a])):
                    fail("strict", {"op": opname, "a": oa, "b": ob}, safely(strictness_case, env, opname, oa, ob))
                    n_strict += 1
    for opname in BIN + LOGIC:
        for oa, ob in [(["var", 2], ["var", 2]), (["var", 9], ["var", 2]), (["var", 2], ["int", 2]), (["int", 2], ["var", 2]),
                       (["var", 9], ["float", 1.5]), (["float", 1.5], ["var", 9]), (["var", 11], ["var", 11])]:
            fail("outside", {"op": opname, "a": oa, "b": ob}, safely(outside_case, env, opname, oa, ob))
            n_strict += 1
    for opname in UNARY:
        for d in [2, 9, 11, 4]:
            fail("outside", {"op": opname, "a": ["var", d]}, safely(outside_case, env, opname, ["var", d], None))
            n_strict += 1
    ck.count(None, n_strict)
    env.restore_dispatcher(saved)

    ck.exhaustive = True
    ck.rule = (
        "exhaustive over kinds: 10 operators x (12 x 12 Var dtype pairs + 12 dtypes x 21 scalar kinds x 2 sides) x "
        "{outside, 4 promotion settings} for the dispatch decision (a seeded third of the scalar pairs outside a block and "
        "for the logical operators in quick); 5 arithmetic operators x (11 x 11 numeric dtype pairs + 11 dtypes x 6 Python "
        "scalars x 2 sides) + neg + logical on the full value grids {-7,-2,-1,0,1,2,7,min,max(,0.5,-2.5)} with broadcasting "
        "shapes (N,1) x (M,) through onnxruntime; a seeded sample of them through value propagation; "
        "5 fixed + seeded-random expression histories (2-5 applications re-using the same Vars and earlier results, needing "
        "different casts per use, inside single / successive / nested blocks with different settings): per-step tree vs the "
        "model applied compositionally, and every intermediate through onnxruntime vs numpy; "
        "4 fixed + seeded-random scoped histories (forests of blocks as with / fresh decorator / one decorated function "
        "calling itself / two functions sharing a decorator object / generator suspended inside a block, bodies that raise): "
        "operator outcomes at every probe vs the stack-discipline model and vs the statement (outside => TypeError; inside => "
        "the enclosing block's rules); "
        "non-trivial = one (settings, operator, operand kinds) combination"
    )
    ck.assumptions += [
        "floating-point arithmetic of the runtime is IEEE (the Lean theorems cover the element type of float results, not their value; values are compared with numpy by the oracle)",
        "a numpy scalar on the left of an operator goes through numpy's own dispatch before reaching Var.__r*__ (it arrives as a Python scalar); the model describes the dispatcher methods, which are called directly for that case",
        "division by zero and INT_MIN // -1 are excluded from the value grids",
    ]


def replay(ck: core.Check, doc) -> bool:
    from translator import result_type

    if doc.get("kind") == "obligation":
        run(ck)
        for b in ck.broken_items:
            print(f"still broken: {b['kind']} {b['name']}")
        return bool(ck.broken_items or ck.failures)
    env = Env(result_type.tabulate())
    case = doc["case"]
    saved = getattr(env.Var, "_operator_dispatcher", None)
    res = forked(lambda c: CHECKS[c["check"]](env, c), case)
    env.restore_dispatcher(saved)
    if res[0] != "ok":
        print(f"runtime failure on this input: {res}")
        return True
    found = res[1]
    for key, what in found:
        print(f"{key}: {what}")
    return bool(found)
