"""C04 — each operator application is emitted once, in the innermost enclosing scope.

run(ck):
  1. prove       lake build Props.C04 (+ axiom audit): theorems about Model/BuildAlg.lean
  2. correspond  tie H: every generated program is realised with the real constructors (`if_`/`loop`
                 callbacks with closures and side effects; low-level `Graph` API for shared Graph
                 objects / shared argument lists), `Builder(graph).build_main()` is run and its
                 `graph_topo`, `arguments_of`, `scope_tree.scope_of`, `scope_own`, nested emission
                 and error class are compared *exactly* with the Lean model's (driver); the final
                 `onnx.checker` verdict is compared with the model's structural check
  3. search      model-free oracle on the real ModelProto (lib_buildalg.oracle): multiplicity of every
                 operator application, placement = independent LCA over the proto nesting of its
                 direct uses, argument-dependent values inside their body, leaking programs rejected,
                 well-scoped programs built
"""
from __future__ import annotations

import json
import multiprocessing as mp
import random

from harness import core

_KINDS = ("script", "ap")


def eval_case(case: dict) -> dict:
    """Realise, build with the real Builder, judge with the model-free oracle. Picklable result."""
    core.use_repo_on_path()
    from harness import lib_buildalg as L

    out: dict = {"case": case}
    try:
        if case["kind"] == "script":
            R = L.realise_script(case["script"])
        else:
            R = L.realise_lowlevel(case["ap"])
    except Exception as e:  # noqa: BLE001 - not constructible with the real constructors: not a build matter
        out["unrealisable"] = f"{type(e).__name__}: {str(e)[:100]}"
        return out
    ap = R.ap
    out["ap"] = ap
    o = L.observe(R)
    out["real"] = L.real_view(o)
    out["model_err"] = o.get("model_err")
    out["msg"] = o.get("msg")
    out["oracle"] = L.oracle(ap, o)
    leaked, _ = L.ap_free_args(ap)
    reach = L.ap_reachable(ap)
    out["leaky"] = bool({a for a in leaked if a in reach})
    out["reuse"] = L.ap_reuse(ap)
    if case.get("public") and ap["graphs"][0]["args"] is not None:
        # the public entry point must come to the same verdict and pass the same oracle
        o3 = L.observe_public(R)
        built1 = o["ok"] and o.get("model_err") is None
        out["public_same"] = bool(o3["ok"]) == bool(built1)
        for k, w in L.oracle(ap, o3):
            if (k, w) not in out["oracle"]:
                out["oracle"].append((k, "via spox.build: " + w))
    if case.get("twin"):
        # the same abstract program through the low-level API must look the same to the Builder
        try:
            o2 = L.observe(L.realise_lowlevel(ap))
            out["twin_same"] = L.real_view(o2) == out["real"] and o2.get("model_err") == out["model_err"]
        except Exception as e:  # noqa: BLE001
            out["twin_same"] = f"{type(e).__name__}: {str(e)[:100]}"
    return out


def _depth(ap: dict) -> int:
    owner = {}
    for n, nd in enumerate(ap["nodes"]):
        for g in nd["s"]:
            owner.setdefault(g, n)
    return len(ap["graphs"])


def gen_cases(ck: core.Check) -> tuple[list[dict], dict]:
    from harness import lib_buildgen as G

    rng = ck.rng
    cases: list[dict] = []
    stats = {}
    # (i) exhaustive skeletons
    n0 = len(cases)
    for d, sc in G.skeletons(3, 1):
        cases.append({"kind": "script", "script": sc, "descr": d, "family": "skeleton-k1"})
    stats["skeleton_k1_exhaustive_trees<=3_bodies"] = len(cases) - n0
    n0 = len(cases)
    if ck.thorough:
        for d, sc in G.skeletons(3, 2):
            cases.append({"kind": "script", "script": sc, "descr": d, "family": "skeleton-k2"})
        stats["skeleton_k2_exhaustive_trees<=3_bodies"] = len(cases) - n0
        n0 = len(cases)
        for d, sc in G.skeletons(4, 1):
            cases.append({"kind": "script", "script": sc, "descr": d, "family": "skeleton-k1-b4"})
        stats["skeleton_k1_exhaustive_trees<=4_bodies"] = len(cases) - n0
        n0 = len(cases)
        for d, sc in G.skeletons(3, 3, rng, sample=600):
            cases.append({"kind": "script", "script": sc, "descr": d, "family": "skeleton-k3"})
        stats["skeleton_k3_sampled"] = len(cases) - n0
    else:
        for d, sc in G.skeletons(3, 2, rng, sample=700):
            cases.append({"kind": "script", "script": sc, "descr": d, "family": "skeleton-k2"})
        stats["skeleton_k2_sampled"] = len(cases) - n0
        n0 = len(cases)
        for d, sc in G.skeletons(4, 2, rng, sample=12):
            cases.append({"kind": "script", "script": sc, "descr": d, "family": "skeleton-k2-b4"})
        stats["skeleton_k2_b4_sampled"] = len(cases) - n0
        n0 = len(cases)
        for d, sc in G.skeletons(3, 3, rng, sample=60):
            cases.append({"kind": "script", "script": sc, "descr": d, "family": "skeleton-k3"})
        stats["skeleton_k3_sampled"] = len(cases) - n0
    # (ii) seeded random programs
    n0 = len(cases)
    for i in range(ck.pick(2400, 12000)):
        leak_p = [0.0, 0.0, 0.05, 0.3][i % 4]
        sc = G.random_script(rng, rng.randrange(3, 28), leak_p)
        cases.append({"kind": "script", "script": sc, "family": f"random-leak{leak_p}"})
    stats["random_scripts"] = len(cases) - n0
    for i, c in enumerate(cases):
        if i % 4 == 0:
            c["twin"] = True
        if i % 8 == 3:
            c["public"] = True
    return cases, stats


def variant_cases(ck: core.Check, results: list[dict]) -> list[dict]:
    """Low-level misuse variants of (a slice of) the programs that were realised."""
    from harness import lib_buildgen as G

    rng = random.Random(ck.seed * 7919 + 13)
    out = []
    pool = [r for r in results if "ap" in r and any(n["s"] for n in r["ap"]["nodes"])]
    rng.shuffle(pool)
    for name, q in G.handmade_aps():
        out.append({"kind": "ap", "ap": q, "family": "handmade:" + name})
    for r in pool[: ck.pick(160, 1500)]:
        for name, q in G.ap_variants(r["ap"], rng):
            out.append({"kind": "ap", "ap": q, "family": "variant:" + name})
    return out


def run_cases(ck: core.Check, cases: list[dict]) -> list[dict]:
    if len(cases) < 200:
        return [eval_case(c) for c in cases]
    with mp.get_context("fork").Pool(12) as pool:
        return pool.map(eval_case, cases, chunksize=max(1, len(cases) // 240))


def run(ck: core.Check, prove: bool = True):
    from harness import lib_buildalg as L

    if prove:
        ck.lean(["SpoxModel.Props.C04"], audit="SpoxModel.Audit.C04")
        if ck.thorough:
            ck.leanchecker(["SpoxModel.Props.C04"])
    ck.trusted_base += [
        "hand-written model Model/BuildAlg.lean of spox._build.Builder (tie H: exact correspondence on every run)",
        "onnx.checker's structural rule (modelled by BuildAlg.structOk, compared with the real checker on every built case)",
        "harness: abstract-program recording in lib_buildalg.realise_script / realise_lowlevel (cross-checked: both realisations of one abstract program must look the same to the Builder)",
    ]
    ck.assumptions += [
        "creation order: a node is created after its inputs and after the graphs in its attributes (Prog.WF; checked on every generated program by the driver)",
        "sibling-scope leaks are rejected by onnx.checker at the end of build (third party); the model states the structural rule as structOk",
    ]
    ck.rule = (
        "exact equality (ids, order) of graph_topo, arguments_of, scope_of, scope_own, nested emission, error class "
        "between the real Builder and the Lean model; oracle: each reachable operator application exactly once in the "
        "nested ModelProto, unreachable ones never, position = LCA of its direct uses in the proto nesting, "
        "argument-dependent values inside the owning body, leaking programs raise, well-scoped programs build"
    )

    cases, gstats = gen_cases(ck)
    results = run_cases(ck, cases)
    vcases = variant_cases(ck, results)
    results += run_cases(ck, vcases)
    ck.cov["generated"] = gstats
    ck.cov["generated"]["lowlevel_variants"] = len(vcases)
    ck.log(f"{len(results)} programs realised and built with the real Builder")

    todo = [r for r in results if "ap" in r]
    try:
        answers = ck.driver().ask_many("C04", [L.ap_for_model(r["ap"]) for r in todo])
        if len(answers) != len(todo):
            raise RuntimeError(f"driver answered {len(answers)} of {len(todo)} requests")
    except Exception as e:  # noqa: BLE001
        ck.broken("correspondence", "C04 driver", str(e))
        answers = [None] * len(todo)

    stats = {
        "unrealisable": sum(1 for r in results if "unrealisable" in r),
        "built": 0,
        "error_classes": {},
        "checker_rejections": 0,
        "leaky_programs": 0,
        "reuse_programs": 0,
        "max_nodes": 0,
        "max_graphs": 0,
        "families": {},
        "wf_false": 0,
    }
    mism = 0
    fails: dict[str, tuple[int, dict, str]] = {}
    for r, m in zip(todo, answers):
        ap, real = r["ap"], r["real"]
        fam = r["case"].get("family", "?")
        stats["families"][fam] = stats["families"].get(fam, 0) + 1
        stats["max_nodes"] = max(stats["max_nodes"], len(ap["nodes"]))
        stats["max_graphs"] = max(stats["max_graphs"], len(ap["graphs"]))
        stats["leaky_programs"] += int(r["leaky"])
        stats["reuse_programs"] += int(r["reuse"])
        if real["ok"]:
            stats["built"] += 1
            if r["model_err"]:
                stats["checker_rejections"] += 1
        else:
            stats["error_classes"][real["err"]] = stats["error_classes"].get(real["err"], 0) + 1
        ck.count(json.dumps(L.ap_for_model(ap), sort_keys=True) if len(ap["graphs"]) > 1 else None)
        if len(ck.samples) < 3 and real["ok"] and len(ap["graphs"]) >= 3:
            ck.sample({"abstract_program": L.ap_for_model(ap), "real_scope_of": real["scope_of"], "real_trace": real["trace"]}, 3)
        # --- correspondence
        if m is not None:
            if "error" in m:
                ck.broken("correspondence", "C04 driver request", str(m)[:200])
            else:
                if not m.get("wf"):
                    stats["wf_false"] += 1
                mv = L.model_view(m)
                if mv != real:
                    mism += 1
                    which = "error-class" if not (mv["ok"] and real["ok"]) else next(
                        k for k in ("graph_topo", "args_of", "scope_of", "scope_own", "trace") if mv[k] != real[k]
                    )
                    if mism <= 5:
                        ck.broken(
                            "correspondence",
                            f"Builder model vs real Builder: {which}",
                            json.dumps({"ap": L.ap_for_model(ap),
                                        "real": {"ok": real["ok"], "err": real.get("err")} if which == "error-class" else {which: real[which]},
                                        "model": {"ok": mv["ok"], "err": mv.get("err")} if which == "error-class" else {which: mv.get(which)}})[:1400],
                        )
                elif real["ok"] and bool(m["struct_ok"]) != (r["model_err"] is None):
                    mism += 1
                    ck.broken(
                        "correspondence",
                        "structural check (model) vs onnx.checker at the end of build",
                        json.dumps({"ap": L.ap_for_model(ap), "model_struct_ok": m["struct_ok"], "real": r["model_err"]})[:1400],
                    )
        if r.get("public_same") is False:
            mism += 1
            ck.broken("correspondence", "spox.build (public) vs Builder.build_main + to_onnx_model: different verdict",
                      json.dumps({"ap": L.ap_for_model(ap)})[:1400])
        if r.get("twin_same") not in (None, True):
            mism += 1
            ck.broken("correspondence", "callback realisation vs low-level realisation of the same abstract program",
                      json.dumps({"ap": L.ap_for_model(ap), "twin": r["twin_same"]})[:1400])
        # --- oracle verdicts
        for key, what in r["oracle"]:
            size = L.ap_size(ap)
            if key not in fails or size < fails[key][0]:
                fails[key] = (size, r["case"], what)
    if stats["wf_false"]:
        ck.broken("correspondence", "generated abstract program is not in creation order (harness)", str(stats["wf_false"]))
    ck.cov["correspondence_mismatches"] = mism
    ck.cov["stats"] = stats
    ck.exhaustive = False
    for key, (_, case, what) in sorted(fails.items()):
        ck.failure(key, what, case, how="realise the case (script: if_/loop callbacks; ap: low-level Graph API), build, inspect the ModelProto")
    ck.log(f"correspondence mismatches: {mism}; oracle failure kinds: {sorted(fails)}")


def replay(ck: core.Check, doc: dict) -> bool:
    if "case" not in doc:
        # an `obligation` replay (a correspondence no longer checks, no failing input was found):
        # re-run the correspondence and the oracle of the recorded seed against the current tree
        run(ck, prove=False)
        for b in ck.broken_items:
            print(f"still broken: {b['kind']}: {b['name']}")
        for f in ck.failures:
            print(f"{f['key']}: {f['what']}")
        if ck._driver:
            ck._driver.close()
        return bool(ck.broken_items or ck.failures)
    case = doc["case"]
    r = eval_case(case)
    if "unrealisable" in r:
        print("case cannot be constructed:", r["unrealisable"])
        return False
    for key, what in r["oracle"]:
        print(f"{key}: {what}")
    want = doc.get("key")
    keys = [k for k, _ in r["oracle"]]
    return (want in keys) if want else bool(keys)
