"""C04 — each operator application is emitted once, in the innermost enclosing scope.

run(ck):
  1. prove       lake build Props.C04 (+ axiom audit): theorems about Model/BuildAlg.lean
  2. correspond  tie H: every generated program is realised with the real constructors (`if_`/`loop`
                 callbacks with closures and side effects; low-level `Graph` API for shared Graph
                 objects / shared argument lists), `Builder(graph).build_main()` is run and its
                 `graph_topo`, `arguments_of`, `scope_tree.scope_of`, `scope_own`, nested emission
                 and error class are compared *exactly* with the Lean model's (driver); the final
                 `onnx.checker` verdict is compared with the model's structural check
  3. search      model-free oracle on the real ModelProto (lib_buildalg.oracle): multiplicity of every
                 operator application, placement = independent LCA over the proto nesting of its
                 direct uses, argument-dependent values inside their body, leaking programs rejected,
                 well-scoped programs built
"""
from __future__ import annotations

import json
import multiprocessing as mp
import random

from harness import core

_KINDS = ("script", "ap")
_WORKERS = max(4, min(16, __import__("os").cpu_count() or 12))


def _observe_all(L, R, ap) -> dict:
    """Oracle first (public surface + proto only), then every observable facet, each guarded."""
    out: dict = {"infra": []}
    pub = L.build_public(R)
    out["verdict"] = "ok" if pub["ok"] else str(pub["err"])
    out["msg"] = pub.get("msg")
    # --- model-free oracle: nothing of Builder's internals is involved
    out["oracle"] = L.oracle(ap, pub)
    # --- emission read from the proto
    proto = pub["_model"] if pub["ok"] else pub.get("_unchecked")
    out["trace"] = None
    if proto is not None:
        try:
            out["trace"] = L.trace_from_proto(ap, proto)
        except Exception as e:  # noqa: BLE001
            out["unobservable"] = {"trace": f"{type(e).__name__}: {e}"[:200]}
    # --- Builder internals, facet by facet
    try:
        io = L.observe_internals(R)
    except Exception as e:  # noqa: BLE001 - observe_internals guards itself; belt and braces
        io = {"facets": {}, "unobservable": {f: f"{type(e).__name__}: {e}"[:200] for f in L.INTERNAL_FACETS}, "ok": None, "err": None}
    out["facets"] = io["facets"]
    out.setdefault("unobservable", {}).update(io["unobservable"])
    out["internal_verdict"] = None if io["ok"] is None else ("ok" if io["ok"] else io["err"])
    return out


def eval_case(case: dict) -> dict:
    """Realise, build through the public surface, judge with the model-free oracle, then observe the
    Builder's internals. Picklable result; never raises (an unexpected exception becomes `infra`)."""
    out: dict = {"case": case}
    if case.get("_selftest_crash"):
        import os
        import signal

        os.kill(os.getpid(), signal.SIGSEGV)  # self-test of the isolation only (tools/mut_c04.py --crash-selftest)
    try:
        core.use_repo_on_path()
        from harness import lib_buildalg as L

        _deep_recursion()
        with L.ambient(case.get("amb")):
            return _eval_case(L, case, out)
    except Exception as e:  # noqa: BLE001 - never let one case take the run down
        import traceback

        out["infra_error"] = f"{type(e).__name__}: {e}"[:300] + " | " + traceback.format_exc()[-400:]
    return out


def _deep_recursion():
    import sys

    if sys.getrecursionlimit() < 20000:
        sys.setrecursionlimit(20000)  # dependency chains of > 1000 operators (the helpers here recurse)


def _eval_case(L, case: dict, out: dict) -> dict:
    try:
        try:
            pal = case.get("pal")
            if case["kind"] == "script":
                R = L.realise_script(case["script"], pal=pal)
            else:
                R = L.realise_lowlevel(case["ap"], pal=pal)
        except Exception as e:  # noqa: BLE001 - not constructible with the real constructors: not a build matter
            out["unrealisable"] = f"{type(e).__name__}: {str(e)[:100]}"
            return out
        ap = R.ap
        out["ap"] = ap
        leaked, _ = L.ap_free_args(ap)
        reach = L.ap_reachable(ap)
        out["leaky"] = bool({a for a in leaked if a in reach})
        out["reuse"] = L.ap_reuse(ap)
        out.update(_observe_all(L, R, ap))
        if R.merged:
            # counted at the call site: two constructor calls of the program returned one node object,
            # so two operator applications made in Python can only appear as one node of the model
            a, b_ = R.merged[0]
            out["oracle"].append((
                "call-sites-merged",
                f"operator applications {a} and {b_} ({ap['nodes'][b_]['k']}) are two constructor calls of the "
                f"program but one node object: they cannot both appear in the model ({len(R.merged)} such pairs)",
            ))
        if R.shared_bodies:
            # the program handed a callable to each body slot; every slot must get its own body (the
            # callable called once per slot, its applications made - and emitted - once per body)
            kind, k, name, ncalls, nslots = R.shared_bodies[0]
            what = (f"callable {name!r} was handed to a body slot of a {kind} (slot {k}) but that slot holds a Graph object "
                    f"another body slot already holds / the callable was called {ncalls} time(s) for {nslots} slot(s) "
                    f"({len(R.shared_bodies)} such slots): the applications it makes are not made once per body; build verdict {out['verdict']}")
            out["oracle"].append(("legal-rejected" if out["verdict"] != "ok" else "bodies-merged", what))
        if case.get("public") and ap["graphs"][0]["args"] is not None:
            # the public entry point `spox.build` must come to the same verdict and pass the same oracle
            o3 = L.observe_public(R)
            out["public_same"] = bool(o3["ok"]) == (out["verdict"] == "ok")
            for k, w in L.oracle(ap, o3):
                if (k, w) not in out["oracle"]:
                    out["oracle"].append((k, "via spox.build: " + w))
            # ... and so must `drop_unused_inputs=True` (no requested argument list: the main graph's
            # arguments are whatever the traversal finds, through bodies of any depth)
            o4 = L.observe_public(R, drop=True)
            out["drop_same"] = bool(o4["ok"]) == (out["verdict"] == "ok")
            out["drop_verdict"] = "ok" if o4["ok"] else str(o4.get("err"))
            for k, w in L.oracle(ap, o4):
                if (k, w) not in out["oracle"]:
                    out["oracle"].append((k, "via spox.build(drop_unused_inputs=True): " + w))
            if o4["ok"]:
                got, want = L.kept_inputs(ap, o4["_model"])
                out["drop_inputs"] = [got, want]
        if case.get("twin"):
            # the same abstract program through the low-level API must look the same to the Builder
            try:
                # ... and with other operator kinds of the same arity in the place of each application
                # (the Builder model has no node kinds: `build` cannot depend on them)
                o2 = _observe_all(L, L.realise_lowlevel(ap, pal=None if pal is None else pal + 1), ap)
                out["twin_same"] = all(o2[k] == out[k] for k in ("verdict", "trace", "facets"))
            except Exception as e:  # noqa: BLE001
                out["twin_same"] = f"{type(e).__name__}: {str(e)[:100]}"
    except Exception as e:  # noqa: BLE001 - never let one case take the run down
        import traceback

        out["infra_error"] = f"{type(e).__name__}: {e}"[:300] + " | " + traceback.format_exc()[-400:]
    return out


class _View:
    """A realised program with another requested-result set over the same Python objects."""

    def __init__(self, R, main):
        self.main = main
        self.node_id = R.node_id
        self.graph_id = R.graph_id
        self.graphs = R.graphs


def _history_requests(L, ap: dict, hseed: int) -> list[list[int]]:
    """Output sets over one program: the original request, a superset (values that are also used
    inside bodies become outputs too), a different single output."""
    import random as _r

    rng = _r.Random(hseed)
    memo: dict[int, frozenset] = {}

    def fa(n):
        if n in memo:
            return memo[n]
        nd = ap["nodes"][n]
        if nd["a"]:
            r = frozenset([n])
        else:
            acc: set[int] = set()
            for i in nd["i"]:
                acc |= fa(i)
            for g in nd["s"]:
                gr = ap["graphs"][g]
                sub: set[int] = set()
                for r_ in gr["res"]:
                    sub |= fa(r_)
                acc |= sub - set(gr["args"] or [])
            r = frozenset(acc)
        memo[n] = r
        return r

    main_args = set(ap["graphs"][0]["args"] or [])
    elig = [n for n, nd in enumerate(ap["nodes"]) if not nd["a"] and nd["ty"] == "f" and fa(n) <= main_args]
    base = list(ap["graphs"][0]["res"])
    if not elig:
        return [base]
    reach = L.ap_reachable(ap)
    inner = [n for n in elig if n in reach and n not in base]
    extra = rng.sample(inner, min(len(inner), rng.randrange(1, 3))) if inner else [rng.choice(elig)]
    single = [rng.choice(inner)] if inner and rng.random() < 0.7 else [rng.choice(elig)]
    reqs = [base, base + [e for e in extra if e not in base], single]
    if hseed % 4 == 0:
        # state after a failure: a request that must be rejected (an output depending on a body's own
        # argument) is built FIRST over the same objects, then the legal requests
        leaky = [n for n, nd in enumerate(ap["nodes"]) if not nd["a"] and nd["ty"] == "f" and not nd["s"]
                 and not fa(n) <= main_args and n in reach]
        if leaky:
            reqs = [base + [rng.choice(leaky)]] + reqs
    out = []
    for r in reqs:
        if r not in out:
            out.append(r)
    return out


def eval_history(case: dict) -> dict:
    """Several models over the SAME Python objects in one process, each judged by the oracle; every
    request is also built on fresh objects and the two emissions are compared."""
    out: dict = {"case": case, "oracle": [], "builds": 0, "history_dependent": None}
    try:
        core.use_repo_on_path()
        from harness import lib_buildalg as L
        from spox import _graph

        _deep_recursion()

        def realise():
            return L.realise_script(case["script"], pal=case.get("pal"))

        def build(R, req):
            ap = R.ap
            ap_req = dict(ap, graphs=[dict(ap["graphs"][0], res=list(req))] + ap["graphs"][1:])
            vars_ = [list(R.nodes[r].outputs.get_vars().values())[0] for r in req]
            args = list(R.main.requested_arguments)
            g = _graph.results(**{f"out{k}": v for k, v in enumerate(vars_)}).with_arguments(*args)
            pub = L.build_public(_View(R, g))
            proto = pub["_model"] if pub["ok"] else pub.get("_unchecked")
            tr = None
            if proto is not None:
                try:
                    tr = L.trace_from_proto(ap_req, proto)
                except Exception as e:  # noqa: BLE001
                    tr = f"unreadable: {type(e).__name__}"
            return ap_req, pub, ("ok" if pub["ok"] else pub["err"], tr)

        try:
            R0 = realise()
        except Exception as e:  # noqa: BLE001
            out["unrealisable"] = f"{type(e).__name__}: {str(e)[:100]}"
            return out
        # programs built EARLIER in the same process over other objects (same value / node / body names):
        # module-level state keyed by names or ids must not reach this program
        for pre in case.get("before") or []:
            try:
                if "script" in pre and "main" not in pre:
                    L.build_public(L.realise_script(pre["script"], pal=pre.get("pal", case.get("pal")), name_offset=pre.get("name_offset", 0)))
                else:
                    L.build_public(L.realise_script(pre, pal=case.get("pal")))
                out["builds"] += 1
            except Exception:  # noqa: BLE001
                pass
        seqs = case.get("sequences")
        if seqs is None:
            reqs = _history_requests(L, R0.ap, case.get("hseed", 0))
            seqs = [reqs, list(reversed(reqs))] if len(reqs) > 1 else [reqs]
        fresh: dict[tuple, tuple] = {}
        for seq in seqs:
            R = realise()
            for k, req in enumerate(seq):
                ap_req, pub, summary = build(R, req)
                out["builds"] += 1
                key = tuple(req)
                if k == 0:
                    fresh.setdefault(key, summary)
                elif key not in fresh:
                    _, _, fs = build(realise(), req)
                    out["builds"] += 1
                    fresh[key] = fs
                for okey, what in L.oracle(ap_req, pub):
                    out["oracle"].append((
                        "history:" + okey,
                        f"after building {seq[:k]} over the same objects, request {req}: " + what,
                        {"kind": "history", "script": case["script"], "sequences": [seq[: k + 1]], "pal": case.get("pal"),
                         **({"before": case["before"]} if case.get("before") else {})},
                    ))
                if summary != fresh[key] and out["history_dependent"] is None:
                    out["history_dependent"] = {
                        "sequence": seq[: k + 1], "request": req,
                        "verdict_after_history": summary[0], "verdict_fresh": fresh[key][0],
                    }
    except Exception as e:  # noqa: BLE001
        import traceback

        out["infra_error"] = f"{type(e).__name__}: {e}"[:300] + " | " + traceback.format_exc()[-400:]
    return out


def _shape_stats(ap: dict) -> dict:
    """Nesting depth (by creation-time ownership) and whether some control-flow node's output is
    consumed from two unrelated scopes of different depth (the interleaving the relaxation order is
    sensitive to). Evidence only."""
    owner: dict[int, int] = {}
    for n, nd in enumerate(ap["nodes"]):
        for g in nd["s"]:
            owner.setdefault(g, n)
    # creation-time home of a node: the innermost graph whose results/inputs reach it first
    home: dict[int, int] = {}

    def visit(n, g):
        if n in home:
            return
        home[n] = g
        nd = ap["nodes"][n]
        for i in nd["i"]:
            visit(i, g)
        for sg in nd["s"]:
            for r in ap["graphs"][sg]["res"]:
                visit(r, sg)

    for r in ap["graphs"][0]["res"]:
        visit(r, 0)

    def chain(g):
        c = [g]
        seen = {g}
        while c[-1] != 0 and c[-1] in owner and owner[c[-1]] in home:
            nxt = home[owner[c[-1]]]
            if nxt in seen:
                break
            c.append(nxt)
            seen.add(nxt)
        return c

    depth = max((len(chain(g)) for g in range(len(ap["graphs"]))), default=1)
    users: dict[int, set[int]] = {}
    for n, nd in enumerate(ap["nodes"]):
        if n in home:
            for i in nd["i"]:
                users.setdefault(i, set()).add(home[n])
    for g, gr in enumerate(ap["graphs"]):
        for r in gr["res"]:
            users.setdefault(r, set()).add(g)
    cross = False
    for n, nd in enumerate(ap["nodes"]):
        if nd["s"] and len(users.get(n, ())) >= 2:
            us = list(users[n])
            for a in us:
                for b in us:
                    ca, cb = chain(a), chain(b)
                    if a != b and a not in cb and b not in ca and len(ca) != len(cb):
                        cross = True
    return {"depth": depth, "ctrl_cross": cross}


def _shared_instances(L, ap: dict) -> list[str]:
    """Which of the round-10 rejection theorems the abstract program instantiates: a graph held by two
    different reachable nodes; an Argument requested by two different reachable graphs."""
    out = []
    try:
        reach = L.ap_reachable(ap)
        holders: dict[int, set[int]] = {}
        for n in reach:
            for g in ap["nodes"][n]["s"]:
                holders.setdefault(g, set()).add(n)
        if any(len(h) > 1 for h in holders.values()):
            out.append("shared_body_rejected")
        seen: dict[int, int] = {}
        for g in [0] + sorted(holders):
            for a in set(ap["graphs"][g]["args"] or []):
                if a in seen and seen[a] != g:
                    out.append("shared_argument_rejected")
                    return out
                seen[a] = g
    except Exception:  # noqa: BLE001 - malformed abstract program: no instance claimed
        pass
    return out


def _candidate(table: dict, key: str, size: int, case: dict, what: str, keep: int = 4):
    """Per key: the `keep` smallest cases without and the `keep` smallest with a `before` list."""
    pools = table.setdefault(key, ([], []))
    lst = pools[1 if case.get("before") else 0]
    lst.append((size, len(lst), case, what))
    lst.sort(key=lambda t: t[:2])
    del lst[keep:]


def _isolated(fn, case: dict) -> dict:
    """Evaluate one case in a fresh process that has built nothing before (a dying process is a result)."""
    from concurrent.futures import ProcessPoolExecutor

    try:
        with ProcessPoolExecutor(max_workers=1, mp_context=mp.get_context("fork")) as ex:
            return ex.submit(fn, case).result()
    except Exception as e:  # noqa: BLE001
        return {"infra_error": f"{type(e).__name__}: {e}"}


def _confirmed(ck: core.Check, fn, key: str, pools: tuple) -> tuple:
    """The workers evaluate thousands of programs per process; a failure caused by what a worker built
    BEFORE (module-level state) does not replay from the case alone. Take the smallest candidate that
    fails the same way in a fresh process (first those that stand alone, then those that carry their
    own `before` programs); if none does, the failure is reported as a broken item, not as a failing
    input (the cross-program histories are there to produce a self-contained one)."""
    cands = sorted(pools[0], key=lambda t: t[:2]) + sorted(pools[1], key=lambda t: t[:2])
    for _, _, case, what in cands:
        r = _isolated(fn, case)
        if key in [t[0] for t in r.get("oracle", [])]:
            return case, what
    _, _, case, what = cands[0]
    ck.broken("correspondence", f"oracle failure {key} seen in a worker does not reproduce in a fresh process: it depends on what the process built before (hidden state across programs)", what[:300])
    return None, what


def gen_cases(ck: core.Check) -> tuple[list[dict], dict]:
    from harness import lib_buildgen as G

    rng = ck.rng
    cases: list[dict] = []
    stats = {}
    # (i) exhaustive skeletons
    n0 = len(cases)
    for d, sc in G.skeletons(3, 1):
        cases.append({"kind": "script", "script": sc, "descr": d, "family": "skeleton-k1"})
    stats["skeleton_k1_exhaustive_trees<=3_bodies"] = len(cases) - n0
    n0 = len(cases)
    if ck.thorough:
        # thorough = about 5 x the quick counts (round 7: the exhaustive 2-value family, 150 000 programs,
        # made the tier take over an hour on a shared box; it is sampled now, the cheap exhaustive
        # families - 1 value on trees with <= 4 bodies, cross-scope control outputs <= 5 bodies - stay)
        for d, sc in G.skeletons(3, 2, rng, sample=1300):
            cases.append({"kind": "script", "script": sc, "descr": d, "family": "skeleton-k2"})
        stats["skeleton_k2_sampled"] = len(cases) - n0
        n0 = len(cases)
        for d, sc in G.skeletons(4, 1):
            cases.append({"kind": "script", "script": sc, "descr": d, "family": "skeleton-k1-b4"})
        stats["skeleton_k1_exhaustive_trees<=4_bodies"] = len(cases) - n0
        n0 = len(cases)
        for d, sc in G.skeletons(3, 3, rng, sample=120):
            cases.append({"kind": "script", "script": sc, "descr": d, "family": "skeleton-k3"})
        stats["skeleton_k3_sampled"] = len(cases) - n0
    else:
        for d, sc in G.skeletons(3, 2, rng, sample=560 * (3 if getattr(ck, "escalated", False) else 1)):
            cases.append({"kind": "script", "script": sc, "descr": d, "family": "skeleton-k2"})
        stats["skeleton_k2_sampled"] = len(cases) - n0
        n0 = len(cases)
        for d, sc in G.skeletons(4, 2, rng, sample=12):
            cases.append({"kind": "script", "script": sc, "descr": d, "family": "skeleton-k2-b4"})
        stats["skeleton_k2_b4_sampled"] = len(cases) - n0
        n0 = len(cases)
        for d, sc in G.skeletons(3, 3, rng, sample=60):
            cases.append({"kind": "script", "script": sc, "descr": d, "family": "skeleton-k3"})
        stats["skeleton_k3_sampled"] = len(cases) - n0
    # (i') control-flow outputs consumed from two further scopes, a value shared between the node's bodies
    n0 = len(cases)
    for d, sc in G.cross_skeletons(ck.pick(4, 5)):
        cases.append({"kind": "script", "script": sc, "descr": d, "family": "cross-ctrl-output"})
    stats["cross_ctrl_output_exhaustive_trees<=%d_bodies" % ck.pick(4, 5)] = len(cases) - n0
    n0 = len(cases)
    for d, sc in G.cross_skeletons(ck.pick(5, 6), rng, sample=ck.pick(400, 2000)):
        cases.append({"kind": "script", "script": sc, "descr": d, "family": "cross-ctrl-output-sampled"})
    stats["cross_ctrl_output_sampled"] = len(cases) - n0
    # (ii) seeded random programs
    n0 = len(cases)
    esc = 3 if getattr(ck, "escalated", False) and not ck.thorough else 1
    for i in range(ck.pick(1800, 8000) * esc):
        leak_p = [0.0, 0.0, 0.05, 0.3][i % 4]
        sc = G.random_script(rng, rng.randrange(3, 28), leak_p)
        cases.append({"kind": "script", "script": sc, "family": f"random-leak{leak_p}"})
    stats["random_scripts"] = len(cases) - n0
    # (iii) round 6: main inputs read only at depth >= 2 (all three entry points), wide argument /
    # operand lists, dependency chains of > 1000 operators
    n0 = len(cases)
    for d, sc in G.deep_input_scripts():
        cases.append({"kind": "script", "script": sc, "descr": d, "family": "deep-input"})
    stats["deep_input_exhaustive_chains_of_2_3_bodies"] = len(cases) - n0
    n0 = len(cases)
    for w, nested in ((12, True), (12, False), (ck.pick(14, 30), True)):
        cases.append({"kind": "script", "script": G.wide_script(w, nested), "family": "wide-lists"})
    # (the model is cubic in the chain length: the long outer chain only in the thorough tier)
    for ln, outer in ((1010, 40),) + (((40, 1010), (1100, None)) if ck.thorough else ()):
        cases.append({"kind": "script", "script": G.long_chain_script(ln, outer), "family": "long-chain"})
    stats["wide_and_long"] = len(cases) - n0
    # (iv) round 7: one callable object handed to several body slots (4 forms x 6 shapes, three palettes)
    n0 = len(cases)
    for d, sc in G.callable_scripts():
        for _ in range(3):
            cases.append({"kind": "script", "script": sc, "descr": d, "family": "callable-reuse"})
    stats["callable_reuse"] = len(cases) - n0
    for i, c in enumerate(cases):
        # operator kinds: every third case keeps the plain constructors, the others draw a palette
        # (bit 3 of a palette: every application draws its own opset module v17..v21)
        if i % 3:
            c["pal"] = rng.randrange(1 << 20)
        if i % 4 == 0 and c["family"] != "long-chain":
            c["twin"] = True
        if i % 8 == 3 or c["family"] in ("deep-input", "wide-lists"):
            c["public"] = True
        if i % 16 == 5:
            # ambient scoped settings no verdict of the property may depend on
            c["amb"] = rng.randrange(1 << 8)
    return cases, stats


def variant_cases(ck: core.Check, results: list[dict]) -> list[dict]:
    """Low-level misuse variants of (a slice of) the programs that were realised."""
    from harness import lib_buildgen as G

    rng = random.Random(ck.seed * 7919 + 13)
    out = []
    pool = [r for r in results if "ap" in r and any(n["s"] for n in r["ap"]["nodes"])]
    rng.shuffle(pool)
    for name, q in G.handmade_aps():
        out.append({"kind": "ap", "ap": q, "family": "handmade:" + name})
    for r in pool[: ck.pick(160, 600)]:
        for name, q in G.ap_variants(r["ap"], rng):
            out.append({"kind": "ap", "ap": q, "family": "variant:" + name})
    for r in results:
        if "ap" in r and r["case"].get("family") in ("deep-input", "wide-lists"):
            # no requested argument list: the main graph takes what the traversal finds deep down
            q = dict(r["ap"], graphs=[dict(r["ap"]["graphs"][0], args=None)] + r["ap"]["graphs"][1:])
            out.append({"kind": "ap", "ap": q, "family": "variant:deep-args-unspecified", "pal": r["case"].get("pal")})
    return out


def _died(case: dict, why: str) -> dict:
    r = {"case": case, "infra_error": why, "oracle": [], "builds": 0, "history_dependent": None}
    return r


def _robust_map(ck: core.Check, fn, cases: list[dict], chunksize: int) -> list[dict]:
    """`fn` over `cases` in forked worker processes. A worker that DIES (native crash inside onnx /
    onnxruntime, os._exit, OOM kill) must never take the run down or hang it: the executor reports the
    broken pool, the cases are then re-run chunk by chunk in fresh single-use processes and - inside a
    chunk that dies again - one by one; the case that kills its process becomes a per-case `infra_error`
    result (reported as one `broken` item), every other case is evaluated normally."""
    from concurrent.futures import ProcessPoolExecutor
    from concurrent.futures.process import BrokenProcessPool

    ctx = mp.get_context("fork")
    try:
        with ProcessPoolExecutor(max_workers=_WORKERS, mp_context=ctx) as ex:
            return list(ex.map(fn, cases, chunksize=chunksize))
    except BrokenProcessPool:
        ck.notes.append("a worker process died; cases re-run in isolated chunks")
    except Exception as e:  # noqa: BLE001
        ck.notes.append(f"worker pool failed ({type(e).__name__}: {e}); cases re-run in isolated chunks")

    def run_chunk(chunk):
        try:
            with ProcessPoolExecutor(max_workers=1, mp_context=ctx) as ex:
                return list(ex.map(fn, chunk, chunksize=len(chunk)))
        except Exception:  # noqa: BLE001
            return None

    chunks = [cases[i:i + 64] for i in range(0, len(cases), 64)]
    out: list[dict] = []
    from concurrent.futures import ThreadPoolExecutor

    with ThreadPoolExecutor(max_workers=_WORKERS) as tp:
        chunk_results = list(tp.map(run_chunk, chunks))
    for chunk, res in zip(chunks, chunk_results):
        if res is not None:
            out.extend(res)
            continue
        for c in chunk:
            one = run_chunk([c])
            out.append(one[0] if one else _died(c, "the worker process evaluating this case died (native crash / exit)"))
    return out


def run_cases(ck: core.Check, cases: list[dict]) -> list[dict]:
    if len(cases) < 200:
        return _robust_map(ck, eval_case, cases, max(1, len(cases) // 24))
    return _robust_map(ck, eval_case, cases, max(1, len(cases) // 240))


def run_history_cases(ck: core.Check, cases: list[dict]) -> list[dict]:
    return _robust_map(ck, eval_history, cases, max(1, len(cases) // 120))


def run(ck: core.Check, prove: bool = True):
    from harness import lib_buildalg as L

    _deep_recursion()
    # tie G: inventory of _build.py (functions, module-level names, class attributes, write sites, callees)
    # regenerated from the source; Props/C04.lean proves it equal to what the model covers
    try:
        from translator import buildalg_facts

        facts = buildalg_facts.generate()
        if facts.get("opaque"):
            ck.broken("translator", "_build.py not extractable", facts["opaque"])
        ck.cov["generated_inventory"] = {k: len(facts[k]) for k in ("methods", "moduleNames", "classAttrs", "writes", "calls")}
        ck.cov["covered_function_hashes"] = facts["hashes"]
        ck.cov["covered_functions_changed"] = facts["changed_hashes"]
        if facts["changed_hashes"]:
            # not an obligation (harmless rewrites stay quiet): the run is escalated to larger counts
            ck.escalated = True
            ck.notes.append("normalised AST of covered functions changed: " + ", ".join(facts["changed_hashes"]) + " - counts escalated")
    except Exception as e:  # noqa: BLE001
        ck.broken("translator", "buildalg_facts not extractable", f"{type(e).__name__}: {e}")
    if prove:
        ck.lean(["SpoxModel.Props.C04"], audit="SpoxModel.Audit.C04")
        if ck.thorough:
            ck.leanchecker(["SpoxModel.Props.C04"])
    # round 10: `iterative_dfs` itself against the model's `visit` on explicit generated graphs
    try:
        from harness import lib_dfstie

        lib_dfstie.run_tie(ck, ck.pick(1500, 12000) * (3 if getattr(ck, "escalated", False) else 1))
    except Exception as e:  # noqa: BLE001
        ck.broken("correspondence", "dfs tie could not run", f"{type(e).__name__}: {e}"[:300])
    ck.trusted_base += [
        "hand-written model Model/BuildAlg.lean of spox._build.Builder (tie H: exact correspondence on every run)",
        "onnx.checker's structural rule (modelled by BuildAlg.structOk, compared with the real checker on every built case)",
        "harness: abstract-program recording in lib_buildalg.realise_script / realise_lowlevel (cross-checked: both realisations of one abstract program must look the same to the Builder)",
    ]
    ck.assumptions += [
        "creation order: a node is created after its inputs and after the graphs in its attributes (Prog.WF; checked on every generated program by the driver)",
        "sibling-scope leaks are rejected by onnx.checker at the end of build (third party); the model states the structural rule as structOk",
    ]
    ck.rule = (
        "exact equality (ids, order) of graph_topo, arguments_of, scope_of, scope_own, nested emission, error class "
        "between the real Builder and the Lean model; oracle: each reachable operator application exactly once in the "
        "nested ModelProto, unreachable ones never, position = LCA of its direct uses in the proto nesting, "
        "argument-dependent values inside the owning body, leaking programs raise, well-scoped programs build"
    )

    cases, gstats = gen_cases(ck)
    results = run_cases(ck, cases)
    vcases = variant_cases(ck, results)
    results += run_cases(ck, vcases)
    ck.cov["generated"] = gstats
    ck.cov["generated"]["lowlevel_variants"] = len(vcases)
    ck.log(f"{len(results)} programs realised and built with the real Builder")

    # --- multi-build histories over the same Python objects (oracle only)
    hsrc = [(j, c) for j, c in enumerate(cases) if c["kind"] == "script" and c.get("family") != "long-chain"]
    hrng = random.Random(ck.seed * 104729 + 7)
    hrng.shuffle(hsrc)
    hcases = []
    for k, (j, c) in enumerate(hsrc[: ck.pick(800, 3000)]):
        hc = {"kind": "history", "script": c["script"], "hseed": hrng.randrange(1 << 30), "family": c.get("family"), "pal": c.get("pal")}
        if k % 3 == 1:
            # another program of the same family (the neighbours in generation order: same scope tree,
            # same value names, one placement changed) is built first in the same process
            nb = [cases[i]["script"] for i in (j - 1, j + 1)
                  if 0 <= i < len(cases) and cases[i]["kind"] == "script" and cases[i].get("family") == c.get("family")]
            # ... and the SAME program under other value names (same operator kinds, node names, body
            # names, opsets - different Python objects and value names): whatever a process-wide cache
            # keyed by names or structure hands back is wrong for this program
            hc["before"] = [{"script": c["script"], "name_offset": 1000}] + nb[:1]
        hcases.append(hc)
    hresults = run_history_cases(ck, hcases)
    hstats = {"programs": len(hcases), "builds": sum(r["builds"] for r in hresults),
              "after_other_programs_in_the_same_process": sum(1 for c in hcases if c.get("before")),
              "history_dependent_emission": sum(1 for r in hresults if r.get("history_dependent")),
              "unrealisable": sum(1 for r in hresults if "unrealisable" in r)}
    ck.cov["histories"] = hstats
    ck.log(f"{hstats['builds']} history builds over {len(hcases)} programs")
    hdep = next((r for r in hresults if r.get("history_dependent")), None)
    if hdep is not None:
        ck.broken("correspondence",
                  f"the emission for a request depends on what was built before over the same objects ({hstats['history_dependent_emission']} programs)",
                  json.dumps({"script": hdep["case"]["script"], **hdep["history_dependent"]})[:1400])
    hfails: dict[str, list] = {}
    for r in hresults:
        for key, what, hcase in r["oracle"]:
            _candidate(hfails, key, len(json.dumps(hcase)), hcase, what)

    infra = [r for r in results if "infra_error" in r] + [r for r in hresults if "infra_error" in r]
    if infra:
        ck.broken("correspondence", f"harness: {len(infra)} case(s) could not be evaluated", infra[0]["infra_error"])
    todo = [r for r in results if "ap" in r and "verdict" in r]
    try:
        def _req(r):
            q = L.ap_for_model(r["ap"])
            if r.get("drop_verdict") is not None and r["ap"]["graphs"][0]["args"] is not None:
                # the model of `spox.build(..., drop_unused_inputs=True)` on the same program
                q["pub_inputs"] = list(r["ap"]["graphs"][0]["args"])
            return q

        answers = ck.driver().ask_many("C04", [_req(r) for r in todo])
        if len(answers) != len(todo):
            raise RuntimeError(f"driver answered {len(answers)} of {len(todo)} requests")
        ck.log(f"driver answered {len(answers)} requests")
    except Exception as e:  # noqa: BLE001
        ck.broken("correspondence", "C04 driver", str(e))
        answers = [None] * len(todo)

    stats = {
        "unrealisable": sum(1 for r in results if "unrealisable" in r),
        "infra_errors": len(infra),
        "built": 0,
        "verdicts": {},
        "leaky_programs": 0,
        "reuse_programs": 0,
        "max_nodes": 0,
        "max_graphs": 0,
        "max_depth": 0,
        "ctrl_output_used_in_two_unrelated_scopes_of_different_depth": 0,
        "initializer_scoped_in_a_body": 0,
        "families": {},
        "wf_false": 0,
        "facets_compared": {},
        "facets_unobservable": {},
    }
    mism = 0
    mism_by: dict[str, int] = {}
    unobs_first: dict[str, str] = {}
    fails: dict[str, list] = {}

    def mismatch(which: str, ap, real, model):
        nonlocal mism
        mism += 1
        mism_by[which] = mism_by.get(which, 0) + 1
        if mism_by[which] <= 2:
            ck.broken(
                "correspondence",
                f"Builder model vs real Builder: {which}",
                json.dumps({"ap": L.ap_for_model(ap), "real": real, "model": model})[:1400],
            )

    for r, m in zip(todo, answers):
        ap = r["ap"]
        fam = r["case"].get("family", "?")
        stats["families"][fam] = stats["families"].get(fam, 0) + 1
        stats["max_nodes"] = max(stats["max_nodes"], len(ap["nodes"]))
        stats["max_graphs"] = max(stats["max_graphs"], len(ap["graphs"]))
        shape = _shape_stats(ap)
        stats["max_depth"] = max(stats["max_depth"], shape["depth"])
        stats["ctrl_output_used_in_two_unrelated_scopes_of_different_depth"] += int(shape["ctrl_cross"])
        so = r["facets"].get("scope_of") or []
        stats["initializer_scoped_in_a_body"] += int(any(v >= 0 and g != 0 and ap["nodes"][v]["k"] == "init" for v, g in so))
        stats["leaky_programs"] += int(r["leaky"])
        stats["reuse_programs"] += int(r["reuse"])
        stats["verdicts"][r["verdict"]] = stats["verdicts"].get(r["verdict"], 0) + 1
        stats["built"] += int(r["verdict"] == "ok")
        ck.count(json.dumps(L.ap_for_model(ap), sort_keys=True) if len(ap["graphs"]) > 1 else None)
        if len(ck.samples) < 3 and r["verdict"] == "ok" and len(ap["graphs"]) >= 3:
            ck.sample({"abstract_program": L.ap_for_model(ap), "real_scope_of": r["facets"].get("scope_of"), "real_trace": r["trace"]}, 3)
        for facet, why in r["unobservable"].items():
            stats["facets_unobservable"][facet] = stats["facets_unobservable"].get(facet, 0) + 1
            unobs_first.setdefault(facet, why)
        # --- correspondence, facet by facet
        if m is not None:
            if "error" in m:
                ck.broken("correspondence", "C04 driver request", str(m)[:200])
            else:
                if not m.get("wf"):
                    stats["wf_false"] += 1
                # round 10: generated programs that instantiate the hypotheses of `shared_body_rejected` /
                # `shared_argument_rejected` (computed here on the abstract program): neither side may build them
                for which in _shared_instances(L, ap):
                    ti = stats.setdefault("theorem_instances", {})
                    ti[which] = ti.get(which, 0) + 1
                    if m.get("wf") and m.get("ok"):
                        mismatch(f"{which}: the driver's model builds a program the theorem excludes", ap, r["verdict"], "ok")
                    if r["verdict"] == "ok":
                        mismatch(f"{which}: the real build accepts a program the theorem excludes", ap, "ok", L.model_verdict(m))
                mverd = L.model_verdict(m)
                if mverd != r["verdict"]:
                    mismatch("error-class", ap, r["verdict"], mverd)
                if r["internal_verdict"] is not None:
                    want = "ok" if m.get("ok") else str(m.get("err"))
                    if want != r["internal_verdict"]:
                        mismatch("error-class of build_main", ap, r["internal_verdict"], want)
                if m.get("pub") is not None:
                    # `publicBuild p inputs true` vs the real `spox.build(..., drop_unused_inputs=True)`
                    stats["facets_compared"]["public_build_drop"] = stats["facets_compared"].get("public_build_drop", 0) + 1
                    pm = m["pub"]
                    pverd = ("ok" if pm.get("struct_ok") else "Validation") if pm.get("ok") else str(pm.get("err"))
                    if pverd != r["drop_verdict"]:
                        mismatch("publicBuild (drop_unused_inputs=True): error class", ap, r["drop_verdict"], pverd)
                    elif pm.get("ok") and r.get("drop_inputs") is not None and pm.get("inputs") != r["drop_inputs"][0]:
                        mismatch("publicBuild (drop_unused_inputs=True): model inputs", ap, r["drop_inputs"][0], pm.get("inputs"))
                if m.get("ok"):
                    # the bridge to C01's program model, evaluated by the driver on this case:
                    # the emission rendered as a Prog.EGraph is the same emission, the translated
                    # program is well-formed, and validG agrees with the structural rule (hence
                    # with the real checker, compared above)
                    stats["bridge_checked"] = stats.get("bridge_checked", 0) + 1
                    stats["bridge_valid"] = stats.get("bridge_valid", 0) + int(bool(m.get("bridge_valid")))
                    if not m.get("bridge_same_emission") or not m.get("bridge_wf"):
                        mismatch("bridge: toEGraph/toProg of the model's emission", ap,
                                 {"same_emission": m.get("bridge_same_emission"), "wf": m.get("bridge_wf")}, None)
                    stats["bridge_leak_free"] = stats.get("bridge_leak_free", 0) + int(bool(m.get("leak_free")))
                    # the instance of theorem build_valid_checked on this case, executed: WFb, build ok,
                    # leakFreeB  ==>  validG; conversely an accepted emission is leak-free
                    if m.get("wf") and m.get("leak_free") and not m.get("bridge_valid"):
                        mismatch("bridge: build_valid instance (leak-free build not accepted by validG)", ap, None, None)
                    # the instance of build_valid_mainClean_checked: WFb, build ok, mainCleanB ==> validG (no
                    # hypothesis about scopes); and how many leak-free builds the static condition covers
                    if m.get("main_clean") is not None:
                        stats["main_clean_checked"] = stats.get("main_clean_checked", 0) + 1
                        stats["main_clean"] = stats.get("main_clean", 0) + int(bool(m["main_clean"]))
                        if m.get("wf") and m["main_clean"] and not m.get("bridge_valid"):
                            mismatch("bridge: build_valid_mainClean instance (main-clean build not accepted by validG)", ap, None, None)
                        if m.get("leak_free") and not m["main_clean"]:
                            stats["leak_free_but_not_main_clean"] = stats.get("leak_free_but_not_main_clean", 0) + 1
                    # the instance of build_valid_lexical_checked: WFb, lexicalB (the program alone), build ok ==> validG
                    if m.get("lexical") is not None:
                        stats["lexical_checked"] = stats.get("lexical_checked", 0) + 1
                        stats["lexical"] = stats.get("lexical", 0) + int(bool(m["lexical"]))
                        if m.get("wf") and m["lexical"] and not m.get("bridge_valid"):
                            mismatch("bridge: build_valid_lexical instance (lexical program built but not accepted by validG)", ap, None, None)
                        if m.get("leak_free") and not m["lexical"]:
                            stats["leak_free_but_not_lexical"] = stats.get("leak_free_but_not_lexical", 0) + 1
                    if m.get("bridge_valid") and not m.get("leak_free"):
                        mismatch("bridge: accepted emission is not leak-free", ap, None, None)
                    if bool(m.get("bridge_valid")) != bool(m.get("struct_ok")):
                        mismatch("bridge: Prog.validG vs structural rule", ap, m.get("struct_ok"), m.get("bridge_valid"))
                    mf = L.model_facets(m)
                    if r["trace"] is not None:
                        stats["facets_compared"]["trace"] = stats["facets_compared"].get("trace", 0) + 1
                        if L.drop_initializers(ap, mf["trace"]) != r["trace"]:
                            mismatch("trace", ap, r["trace"], mf["trace"])
                        # `placed` (theorems placed_in_scope / emitted_in_least_enclosing): position of every
                        # emitted vertex in the real proto = the model's `placed` = the model's scope_of
                        inits = {n for n, nd in enumerate(ap["nodes"]) if nd["k"] == "init"}
                        mp_ = sorted([v, g] for v, g in m.get("placed", []) if v not in inits)
                        stats["facets_compared"]["placed"] = stats["facets_compared"].get("placed", 0) + 1
                        if mp_ != sorted(L.placed_from_trace(r["trace"])):
                            mismatch("placed", ap, sorted(L.placed_from_trace(r["trace"])), mp_)
                        so_ = {v: g for v, g in mf["scope_of"]}
                        if any(so_.get(v) != g for v, g in m.get("placed", [])):
                            mismatch("placed vs scope_of (instance of placed_in_scope)", ap, None, m.get("placed"))
                    for facet, val in r["facets"].items():
                        stats["facets_compared"][facet] = stats["facets_compared"].get(facet, 0) + 1
                        if mf[facet] != val:
                            mismatch(facet, ap, val, mf[facet])
        if r.get("public_same") is False:
            mismatch("spox.build (public) vs Graph.to_onnx_model: different verdict", ap, None, None)
        if r.get("twin_same") not in (None, True):
            mismatch("callback realisation vs low-level realisation of the same abstract program", ap, r["twin_same"], None)
        # --- oracle verdicts
        for key, what in r["oracle"]:
            _candidate(fails, key, L.ap_size(ap), r["case"], what)
        if r.get("drop_same") is False:
            mismatch("spox.build(drop_unused_inputs=True) vs Graph.to_onnx_model: different verdict", ap, None, None)
        if r.get("drop_inputs") is not None:
            stats["drop_unused_inputs_builds"] = stats.get("drop_unused_inputs_builds", 0) + 1
            got, want = r["drop_inputs"]
            stats["drop_unused_inputs_dropped_some"] = stats.get("drop_unused_inputs_dropped_some", 0) + int(len(want) < len(ap["graphs"][0]["args"] or []))
            if got != want:
                mismatch("drop_unused_inputs=True: model inputs vs the main arguments some output depends on", ap, got, want)
        if fam == "deep-input" and r["verdict"] == "ok":
            stats["main_input_read_only_at_depth>=2"] = stats.get("main_input_read_only_at_depth>=2", 0) + 1
        if r["case"].get("amb") is not None:
            stats["under_ambient_settings"] = stats.get("under_ambient_settings", 0) + 1
        if r["case"].get("pal") is not None and (r["case"]["pal"] >> 3) & 7 == 7:
            stats["mixed_opset_modules"] = stats.get("mixed_opset_modules", 0) + 1
    for facet, n in stats["facets_unobservable"].items():
        ck.broken("correspondence", f"{facet} not observable on {n} case(s): the Builder's internals changed shape", unobs_first[facet])
    if stats["wf_false"]:
        ck.broken("correspondence", "generated abstract program is not in creation order (harness)", str(stats["wf_false"]))
    ck.cov["correspondence_mismatches"] = mism
    ck.cov["correspondence_mismatches_by_facet"] = mism_by
    ck.cov["stats"] = stats
    ck.exhaustive = False
    for key, cands in sorted(fails.items()):
        case, what = _confirmed(ck, eval_case, key, cands)
        if case is None:
            continue
        ck.failure(key, what, case, how="realise the case (script: if_/loop callbacks; ap: low-level Graph API), build, inspect the ModelProto")
    for key, cands in sorted(hfails.items()):
        # a well-scoped program rejected / a model with duplicated or misplaced nodes after an earlier
        # build over the same objects (or after other programs in the same process): the same property
        # failure, reached through a history
        case, what = _confirmed(ck, eval_history, key, cands)
        if case is None:
            continue
        ck.failure(key, what, case, how="build the `before` programs, realise the script once, build the listed requests in order over the same objects, inspect each ModelProto")
    ck.log(f"correspondence mismatches: {mism} {mism_by}; unobservable: {stats['facets_unobservable']}; oracle failure kinds: {sorted(fails) + sorted(hfails)}; histories: {hstats}")


def replay(ck: core.Check, doc: dict) -> bool:
    if "case" not in doc:
        # an `obligation` replay (a correspondence no longer checks, no failing input was found):
        # re-run the correspondence and the oracle of the recorded seed against the current tree
        run(ck, prove=False)
        for b in ck.broken_items:
            print(f"still broken: {b['kind']}: {b['name']}")
        for f in ck.failures:
            print(f"{f['key']}: {f['what']}")
        if ck._driver:
            ck._driver.close()
        return bool(ck.broken_items or ck.failures)
    case = doc["case"]
    if case.get("kind") == "history":
        r = eval_history(case)
        if "infra_error" in r or "unrealisable" in r:
            print("history cannot be evaluated:", r.get("infra_error") or r.get("unrealisable"))
            return False
        for key, what, _ in r["oracle"]:
            print(f"{key}: {what}")
        want = doc.get("key")
        keys = [k for k, _, _ in r["oracle"]]
        return (want in keys) if want else bool(keys)
    r = eval_case(case)
    if "infra_error" in r:
        print("case could not be evaluated:", r["infra_error"])
        return False
    if "unrealisable" in r:
        print("case cannot be constructed:", r["unrealisable"])
        return False
    for key, what in r["oracle"]:
        print(f"{key}: {what}")
    want = doc.get("key")
    keys = [k for k, _ in r["oracle"]]
    return (want in keys) if want else bool(keys)
