"""C10 — constants and attributes are embedded exactly and captured at the call.

tie G : translator/c10_tables.py -> Generated/{TensorEnum,AttrKinds,Capture}.lean (dtype->enum by running
        dtype_to_tensor_type, Attr class kinds by introspection, guards and capture modes by AST + observed
        sharing relation on the real objects)
proof  : Props/C10.lean (roundtrip, canon_spec, const_type_exact, attr_kind_exact, validate_spec,
        wrong_kind_typeerror, captured_at_call, … over the generated tables)
tie H  : (1) fromArray/toArray vs spox._utils.from_array + onnx.numpy_helper.to_array, field by field:
             all 2^8 patterns of the 8-bit types, all 2^16 of int16/uint16/float16/bfloat16 (both tiers), boundary + random patterns of the 32/64-bit types, strings over a
             non-ASCII alphabet, shapes (), (0,), (1,), (2,3), (0,2); toArray alone on hand-made protos
             with out-of-range int32_data
         (2) construct vs the real Attr* constructors on a universe of values x all classes
         (3) the heap model vs real constructors under caller-side mutation histories
oracle : (model-free; own protobuf wire decoder harness/lib_c10wire.py + struct + numpy as reference)
         real const/constant/initializer/argument default/tensor attribute -> built model -> decoded tensor
         == array (dtype, shape, bit patterns modulo the quiet bit of a NaN); Var.type; _get_value();
         every attribute kind under its name/type/value; wrong kinds raise TypeError at the call;
         caller-side mutation histories after the call change neither model nor value.
"""
from __future__ import annotations

import copy
import json
import struct

from harness import core
from harness import lib_c10wire as W

DT_INT = ["int8", "int16", "int32", "int64", "uint8", "uint16", "uint32", "uint64"]
DT_FLOAT = ["float16", "bfloat16", "float32", "float64"]
DT_COMPLEX = ["complex64", "complex128"]
DT_ALL = ["bool"] + DT_INT + DT_FLOAT + DT_COMPLEX + ["str"]
SHAPES = [[], [0], [1], [2, 3], [0, 2]]
ALPHABET = [0x61, 0x7A, 0x20, 0xFC, 0xDF, 0x3A9, 0x416, 0x4E2D, 0x1F600, 0x10FFFF, 0x0, 0x7F, 0x80, 0x7FF,
            0x800, 0xFFFF, 0x10000, 0xD7FF, 0xE000]

# (exponent mask, mantissa mask, quiet bit) per IEEE format
FMT = {"float16": (0x7C00, 0x03FF, 0x0200), "bfloat16": (0x7F80, 0x007F, 0x0040),
       "float32": (0x7F800000, 0x007FFFFF, 0x00400000), "complex64": (0x7F800000, 0x007FFFFF, 0x00400000),
       "float64": (0x7FF0000000000000, 0x000FFFFFFFFFFFFF, 0x0008000000000000),
       "complex128": (0x7FF0000000000000, 0x000FFFFFFFFFFFFF, 0x0008000000000000)}


UNOBS = "<unobservable>"
UNOBSERVABLE: dict = {}  # facet -> why; reported with ck.broken at the end of the run, never a crash, never a verdict


def peek(facet, fn):
    """Read a spox internal. A failure to *observe* (renamed attribute, changed type…) is not a verdict."""
    try:
        return fn()
    except (AttributeError, KeyError, IndexError, ImportError, TypeError, StopIteration, AssertionError) as e:
        UNOBSERVABLE.setdefault(facet, f"{type(e).__name__}: {e}"[:200])
        return UNOBS


def _imp(mod, attr=None):
    """Import a (possibly internal) module / name; None (and a note) if it is not there any more."""
    import importlib

    try:
        m = importlib.import_module(mod)
        return m if attr is None else getattr(m, attr)
    except Exception as e:  # noqa: BLE001
        UNOBSERVABLE.setdefault(f"{mod}{':' + attr if attr else ''}", f"{type(e).__name__}: {e}"[:200])
        return None


def comps(d):
    return 2 if d in DT_COMPLEX else 1


def bits(d):
    return 1 if d == "bool" else W.BITS[d]


def numel(shape):
    n = 1
    for s in shape:
        n *= s
    return n


def np_dtype(name):
    import numpy as np

    if name == "bfloat16":
        import ml_dtypes

        return np.dtype(ml_dtypes.bfloat16)
    return np.dtype(name)


def canon_name(dt) -> str:
    """numpy dtype -> one of the 16 names (aliases, byte order, string width normalised)."""
    import numpy as np

    dt = np.dtype(dt)
    if dt.kind == "U":
        return "str"
    if dt.kind == "O":
        return "object"
    return np.dtype(dt.type).name


SIZE_CLASSES = [0, 1, 2, 255, 256, 257, 1023, 1024, 1025, 4096, 65536]
SHAPES_OF = {0: [[0], [0, 3]], 1: [[1], [1, 1]], 2: [[2], [2, 1]], 255: [[255], [5, 51]], 256: [[256], [16, 16]],
             257: [[257], [257, 1]], 1023: [[1023], [3, 341]], 1024: [[1024], [32, 32], [2, 4, 128]],
             1025: [[1025], [25, 41]], 4096: [[4096], [64, 64]], 65536: [[65536], [256, 256]]}


def materialise(spec):
    """A spec may carry a seed instead of its payload (keeps replay files small): regenerate it."""
    if "gen_seed" in spec and "words" not in spec and "strs" not in spec:
        import random as _random

        r = _random.Random(spec["gen_seed"])
        spec = dict(spec)
        n = numel(spec["shape"])
        if spec["dtype"] == "str":
            spec["strs"] = [rand_str(r) for _ in range(n)]
        else:
            spec["words"] = rand_words(r, spec["dtype"], n * comps(spec["dtype"]))
    return spec


def make_array(spec):
    import numpy as np

    spec = materialise(spec)
    d, shape = spec["dtype"], tuple(spec["shape"])
    if d == "str":
        strs = ["".join(map(chr, cps)) for cps in spec.get("strs", [])]
        a = np.array(strs, dtype=str).reshape(shape) if strs else np.zeros(shape, dtype="<U1")
    else:
        ws = spec.get("words", [])
        if d == "bool":
            a = np.array(ws, dtype=np.uint8).view(np.bool_)
        else:
            u = {8: np.uint8, 16: np.uint16, 32: np.uint32, 64: np.uint64}[W.BITS[d]]
            a = np.array(ws, dtype=u).view(np_dtype(d))
        a = a.reshape(shape)
    if spec.get("bo") == ">" and d not in ("bool", "int8", "uint8", "bfloat16"):
        a = a.astype(a.dtype.newbyteorder(">"))  # non-native byte order, same values
    lay = spec.get("layout", "C")
    if lay == "F" and a.ndim >= 2:
        a = np.asfortranarray(a)
    elif lay == "strided" and a.ndim >= 1:
        big = np.zeros(a.shape[:-1] + (2 * a.shape[-1] + 1,), dtype=a.dtype)
        big[..., 1::2] = a
        a = big[..., 1::2]
    elif lay == "bigendian" and d not in ("bool", "int8", "uint8", "bfloat16"):
        a = a.astype(a.dtype.newbyteorder(">"))
    elif lay == "readonly":
        a = a.copy()
        a.setflags(write=False)
    return a


def words_of(arr):
    """C-order bit patterns (numeric) or code points (strings) of a numpy array."""
    import numpy as np

    arr = np.asarray(arr)
    if arr.dtype.kind in "UO":
        return [[ord(c) for c in str(s)] for s in arr.ravel().tolist()]
    arr = np.ascontiguousarray(arr.astype(arr.dtype.newbyteorder("="), copy=False))
    if arr.dtype.kind == "b":
        return arr.view(np.uint8).ravel().tolist()
    name = canon_name(arr.dtype)
    u = {8: np.uint8, 16: np.uint16, 32: np.uint32, 64: np.uint64}[W.BITS[name]]
    return [int(x) for x in arr.reshape(-1).view(u).tolist()]


def same_words(d, got, exp) -> bool:
    """Equal bit patterns, modulo the quiet bit of a NaN for the float formats."""
    if got == exp:
        return True
    if d not in FMT or len(got) != len(exp):
        return False
    em, mm, qb = FMT[d]
    for g, e in zip(got, exp):
        if g == e:
            continue
        g_nan = (g & em) == em and (g & mm) != 0
        e_nan = (e & em) == em and (e & mm) != 0
        if not (g_nan and e_nan and (g | qb) == (e | qb)):
            return False
    return True


def spec_of(arr, layout="C"):
    d = canon_name(arr.dtype)
    s = {"dtype": d, "shape": list(arr.shape), "layout": layout}
    if d == "str":
        s["strs"] = words_of(arr)
    else:
        s["words"] = words_of(arr)
    return s


# ------------------------------------------------------------------------------- generators
def boundary_words(d):
    b = W.BITS.get(d, 8)
    if d == "bool":
        return [0, 1]
    top = (1 << b) - 1
    ws = [0, 1, 2, top, top - 1, 1 << (b - 1), (1 << (b - 1)) - 1, (1 << (b - 1)) + 1, 0x55 & top, 0xAA & top]
    if d in FMT:
        em, mm, qb = FMT[d]
        sign = 1 << (b - 1)
        ws += [em, em | sign, em | qb, em | qb | 1, em | 1, em | sign | 1, em | (qb >> 1), em | mm, sign, 1,
               sign | 1, mm, em - (mm + 1) | mm, (em >> 1), em | qb | sign | (mm >> 3)]
    return [w & top for w in ws]


def rand_words(rng, d, n):
    if d == "bool":
        return [rng.randrange(2) for _ in range(n)]
    b = W.BITS[d]
    bw = boundary_words(d)
    out = []
    for _ in range(n):
        r = rng.random()
        if r < 0.35:
            out.append(rng.choice(bw))
        elif r < 0.5 and d in FMT:
            em, mm, qb = FMT[d]
            out.append(em | rng.randrange(1, mm + 1) | (rng.randrange(2) << (b - 1)))  # NaN, any payload
        else:
            out.append(rng.getrandbits(b))
    return out


def rand_str(rng):
    n = rng.choice([0, 1, 1, 2, 3, 5])
    cps = [rng.choice(ALPHABET) if rng.random() < 0.8 else rng.randrange(0x20, 0x3000) for _ in range(n)]
    cps = [c for c in cps if not 0xD800 <= c <= 0xDFFF]
    while cps and cps[-1] == 0:  # numpy's fixed-width strings cannot end in NUL
        cps.pop()
    return cps


def rand_spec(rng, d, shape=None, layout=None):
    shape = rng.choice(SHAPES + [[3], [2, 1, 2]]) if shape is None else shape
    n = numel(shape)
    s = {"dtype": d, "shape": shape, "layout": layout or rng.choice(["C", "C", "F", "strided", "bigendian", "readonly"])}
    if d == "str":
        s["strs"] = [rand_str(rng) for _ in range(n)]
    else:
        s["words"] = rand_words(rng, d, n * comps(d))
    return s


def platform_quietens() -> bool:
    """Does float32 -> Python float -> float32 set the quiet bit of a signalling NaN here?"""
    import numpy as np

    x = np.array([0x7F800001], dtype=np.uint32).view(np.float32)[0]
    back = np.array([float(x)], dtype=np.float64).astype(np.float32).view(np.uint32)[0]
    return int(back) == 0x7FC00001


# ----------------------------------------------------------------- tie H (1): encoding correspondence
def enc_cases(ck):
    rng = ck.rng
    cases = []
    # exhaustive narrow types
    for d in ("int8", "uint8"):
        cases.append({"dtype": d, "shape": [256], "words": list(range(256))})
    cases.append({"dtype": "bool", "shape": [2], "words": [0, 1]})
    for d in ("int16", "uint16", "float16", "bfloat16"):
        # all 2^16 patterns, in both tiers
        for lo in range(0, 65536, 8192):
            cases.append({"dtype": d, "shape": [8192], "words": list(range(lo, lo + 8192))})
    # wide types: boundaries + random
    for d in ("int32", "int64", "uint32", "uint64", "float32", "float64", "complex64", "complex128"):
        bw = boundary_words(d)
        if len(bw) % 2 and d in DT_COMPLEX:
            bw.append(0)
        cases.append({"dtype": d, "shape": [len(bw) // comps(d)], "words": bw})
        n = ck.pick(2000, 600000)
        cases.append({"dtype": d, "shape": [n], "words": rand_words(rng, d, n * comps(d))})
    # strings
    for _ in range(ck.pick(60, 12000)):
        cases.append(rand_spec(rng, "str", layout="C"))
    cases.append({"dtype": "str", "shape": [len(ALPHABET)], "strs": [[c, 0x61] for c in ALPHABET]})
    # all shapes x all dtypes
    for d in DT_ALL:
        for shape in SHAPES:
            cases.append(rand_spec(rng, d, shape, layout="C"))
    # size classes (an implementation may change strategy at a threshold), with non-native byte order too
    big = set(DT_ALL) if ck.thorough else set(rng.sample(DT_ALL, 1))
    for d in DT_ALL:
        for n in SIZE_CLASSES:
            if n == 65536 and d not in big:
                continue
            for bo in ("=", ">"):
                shape = SHAPES_OF[n][-1 if bo == ">" else 0]
                cases.append(materialise({"dtype": d, "shape": shape, "bo": bo, "gen_seed": rng.getrandbits(32)}))
    for c in cases:
        c.setdefault("layout", "C")
    return cases


def run_enc_correspondence(ck, q):
    import numpy as np
    import onnx.numpy_helper as nh

    from spox._utils import from_array

    cases = enc_cases(ck)
    reqs = [{"op": "enc", "q": q, "name": "t", **{k: v for k, v in c.items() if k not in ("layout", "bo", "gen_seed")}} for c in cases]
    outs = ck.driver().ask_many("C10", reqs)
    mism = 0
    elems = 0
    n_raw = 0
    for c, m in zip(cases, outs):
        arr = make_array(c)
        real = from_array(arr, "t")
        rt = W.tensor_typed(real.SerializeToString())
        n = len(c.get("words", c.get("strs", [])))
        elems += n
        ck.count(("enc", c["dtype"], tuple(c["shape"])), max(n, 1))
        bad = None
        if "error" in m or m.get("proto") is None:
            bad = f"model: {m}"
        else:
            mp = m["proto"]
            fields_cmp = ("data_type", "dims", "name", "int32_data", "int64_data", "uint64_data", "float_data",
                          "double_data", "string_data")
            if rt["raw_data"]:
                # raw storage is an equally valid embedding (ONNX: raw_data is little-endian, fixed width): it must
                # decode to the very payload; the typed-field model is then not what the code does, which is noted
                n_raw += 1
                dec = W.tensor(real.SerializeToString())
                if dec.get("words") != c.get("words"):
                    i = next((i for i, (x, y) in enumerate(zip(dec.get("words", []), c.get("words", []))) if x != y), None)
                    bad = f"raw_data does not decode (little-endian) to the payload: first-diff-index {i}, {len(dec.get('words', []))} words"
                fields_cmp = ("data_type", "dims", "name")
            for k in fields_cmp:
                if bad:
                    break
                if mp[k] != rt[k]:
                    i = next((i for i, (x, y) in enumerate(zip(mp[k], rt[k])) if x != y), None) if isinstance(mp[k], list) else None
                    bad = f"field {k}: model {str(mp[k])[:80]} real {str(rt[k])[:80]} first-diff-index {i}"
                    break
            if not bad:
                back = nh.to_array(real)
                mb = m["back"]
                if mb is None:
                    bad = "model toArray = none"
                else:
                    real_words = words_of(back)
                    if c["dtype"] == "str":
                        if mb["strs"] != real_words or mb["shape"] != list(back.shape):
                            bad = f"to_array strings: model {mb['strs'][:4]} real {real_words[:4]}"
                    else:
                        if (not same_words(c["dtype"], mb["words"], real_words) if rt["raw_data"] else mb["words"] != real_words) \
                                or mb["shape"] != list(back.shape) or mb["dtype"] != canon_name(back.dtype):
                            i = next((i for i, (x, y) in enumerate(zip(mb["words"], real_words)) if x != y), None)
                            bad = f"to_array: model {mb['dtype']}{mb['shape']} real {canon_name(back.dtype)}{list(back.shape)} first-diff-index {i}"
        if bad:
            mism += 1
            if mism <= 3:
                ck.broken("correspondence", "C10 fromArray/toArray vs from_array/to_array",
                          f"dtype={c['dtype']} shape={c['shape']}: {bad}")
    # toArray alone, on protos no from_array would produce (out-of-range entries: truncation paths)
    import onnx

    rng = ck.rng
    dec_reqs, dec_real = [], []
    for d in ["bool"] + DT_INT + ["float16", "bfloat16"]:
        for _ in range(ck.pick(6, 60)):
            n = rng.randrange(0, 6)
            t = onnx.TensorProto()
            t.data_type = W.ONNX_ENUM[d]
            t.dims.extend([n])
            proto = {"data_type": W.ONNX_ENUM[d], "dims": [n]}
            if d == "int64":
                vals = [rng.choice([0, -1, 2**63 - 1, -2**63, rng.getrandbits(63)]) for _ in range(n)]
                t.int64_data.extend(vals)
                proto["int64_data"] = vals
            elif d in ("uint32", "uint64"):
                vals = [rng.choice([0, 2**32 - 1, 2**32, 2**64 - 1, rng.getrandbits(64)]) for _ in range(n)]
                t.uint64_data.extend(vals)
                proto["uint64_data"] = vals
            else:
                vals = [rng.choice([0, -1, 255, 256, -129, 65535, 65536, -32769, 2**31 - 1, -2**31,
                                    rng.randrange(-2**31, 2**31)]) for _ in range(n)]
                t.int32_data.extend(vals)
                proto["int32_data"] = vals
            dec_reqs.append({"op": "dec", "q": q, "proto": proto})
            dec_real.append((d, t))
    # raw storage (ONNX: little-endian, fixed width): to_array's raw branch vs the model's
    for d in [x for x in DT_ALL if x != "str"]:
        for n in (0, 1, 3, 1024):
            spec = materialise({"dtype": d, "shape": [n], "gen_seed": rng.getrandbits(32)})
            arr = make_array(spec)
            le = arr.astype(arr.dtype.newbyteorder("<")) if arr.dtype.byteorder == ">" else arr
            t = onnx.helper.make_tensor("", W.ONNX_ENUM[d], [n], le.tobytes(), raw=True)
            dec_reqs.append({"op": "dec", "q": q, "proto": {"data_type": W.ONNX_ENUM[d], "dims": [n], "raw_data": list(le.tobytes())}})
            dec_real.append((d, t))
    outs = ck.driver().ask_many("C10", dec_reqs)
    for (d, t), m in zip(dec_real, outs):
        back = nh.to_array(t)
        ck.count(("dec", d))
        mb = m.get("back")
        if mb is None or mb["words"] != words_of(back) or mb["dtype"] != canon_name(back.dtype):
            mism += 1
            if mism <= 3:
                ck.broken("correspondence", "C10 toArray vs onnx.numpy_helper.to_array",
                          f"dtype={d} proto={str(t)[:120]!r}: model {mb} real {words_of(back)}")
    if n_raw:
        ck.notes.append(f"{n_raw} tensors are stored through raw_data (accepted: they decode little-endian to the payload); "
                        "the typed-field layout theorems then describe only the tensors that use typed fields")
    ck.cov["enc_correspondence"] = {"cases": len(cases), "elements": elems, "dec_cases": len(dec_reqs),
                                    "mismatches": mism, "platform_quietens_snan": q, "tensors_using_raw_data": n_raw,
                                    "exhaustive_16bit": True}
    return mism


# ---------------------------------------------------------- tie H (2): attribute constructors
def f32_bits_of_double(x: float) -> int:
    import numpy as np

    with np.errstate(all="ignore"):
        return int(np.array([x], dtype=np.float64).astype(np.float32).view(np.uint32)[0])


def value_universe(rng, n_random):
    """[(json for the model, python value factory)]"""
    import numpy as np

    from spox import Tensor

    def j_int(n):
        try:
            f = f32_bits_of_double(float(n))
        except OverflowError:
            f = None
        d = {"k": "int", "v": n}
        if f is not None:
            d["f32"] = f
        return d

    def j_float(x):
        return {"k": "float", "bits": struct.unpack("<Q", struct.pack("<d", x))[0], "f32": f32_bits_of_double(x)}

    def j_str(s):
        return {"k": "str", "v": [ord(c) for c in s]}

    def j_arr(a):
        s = spec_of(a)
        s.pop("layout")
        return {"k": "ndarray", **s}

    def atom(v):
        if v is None:
            return {"k": "none"}
        if isinstance(v, bool):
            return {"k": "bool", "v": v}
        if isinstance(v, int):
            return j_int(v)
        if isinstance(v, float):
            return j_float(v)
        if isinstance(v, str):
            return j_str(v)
        if isinstance(v, bytes):
            return {"k": "bytes", "v": list(v)}
        if isinstance(v, np.ndarray):
            return j_arr(v) if canon_name(v.dtype) in DT_ALL else {"k": "badarray"}
        if isinstance(v, Tensor):
            return {"k": "typ"}
        if isinstance(v, np.dtype):
            nm = canon_name(v)
            return {"k": "npdtype", "v": nm} if nm in DT_ALL else {"k": "npdtype"}
        if isinstance(v, (list, tuple)):
            return {"k": "sequence"}
        return {"k": "obj"}

    ints = [0, 1, -1, 7, 2**31, -2**63, 2**63 - 1, 2**63, -2**63 - 1, 2**70, 10**400]
    floats = [0.0, -0.0, 1.5, 0.1, -2.75, 1e40, -1e40, 1e-50, float("inf"), float("-inf"), float("nan"),
              3.4028235677973366e38, 1.401298464324817e-45, 16777217.0]
    strs = ["", "a", "ü", "a\x00b", "日本", "\U0001F600x", "NOTSET"]
    byts = [b"", b"ab", b"\xff\xfe"]
    arrs = [np.array([1, 2], dtype=np.int64), np.array(1.5, dtype=np.float32), np.zeros((0, 2), dtype=np.uint8),
            np.array(["ü", ""]), np.array([True]), np.array([2**64 - 1], dtype=np.uint64)]
    bad = [np.array([None, 1], dtype=object), np.zeros(2, dtype="M8[s]"), np.zeros(1, dtype=np.longdouble)]
    dts = [np.dtype("float32"), np.dtype("int64"), np.dtype("<U3"), np.dtype("bool"), np.dtype("M8[s]"),
           np.dtype("S3"), np.dtype(np.longdouble)]
    atoms = ([None, True, False] + ints + floats + strs + byts + arrs + bad + dts
             + [Tensor(np.float32, (1, None, "x")), [1, 2], (1.5,), object(), {"a": 1}.keys.__self__ if False else 3 + 4j])
    for _ in range(n_random):
        atoms.append(rng.choice([rng.randrange(-2**64, 2**64), rng.uniform(-1e39, 1e39),
                                 struct.unpack("<d", struct.pack("<Q", rng.getrandbits(64)))[0],
                                 "".join(chr(c) for c in rand_str(rng))]))
    vals = [(atom(a), a) for a in atoms]
    # sequences
    seqs = [[], [1, 2, 3], [1, -2**63, 2**63 - 1], [2**63], [1, 2.5], [1.5, 2.5], [0.1, float("nan"), 1e40],
            [True], [True, 1.0], ["a", "ü"], ["a", b"b"], ["a", 1], [None], [1, None], [[1, 2]], [(1,)],
            [arrs[0], arrs[3]], [arrs[1]], [arrs[0], 1], [bad[0]], [1.5, "a"], [10**400], [b"x"]]
    for _ in range(n_random):
        k = rng.randrange(0, 5)
        kind = rng.choice(["int", "float", "str", "mixed"])
        pool = {"int": ints[:8], "float": floats, "str": strs, "mixed": ints[:4] + floats[:4] + strs[:3] + [None, True]}[kind]
        seqs.append([rng.choice(pool) for _ in range(k)])
    for s in seqs:
        vals.append(({"k": "seq", "items": [atom(x) for x in s]}, list(s)))
        if rng.random() < 0.3:
            vals.append(({"k": "seq", "items": [atom(x) for x in s]}, tuple(s)))
    return vals


def real_attr_outcome(cls, val):
    """Run the real constructor; ('err', class) or ('ok', decoded AttributeProto | None, stored)."""
    try:
        a = cls(val, "n")
    except Exception as e:  # noqa: BLE001
        return ("err", type(e).__name__)
    try:
        p = W.attribute(a._to_onnx().SerializeToString())
    except Exception:  # noqa: BLE001  (AttrGraph: built through the build callback)
        p = None
    return ("ok", p, a._value)


def run_attr_correspondence(ck, q):
    import spox._attributes as A
    from spox._graph import results
    import spox.opset.ai.onnx.v17 as op

    from translator.c10_tables import CLASSES

    vals = value_universe(ck.rng, ck.pick(40, 4000))
    g = results(y=op.const(1))
    vals.append(({"k": "graph"}, g))
    reqs, real = [], []
    for cname in CLASSES:
        cls = getattr(A, cname, None)
        if cls is None:
            continue
        for j, v in vals:
            reqs.append({"op": "attr", "q": q, "cls": cname, "name": "n", "val": j})
            real.append((cname, cls, j, v))
    outs = ck.driver().ask_many("C10", reqs)
    mism = 0
    n_ok = n_err = n_skipped = 0
    for (cname, cls, j, v), m in zip(real, outs):
        if "error" in m:
            mism += 1
            ck.broken("correspondence", "C10 construct (driver error)", f"{cname} {j}: {m}")
            continue
        if not m["in_domain"]:
            n_skipped += 1
            continue
        r = real_attr_outcome(cls, copy.copy(v) if isinstance(v, list) else v)
        ck.count(("attr", cname, j["k"], r[0]))
        bad = None
        if r[0] == "err":
            n_err += 1
            if m.get("err") != r[1]:
                bad = f"real raises {r[1]}, model {m.get('err') or 'accepts'}"
        else:
            n_ok += 1
            if "ok" not in m:
                bad = f"real accepts, model raises {m.get('err')}"
            else:
                mp, p = m["ok"], r[1]
                if p is not None:
                    if mp["type"] != p["type"] or mp["name"] != p["name"]:
                        bad = f"type/name: model {mp['type']}/{mp['name']} real {p['type']}/{p['name']}"
                    elif cname in ("AttrInt64", "AttrDtype") and mp["i"] != p["i"]:
                        bad = f"i: model {mp['i']} real {p['i']}"
                    elif cname == "AttrFloat32" and not same_words("float32", [mp["f"]], [p["f"]]):
                        bad = f"f: model {mp['f']:#x} real {p['f']:#x}"
                    elif cname == "AttrString" and mp["s"] != list(p["s"]):
                        bad = f"s: model {mp['s']} real {list(p['s'])}"
                    elif cname == "AttrInt64s" and mp["ints"] != p["ints"]:
                        bad = f"ints: model {mp['ints']} real {p['ints']}"
                    elif cname == "AttrFloat32s" and not same_words("float32", mp["floats"], p["floats"]):
                        bad = f"floats: model {mp['floats']} real {p['floats']}"
                    elif cname == "AttrStrings" and mp["strings"] != [list(s) for s in p["strings"]]:
                        bad = f"strings: model {mp['strings']} real {p['strings']}"
                    elif cname == "AttrTensor":
                        rt = W.tensor_typed(p["t"])
                        if any(mp["t"][k] != rt[k] for k in ("data_type", "dims", "int32_data", "int64_data",
                                                             "uint64_data", "float_data", "double_data", "string_data")):
                            bad = f"t: model {mp['t']} real {rt}"
                    elif cname == "AttrTensors":
                        rts = [W.tensor_typed(t) for t in p["tensors"]]
                        if len(rts) != len(mp["tensors"]) or any(
                            a[k] != b[k] for a, b in zip(mp["tensors"], rts)
                            for k in ("data_type", "dims", "int32_data", "int64_data", "uint64_data", "float_data",
                                      "double_data", "string_data")):
                            bad = f"tensors: model {mp['tensors']} real {rts}"
                if not bad and m["stored_len"] is not None and len(r[2]) != m["stored_len"]:
                    bad = f"stored tuple length: model {m['stored_len']} real {len(r[2])}"
        if bad:
            mism += 1
            if mism <= 3:
                ck.broken("correspondence", "C10 construct vs Attr* constructors", f"{cname}({str(v)[:60]!r}): {bad}")
    ck.cov["attr_correspondence"] = {"cases": len(reqs), "accepted": n_ok, "rejected": n_err,
                                     "outside_model_domain": n_skipped, "mismatches": mism}
    return mism


def _cmp_aproto(mp, p):
    """model AProto (driver JSON) vs decoded real AttributeProto, every value field"""
    if mp["type"] != p["type"] or mp["name"] != p["name"]:
        return f"type/name: model {mp['type']}/{mp['name']} real {p['type']}/{p['name']}"
    if mp["i"] != p["i"]:
        return f"i: model {mp['i']} real {p['i']}"
    if not same_words("float32", [mp["f"]], [p["f"]]) or not same_words("float32", mp["floats"], p["floats"]):
        return f"f/floats: model {mp['f']:#x} {mp['floats']} real {p['f']:#x} {p['floats']}"
    if mp["s"] != list(p["s"]) or mp["ints"] != p["ints"] or mp["strings"] != [list(x) for x in p["strings"]]:
        return f"s/ints/strings: model {mp['s']} {mp['ints']} {mp['strings']} real {list(p['s'])} {p['ints']} {p['strings']}"
    keys = ("data_type", "dims", "int32_data", "int64_data", "uint64_data", "float_data", "double_data", "string_data")
    rts = ([W.tensor_typed(p["t"])] if p["t"] is not None else []) + [W.tensor_typed(t) for t in p["tensors"]]
    mts = ([mp["t"]] if mp["t"] is not None else []) + list(mp["tensors"])
    if len(rts) != len(mts) or any(a[k] != b[k] for a, b in zip(mts, rts) for k in keys):
        return f"tensors: model {str(mts)[:120]} real {str(rts)[:120]}"
    return None


def run_ref_correspondence(ck, q):
    """tie H for Model/AttrRef.lean: chains of `AttrX(_Ref(prev, outer, rname), name)` over a concrete root - outcome
    class, `_to_onnx()` of the reference (name, ref_attr_name, type), `.value` (the root's stored object), `deref()`."""
    import spox._attributes as A

    from translator.c10_tables import CLASSES

    rng = ck.rng
    vals = value_universe(rng, ck.pick(10, 400))
    names = [c for c in CLASSES if hasattr(A, c) and c != "AttrGraph"]
    reqs, real = [], []
    for rcn in names:
        for j, v in vals:
            for _ in range(ck.pick(1, 3)):
                chain = []
                for k in range(rng.randrange(1, 4)):
                    c = rcn if rng.random() < 0.75 else rng.choice(names)
                    chain.append({"cls": c, "name": f"n{k}", "outer": f"o{k}", "rname": f"r{k}"})
                reqs.append({"op": "ref", "q": q, "root": {"cls": rcn, "name": "root", "val": j}, "chain": chain})
                real.append((rcn, j, v, chain))
    outs = ck.driver().ask_many("C10", reqs)
    mism = n = 0
    for (rcn, j, v, chain), m in zip(real, outs):
        if "error" in m:
            mism += 1
            ck.broken("correspondence", "C10 _Ref model (driver error)", f"{rcn} {j}: {m}")
            continue
        if m.get("in_domain") is False:
            continue
        n += 1
        bad = None
        try:
            root = getattr(A, rcn)(copy.copy(v) if isinstance(v, list) else v, "root")
            rerr = None
        except Exception as e:  # noqa: BLE001
            rerr = type(e).__name__
        if rerr is not None:
            if m.get("root_err") != rerr:
                bad = f"root: real raises {rerr}, model {m}"
        elif "root_err" in m:
            bad = f"root: real accepts, model raises {m['root_err']}"
        else:
            cur, err = root, None
            for i, c in enumerate(chain):
                try:
                    cur = getattr(A, c["cls"])(A._Ref(cur, c["outer"], c["rname"]), c["name"])
                except Exception as e:  # noqa: BLE001
                    err = (i, type(e).__name__)
                    break
            ck.count(("ref", rcn, j["k"], len(chain), err is None))
            if err is not None:
                if (m.get("at"), m.get("err")) != err:
                    bad = f"real raises {err[1]} at link {err[0]}, model {m}"
            elif "err" in m:
                bad = f"real accepts the chain, model raises {m['err']} at {m['at']}"
            else:
                p = cur._to_onnx()
                if (p.name, p.ref_attr_name, p.type) != (m["name"], m["ref"], m["type"]) or p.ByteSize() != len(
                        type(p)(name=p.name, ref_attr_name=p.ref_attr_name, type=p.type).SerializeToString()):
                    bad = f"reference proto: real ({p.name!r}, {p.ref_attr_name!r}, {p.type}), model ({m['name']!r}, {m['ref']!r}, {m['type']})"
                elif cur.value is not root._value:
                    bad = "value of the chain is not the root's stored object"
                else:
                    try:
                        dp = W.attribute(cur.deref()._to_onnx().SerializeToString())
                        derr = None
                    except Exception as e:  # noqa: BLE001
                        derr = type(e).__name__
                    md = m["deref"]
                    if derr is not None:
                        if md.get("err") != derr:
                            bad = f"deref: real raises {derr}, model {str(md)[:80]}"
                    elif "ok" not in md:
                        bad = f"deref: real accepts, model raises {md.get('err')}"
                    else:
                        bad = _cmp_aproto(md["ok"], dp)
                        bad = bad and "deref: " + bad
        if bad:
            mism += 1
            if mism <= 3:
                ck.broken("correspondence", "C10 _Ref model vs real attribute references", f"{rcn}({str(v)[:50]!r}) chain {[c['cls'] for c in chain]}: {bad}")
    ck.cov["ref_correspondence"] = {"cases": n, "mismatches": mism}
    return mism


def run_fields_correspondence(ck):
    """tie H for Model/VarFields.lean: a real `BaseInputs` dataclass with a single, an optional and a variadic field,
    every kind of object in every slot (Var, None, int, list / tuple / generator / iterator of Vars and non-Vars):
    outcome class, `_flatten()`, `get_vars()`, and the same after the caller mutated the list it handed over."""
    import numpy as np

    from harness import lib_c10fun as F
    from spox import Tensor, argument

    rng = ck.rng
    pool = [argument(Tensor(np.float32, (2,))) for _ in range(5)]
    ids = {id(v): i for i, v in enumerate(pool)}

    def item():
        r = rng.random()
        return {"var": rng.randrange(5)} if r < 0.8 else ("none" if r < 0.9 else "other")

    def real_item(j):
        return pool[j["var"]] if isinstance(j, dict) else None if j == "none" else 5

    def given(kind):
        r = rng.random()
        if (kind == "variadic" and r < 0.85) or (kind != "variadic" and r < 0.1):
            n = rng.choice([0, 1, 2, 2, 3, 4])
            its = [item() if rng.random() < 0.12 else {"var": rng.randrange(5)} for _ in range(n)]
            return {"t": "iter", "one_shot": rng.random() < 0.4, "items": its, "as": rng.choice(["list", "tuple"])}
        if kind == "variadic":
            return {"t": "obj", "item": item()}
        r = rng.random()
        return {"t": "obj", "item": {"var": rng.randrange(5)} if r < 0.75 else item()}

    reqs, reals = [], []
    for _ in range(ck.pick(400, 6000)):
        fields = [{"name": n, "kind": k, "given": given(k)} for n, k in (("A", "single"), ("B", "optional"), ("C", "variadic"))]
        reqs.append({"op": "varfields", "fields": fields})
        reals.append(fields)
    outs = ck.driver().ask_many("C10", reqs)
    mism = 0
    for fields, m in zip(reals, outs):
        kw, lists = {}, []
        for f in fields:
            g = f["given"]
            if g["t"] == "obj":
                kw[f["name"]] = real_item(g["item"])
            else:
                src = [real_item(j) for j in g["items"]]
                if g["one_shot"]:
                    kw[f["name"]] = (x for x in src)
                elif g["as"] == "list":
                    kw[f["name"]] = src
                    lists.append(src)
                else:
                    kw[f["name"]] = tuple(src)
        try:
            inst = F.In3(**kw)
            err = None
        except Exception as e:  # noqa: BLE001
            err = type(e).__name__
        ck.count(("fields", tuple((f["given"]["t"], f["given"].get("one_shot")) for f in fields), err))
        bad = None
        if err is not None:
            if m.get("err") != err:
                bad = f"real raises {err}, model {str(m)[:80]}"
        elif "err" in m:
            bad = f"real accepts, model raises {m['err']}"
        else:
            for l in lists:  # the caller mutates every list it handed over
                l.append(pool[0])
                l.reverse()
            flat = [[k, ids.get(id(v))] for k, v in inst._flatten()]
            gv = [[k, ids[id(v)]] for k, v in inst.get_vars().items()]
            if flat != m["flat"] or gv != m["vars"]:
                bad = f"_flatten/get_vars after the caller's mutations: real {flat} {gv}, model {m['flat']} {m['vars']}"
        if bad:
            mism += 1
            if mism <= 3:
                ck.broken("correspondence", "C10 BaseVars model vs real Inputs dataclass", f"{[f['given'] for f in fields]}: {bad}"[:400])
    ck.cov["fields_correspondence"] = {"cases": len(reqs), "mismatches": mism}
    return mism


# ------------------------------------------------------- tie H (2b): float rounding on the attribute path
def boundary_doubles(rng, n_random):
    """binary64 patterns around everything that matters for (float)double."""
    out = []
    d2b = lambda x: struct.unpack("<Q", struct.pack("<d", x))[0]  # noqa: E731
    for x in (0.0, -0.0, 0.1, 1 / 3, 1.0, 16777216.0, 16777217.0, 16777219.0, 1e40, -1e40, 1e-50, 3.4028234663852886e38,
              3.4028235677973366e38, 2.0**-126, 2.0**-149, 2.0**-150, 2.0**-151, 2.0**127, 2.0**128, float("inf"), float("-inf")):
        b = d2b(x)
        out += [b, b + 1, b - 1 if b else b, b ^ (1 << 63)]
    out += [0x7FF0000000000001, 0x7FF8000000000000, 0xFFF4000012345678, 0x7FF00000FFFFFFFF, 0x7FFFFFFFFFFFFFFF, 1, 0x000FFFFFFFFFFFFF]
    for _ in range(n_random):
        kind = rng.randrange(5)
        sign = rng.getrandbits(1) << 63
        if kind == 0:      # exactly half way between two float32 values (normal range), and one ulp either side
            e = rng.randrange(897, 1151)
            m = (rng.getrandbits(23) << 29) | (1 << 28)
            b = sign | (e << 52) | m
            out += [b, b + 1, b - 1]
        elif kind == 1:    # the subnormal range of float32 and below
            e = rng.randrange(840, 898)
            out.append(sign | (e << 52) | (rng.getrandbits(52) if rng.random() < 0.7 else (rng.getrandbits(20) << 32)))
        elif kind == 2:    # around overflow
            out.append(sign | (rng.randrange(1148, 1156) << 52) | (rng.choice([0, (1 << 52) - 1, 0xFFFFFFE000000, 0xFFFFFFF000000]) ^ rng.getrandbits(3)))
        elif kind == 3:    # NaN payloads
            out.append(sign | (0x7FF << 52) | rng.randrange(1, 1 << 52))
        else:
            out.append(rng.getrandbits(64))
    return out


def run_float_correspondence(ck):
    import numpy as np

    rng = ck.rng
    bits = boundary_doubles(rng, ck.pick(20000, 1500000))
    got = ck.driver().ask_many("C10", [{"op": "r32", "bits": bits}])[0]["f32"]
    with np.errstate(all="ignore"):
        exp = np.array(bits, dtype=np.uint64).view(np.float64).astype(np.float32).view(np.uint32).tolist()
    bad = [(hex(b), hex(g), hex(e)) for b, g, e in zip(bits, got, exp) if not same_words("float32", [g], [e])]
    ints = [0, 1, -1, 2**53, 2**53 + 1, 2**53 + 2, 2**53 + 3, -(2**53 + 1), 2**63, 2**64 - 1, 2**1023,
            2**1024 - 2**970 - 1, 2**1024 - 2**970, 2**1024, 10**400, 2**52 + 1, 2**100 + 2**47, 2**100 + 2**47 + 1]
    ints += [rng.getrandbits(rng.randrange(1, 1100)) * rng.choice([1, -1]) for _ in range(ck.pick(2000, 40000))]
    got_i = ck.driver().ask_many("C10", [{"op": "i2d", "ints": ints}])[0]["f64"]

    def real(n):
        try:
            return struct.unpack("<Q", struct.pack("<d", float(n)))[0]
        except OverflowError:
            return None

    bad_i = [(n, g, real(n)) for n, g in zip(ints, got_i) if g != real(n)]
    ck.count(("float-corr", "r32"), len(bits))
    ck.count(("float-corr", "i2d"), len(ints))
    for b in bad[:3]:
        ck.broken("correspondence", "C10 r32 vs numpy float64->float32", f"double {b[0]}: model {b[1]} numpy {b[2]}")
    for b in bad_i[:3]:
        ck.broken("correspondence", "C10 i2d vs Python float(int)", f"int {str(b[0])[:60]}: model {b[1]} python {b[2]}")
    ck.cov["float_correspondence"] = {"doubles": len(bits), "ints": len(ints), "mismatches": len(bad) + len(bad_i)}


# ------------------------------------------------- tie H (4): the embedding path (const / initializer / constant)
def py_values(rng, extra):
    """An exhaustive small universe of values a user hands to const(): -> [(json for the model, python value)]"""
    import numpy as np

    def sc(v):
        if isinstance(v, bool):
            return {"k": "bool", "v": v}
        if isinstance(v, int):
            return {"k": "int", "v": v}
        if isinstance(v, float):
            return {"k": "float", "bits": struct.unpack("<Q", struct.pack("<d", v))[0]}
        return {"k": "str", "v": [ord(c) for c in v]}

    bools = [True, False]
    ints = [0, 1, -1, 2**31, 2**63 - 1, -2**63, 2**63, 2**64 - 1, 2**64, -2**63 - 1, 2**53 + 1, 10**400]
    floats = [0.0, -0.0, 1.5, 0.1, float("nan"), float("inf"), 1e40, 5e-324]
    strs = ["", "a", "ü", "a\x00", "\x00", "a\x00b", "日本\U0001F600"]
    scalars = bools + ints + floats + strs
    out = [(sc(v), v) for v in scalars]
    # numpy scalars of every element type
    for d in DT_ALL:
        if d == "str":
            for t in ("x", "ü\x00", ""):
                out.append(({"k": "npscalar", "dtype": "str", "words": [], "str": [ord(c) for c in t]}, np.str_(t)))
            continue
        for _ in range(2):
            ws = rand_words(rng, d, comps(d))
            arr = make_array({"dtype": d, "shape": [], "words": ws})
            out.append(({"k": "npscalar", "dtype": d, "words": ws, "str": []}, arr[()]))
    # arrays (incl. 0-d, empty, non-contiguous)
    for d in DT_ALL:
        for shape in ([], [0], [2, 2]):
            spec = rand_spec(rng, d, shape, layout=rng.choice(["C", "F", "strided"]))
            arr = make_array(spec)
            out.append(({"k": "array", **{k: v for k, v in spec_of(arr).items() if k != "layout"}}, arr))
    # all lists of length <= 2 over a base set, plus seeded longer ones
    base = [True, False, 0, -1, 2**63 - 1, 2**63, 2**64 - 1, 2**64, -2**63 - 1, 1.5, -0.0, float("nan"), "a", "ü\x00", ""]
    lists = [[]] + [[a] for a in base] + [[a, b] for a in base for b in base]
    for _ in range(extra):
        lists.append([rng.choice(base) for _ in range(rng.randrange(3, 6))])
    for l in lists:
        out.append(({"k": "list", "items": [sc(x) for x in l]}, list(l)))
    out.append(({"k": "list", "items": [sc(x) for x in (1, 2)]}, (1, 2)))
    small = [True, 0, -1, 2**63, 1.5, "a"]
    nests = [[[a], [b]] for a in small for b in small] + [[[a, b]] for a in small for b in small]
    nests += [[[1], [2, 3]], [[], []], [[1, 2], [3, 4.5]], [[], [1]], [["a", "b"], ["c", "d\x00"]]]
    for n in nests:
        out.append(({"k": "nested", "rows": [[sc(x) for x in r] for r in n]}, [list(r) for r in n]))
    return out


def _real_embedded(fn_name, make, route, args_of=None):
    """Run a real route; ('err', class) or ('ok', {type, tensor(words), prop})."""
    import spox.opset.ai.onnx.v17 as op

    try:
        var = make()
    except Exception as e:  # noqa: BLE001
        return ("err", type(e).__name__)
    res = {"type": None, "tensor": None, "prop": None, "route": None}
    t = var.type
    res["type"] = (canon_name(t.dtype), list(t.shape))
    if route == "constant":
        a = _first_attr_tensor(_build_bytes(var), "Constant", "value")
        res["route"] = "constant" if a is not None and a["type"] == W.ATTR_TYPE["TENSOR"] else "?"
        res["tensor"] = W.tensor_typed(a["t"]) if a else None
    else:
        args = (var,) if fn_name == "arg_default" else ()
        g = W.fields(W.graph_of_model(_build_bytes(op.identity(var), args, ["x"] if args else None)))
        inits = [v for f, _, v in g if f == W.GRAPH_INITIALIZER]
        res["route"] = "initializer" if len(inits) == 1 else "?"
        res["tensor"] = W.tensor_typed(inits[0]) if inits else None
    if fn_name != "arg_default":
        try:
            res["prop"] = peek("Var._get_value", lambda: _obs_array(var._get_value()))
        except ValueError:
            res["prop"] = {"dtype": "<no propagated value>", "shape": [], "data": []}
    return ("ok", res)


def _cmp_embedded(m, r):
    """model outcome json vs real outcome -> None | description"""
    if "unmodelled" in m:
        return None
    if r[0] == "err":
        name = r[1] if r[1] in ("TypeError", "AttributeError", "ValueError") else "other"
        return None if m.get("err") == name else f"real raises {r[1]}, model {m.get('err') or 'accepts'}"
    if "ok" not in m:
        return f"real accepts, model raises {m.get('err')}"
    mo, ro = m["ok"], r[1]
    if mo["route"] != ro["route"]:
        return f"route: model {mo['route']} real {ro['route']}"
    if [mo["type"]["dtype"], mo["type"]["shape"]] != [ro["type"][0], ro["type"][1]]:
        return f"Var.type: model {mo['type']} real {ro['type']}"
    for k in ("data_type", "dims", "int32_data", "int64_data", "uint64_data", "double_data", "string_data"):
        if mo["proto"][k] != ro["tensor"][k]:
            return f"tensor field {k}: model {str(mo['proto'][k])[:60]} real {str(ro['tensor'][k])[:60]}"
    if not same_words("float32", mo["proto"]["float_data"], ro["tensor"]["float_data"]):
        return "tensor field float_data"
    if ro["prop"] is not None and ro["prop"] is not UNOBS and mo["prop"] is not None:
        mp = mo["prop"]
        data = mp["words"] if mp["dtype"] != "str" else [list("".join(map(chr, s)).encode("utf-8")) for s in mp["strs"]]
        if mp["dtype"] != ro["prop"]["dtype"] or mp["shape"] != ro["prop"]["shape"] or not (
                data == ro["prop"]["data"] if mp["dtype"] == "str" else same_words(mp["dtype"], data, ro["prop"]["data"])):
            return f"propagated value: model {str(mp)[:80]} real {str(ro['prop'])[:80]}"
    return None


def run_embed_correspondence(ck, q):
    import numpy as np

    import spox.opset.ai.onnx.v17 as op

    fut_init = _imp("spox._future", "initializer")
    g_init = _imp("spox._graph", "initializer")
    g_args = _imp("spox._graph", "arguments")
    vals = py_values(ck.rng, ck.pick(60, 6000))
    reqs, real = [], []
    for j, v in vals:
        reqs.append({"op": "embed", "q": q, "fn": "const", "val": j})
        real.append(("const", j, v, lambda v=v: _real_embedded("const", lambda: op.const(v), "constant")))
        if fut_init is not None:
            reqs.append({"op": "embed", "q": q, "fn": "future_initializer", "val": j})
            real.append(("future_initializer", j, v, lambda v=v: _real_embedded("future_initializer", lambda: fut_init(v), "initializer")))
        if j["k"] == "array":
            if g_init is not None:
                reqs.append({"op": "embed", "q": q, "fn": "initializer", "val": j})
                real.append(("initializer", j, v, lambda v=v: _real_embedded("initializer", lambda: g_init(v), "initializer")))
            if g_args is not None:
                reqs.append({"op": "embed", "q": q, "fn": "arg_default", "val": j})
                real.append(("arg_default", j, v, lambda v=v: _real_embedded("arg_default", lambda: g_args(x=v)[0], "initializer")))
    outs = ck.driver().ask_many("C10", reqs)
    mism = unmod = 0
    for (fn, j, v, run_real), m in zip(real, outs):
        if "error" in m:
            mism += 1
            ck.broken("correspondence", "C10 embed (driver error)", f"{fn} {j}: {m}")
            continue
        if "unmodelled" in m:
            unmod += 1
            continue
        r = run_real()
        ck.count(("embed-corr", fn, j["k"], r[0], str(j.get("dtype", ""))))
        bad = _cmp_embedded(m, r)
        if bad:
            mism += 1
            if mism <= 3:
                ck.broken("correspondence", "C10 const/initializer model vs real", f"{fn}({str(v)[:60]!r}): {bad}")
    # constant(value_*=…): attribute + propagated value, over the attribute value universe
    keys = {"value": "AttrTensor", "value_float": "AttrFloat32", "value_floats": "AttrFloat32s", "value_int": "AttrInt64",
            "value_ints": "AttrInt64s", "value_string": "AttrString", "value_strings": "AttrStrings"}
    uni = value_universe(ck.rng, ck.pick(20, 300))
    creqs, creal = [], []
    for key in keys:
        for j, v in uni:
            if j["k"] in ("none",):
                continue  # None means "attribute not given"
            creqs.append({"op": "constant", "q": q, "key": key, "val": j})
            creal.append((key, j, v))
    couts = ck.driver().ask_many("C10", creqs)
    n_const = 0
    for (key, j, v), m in zip(creal, couts):
        if "error" in m:
            mism += 1
            ck.broken("correspondence", "C10 constant (driver error)", f"{key} {j}: {m}")
            continue
        if j["k"] in ("ndarray", "badarray", "sequence", "bytes") and key in ("value_floats", "value_ints", "value_strings"):
            continue  # outside the model's domain (inDomain)
        try:
            var = op.constant(**{key: copy.copy(v) if isinstance(v, list) else v})
            r = ("ok", var)
        except Exception as e:  # noqa: BLE001
            r = ("err", type(e).__name__)
        n_const += 1
        ck.count(("constant-corr", key, j["k"], r[0]))
        bad = None
        if r[0] == "err":
            if "ok" in m and not m["prop_modelled"]:
                pass  # value propagation of a `bytes` string attribute (numpy decodes it as ASCII): outside the model
            elif m.get("err") != r[1]:
                bad = f"real raises {r[1]}, model {m.get('err') or 'accepts'}"
        elif "ok" not in m:
            bad = f"real accepts, model raises {m.get('err')}"
        elif m["prop_modelled"]:
            try:
                o = peek("Var._get_value", lambda: _obs_array(r[1]._get_value()))
            except ValueError as e:  # "No propagated value associated with this Var."
                o = UNOBS
                bad = f"no propagated value ({e}), model {str(m['prop'])[:60]}"
            mp = m["prop"]
            if o is not UNOBS:
                data = mp["words"] if mp["dtype"] != "str" else [list("".join(map(chr, s)).encode("utf-8")) for s in mp["strs"]]
                t = r[1].type
                if (mp["dtype"], mp["shape"]) != (canon_name(t.dtype), list(t.shape)):
                    bad = f"Var.type: model {mp['dtype']}{mp['shape']} real {t}"
                elif mp["dtype"] != o["dtype"] or mp["shape"] != o["shape"] or not (
                        data == o["data"] if mp["dtype"] == "str" else same_words(mp["dtype"], data, o["data"])):
                    bad = f"propagated: model {str(mp)[:80]} real {str(o)[:80]}"
        if bad:
            mism += 1
            if mism <= 3:
                ck.broken("correspondence", "C10 constant(value_*) model vs real", f"constant({key}={str(v)[:50]!r}): {bad}")
    ck.cov["embed_correspondence"] = {"values": len(vals), "cases": len(reqs), "outside_model": unmod,
                                      "constant_cases": n_const, "mismatches": mism}


# ------------------------------------------------------------------- real capture sites (shared)
class Site:
    """A real constructor that receives a caller-owned mutable object.

    make(content) -> caller object; call(obj) -> handle; read(handle) -> {"model": …, "value": …} observations
    taken from a model built *now* / from the propagated or stored value; content is abstract (JSON).
    """

    def __init__(self, name, kind, table_site, call, read, dtype="int64"):
        self.name, self.kind, self.table_site, self.call, self.read, self.dtype = name, kind, table_site, call, read, dtype


def _build_bytes(var, args=(), names=None):
    """Serialized ModelProto through the public `spox.build`."""
    import spox

    names = names or [f"in{i}" for i in range(len(args))]
    return spox.build(dict(zip(names, args)), {"y": var}).SerializeToString()


def _first_attr_tensor(model_bytes, op_type, attr):
    g = W.graph_parts(W.graph_of_model(model_bytes))
    for n in g["nodes"]:
        if n["op_type"] == op_type:
            for a in n["attrs"]:
                if a["name"] == attr:
                    return a
    return None


def _obs_tensor(t):
    return {"dtype": t["dtype"], "shape": t["dims"], "data": t.get("words", [list(s) for s in t.get("strs", [])])}


def _obs_array(a):
    import numpy as np

    a = np.asarray(a)
    d = canon_name(a.dtype)
    ws = words_of(a)
    if d in ("str", "object"):
        d, ws = "str", [list("".join(map(chr, s)).encode("utf-8")) for s in ws]
    return {"dtype": d, "shape": list(a.shape), "data": ws}


def sites():
    import numpy as np

    import spox.opset.ai.onnx.v17 as op
    from spox import Tensor

    class _Missing:
        """Stands for an internal module that is gone: any use raises AttributeError (-> site dropped)."""

        def __getattr__(self, k):
            raise AttributeError(k)

    A = _imp("spox._attributes") or _Missing()
    fut = _imp("spox._future") or _Missing()
    arguments = _imp("spox._graph", "arguments")
    initializer = _imp("spox._graph", "initializer")

    out = []

    def const_read(attr="value", optype="Constant"):
        def read(v):
            a = _first_attr_tensor(_build_bytes(v), optype, attr)
            return {"model": _obs_tensor(W.tensor(a["t"])), "value": peek("Var._get_value", lambda: _obs_array(v._get_value()))}
        return read

    def init_read(v):
        mb = _build_bytes(op.identity(v))
        g = W.graph_parts(W.graph_of_model(mb))
        return {"model": _obs_tensor(g["initializers"][0]), "value": peek("Var._get_value", lambda: _obs_array(v._get_value()))}

    out.append(Site("constant(value=arr)", "flat", "constant(value)", lambda a: op.constant(value=a), const_read()))
    out.append(Site("const(arr)", "flat", "const(ndarray)", lambda a: op.const(a), const_read()))
    out.append(Site("const(arr, dtype)", "flat", "const(ndarray)", lambda a: op.const(a, a.dtype), const_read()))
    out.append(Site("initializer(arr)", "flat", "initializer", lambda a: initializer(a), init_read))
    out.append(Site("_future.initializer(arr)", "flat", "_future.initializer(ndarray)", lambda a: fut.initializer(a), init_read))
    out.append(Site("_future.initializer(arr, dtype)", "flat", "_future.initializer(ndarray)",
                    lambda a: fut.initializer(a, a.dtype), init_read))

    def arg_call(a):
        (x,) = arguments(x=a)
        return x

    def arg_read(x):
        mb = _build_bytes(op.identity(x), (x,), ["x"])
        g = W.graph_parts(W.graph_of_model(mb))
        t = next(t for t in g["initializers"] if t["name"] == "x")
        return {"model": _obs_tensor(t), "value": peek("Argument.default.value", lambda: _obs_array(x._op.attrs.default.value))}

    out.append(Site("arguments(x=arr)", "flat", "arguments(default)", arg_call, arg_read))

    def cos_call(a):
        return op.constant_of_shape(op.const(np.array([2], dtype=np.int64)), value=a)

    def cos_read(v):
        a = _first_attr_tensor(_build_bytes(v), "ConstantOfShape", "value")
        return {"model": _obs_tensor(W.tensor(a["t"])), "value": peek("node.attrs.value", lambda: _obs_array(v._op.attrs.value.value))}

    out.append(Site("constant_of_shape(value=arr)", "flat1", "AttrTensor", cos_call, cos_read))

    def at_read(a):
        return {"model": peek("Attr._to_onnx", lambda: _obs_tensor(W.tensor(W.attribute(a._to_onnx().SerializeToString())["t"]))),
                "value": peek("Attr.value", lambda: _obs_array(a.value))}

    out.append(Site("AttrTensor(arr)", "flat", "AttrTensor", lambda a: A.AttrTensor(a, "v"), at_read))

    # nested lists / lists of arrays
    def nested_read(v):
        a = _first_attr_tensor(_build_bytes(v), "Constant", "value")
        return {"model": _obs_tensor(W.tensor(a["t"])), "value": peek("Var._get_value", lambda: _obs_array(v._get_value()))}

    out.append(Site("const(nested list)", "nestlist", "const(nested list)", lambda l: op.const(l), nested_read))
    out.append(Site("const(nested list, dtype)", "nestlist", "const(nested list)", lambda l: op.const(l, np.int32), nested_read))
    out.append(Site("_future.initializer(nested list)", "nestlist", "_future.initializer(nested list)",
                    lambda l: fut.initializer(l), init_read))

    def ats_read(a):
        return {"model": peek("Attr._to_onnx", lambda: [_obs_tensor(W.tensor(t)) for t in W.attribute(a._to_onnx().SerializeToString())["tensors"]]),
                "value": peek("Attr.value", lambda: [_obs_array(x) for x in a.value])}

    out.append(Site("AttrTensors([arr…])", "nestarr", "AttrTensors", lambda l: A.AttrTensors(l, "v"), ats_read))

    # lists of scalars
    def list_site(name, table, call, optype, attr, field, conv):
        def read(v):
            a = _first_attr_tensor(_build_bytes(v), optype, attr)
            obs = {"model": conv(a[field]), "value": peek("node.attrs.value", lambda: (
                conv(list(getattr(v._op.attrs, attr).value)) if field != "floats" else
                [f32_bits_of_double(float(x)) for x in getattr(v._op.attrs, attr).value]))}
            # the propagated value of the Constant: a 1-d int64 / float32 / str tensor of the same items
            pv = peek("Var._get_value", lambda: _obs_array(v._get_value()))
            if pv is UNOBS:
                return obs
            want_d = {"ints": "int64", "floats": "float32", "strings": "str"}[field]
            if field == "strings":
                items = ["".join(map(chr, bytes(b).decode("utf-8").encode("utf-32-le")[::4])) if False else bytes(b).decode("utf-8") for b in pv["data"]]
            elif field == "ints":
                items = [x - (1 << 64) if x >> 63 else x for x in pv["data"]]
            else:
                items = pv["data"]
            obs["model"] = {"attr": obs["model"], "propagated": [pv["dtype"] == want_d, pv["shape"], items]}
            return obs
        return Site(name, "scalars:" + field, table, call, read)

    ident = lambda xs: [x.decode("utf-8") if isinstance(x, bytes) else x for x in xs]  # noqa: E731
    out.append(list_site("constant(value_ints=list)", "constant(value_ints)", lambda l: op.constant(value_ints=l),
                         "Constant", "value_ints", "ints", ident))
    out.append(list_site("constant(value_floats=list)", "AttrFloat32s", lambda l: op.constant(value_floats=l),
                         "Constant", "value_floats", "floats", ident))
    out.append(list_site("constant(value_strings=list)", "AttrStrings", lambda l: op.constant(value_strings=l),
                         "Constant", "value_strings", "strings", ident))

    perm_args = {}

    def perm_call(l):
        from spox import argument

        x = argument(Tensor(np.float32, (1,) * len(l)))
        v = op.transpose(x, perm=l)
        perm_args[id(v)] = (x, v)
        return v

    def perm_read(v):
        mb = _build_bytes(v, (perm_args[id(v)][0],))
        a = _first_attr_tensor(mb, "Transpose", "perm")
        return {"model": a["ints"], "value": peek("node.attrs.value", lambda: list(v._op.attrs.perm.value))}

    out.append(Site("transpose(perm=list)", "perm", "AttrInt64s", perm_call, perm_read))

    def ai_read(a):
        return {"model": peek("Attr._to_onnx", lambda: W.attribute(a._to_onnx().SerializeToString())["ints"]),
                "value": peek("Attr.value", lambda: list(a.value))}

    out.append(Site("AttrInt64s(list)", "scalars:ints", "AttrInt64s", lambda l: A.AttrInt64s(l, "v"), ai_read))
    out.append(Site("AttrInt64s.maybe(list)", "scalars:ints", "_AttrIterable.maybe",
                    lambda l: A.AttrInt64s.maybe(l, "v"), ai_read))

    # variadic inputs: a list of Vars (indices into a pool of named arguments)
    from spox import argument

    pool = tuple(argument(Tensor(np.float32, (2,))) for _ in range(4))

    def var_make(idx):
        return [pool[i] for i in idx]

    def var_read(v):
        mb = _build_bytes(v, pool, [f"a{i}" for i in range(len(pool))])
        g = W.graph_parts(W.graph_of_model(mb))
        node = next(n for n in g["nodes"] if n["op_type"] in ("Concat", "Max", "SequenceConstruct"))
        return {"model": node["inputs"], "value": peek("node.inputs", lambda: [
            f"a{pool.index(x)}" for x in v._op.inputs.get_fields()["inputs" if "inputs" in v._op.inputs.get_fields() else "data_0"]])}

    s = Site("concat(list of Vars)", "vars", "BaseVars.variadic", lambda l: op.concat(l, axis=0), var_read)
    s.var_make = var_make
    out.append(s)
    s = Site("max(list of Vars)", "vars", "BaseVars.variadic", lambda l: op.max(l), var_read)
    s.var_make = var_make
    out.append(s)
    # a site whose constructor / observation is not reachable any more is dropped (and noted), not crashed on
    import random as _random

    usable = []
    for site in out:
        try:
            trial = gen_content(_random.Random(0), site.kind)
            site.read(site.call(make_caller_object(site, trial)))
            usable.append(site)
        except (AttributeError, ImportError, NameError, KeyError, StopIteration) as e:
            UNOBSERVABLE.setdefault(f"site {site.name}", f"{type(e).__name__}: {e}"[:200])
        except TypeError as e:
            if arguments is None or initializer is None:
                UNOBSERVABLE.setdefault(f"site {site.name}", f"{type(e).__name__}: {e}"[:200])
            else:
                usable.append(site)  # a real TypeError on a valid value is for the oracle to report
        except Exception:  # noqa: BLE001  anything else is a behaviour of spox on a valid value: let the oracle see it
            usable.append(site)
    return usable


def gen_content(rng, kind):
    """Abstract caller content for a site kind."""
    if kind in ("flat", "flat1"):
        d = rng.choice([x for x in DT_ALL])
        shape = [1] if kind == "flat1" else rng.choice([[3], [2, 2], [1], [4]])
        if kind == "flat1" and d in ("str", "bfloat16", "complex64", "complex128"):
            d = "float32"
        spec = rand_spec(rng, d, shape, layout=rng.choice(["C", "C", "F", "strided"]))
        if kind == "flat" and rng.random() < 0.3:
            spec["layout"] = "C"
            spec["via"] = rng.choice(["ro_view", "broadcast", "diagonal"])
        return spec
    if kind == "nestlist":
        r, c = rng.randrange(1, 4), rng.randrange(1, 4)
        return [[rng.randrange(-50, 50) for _ in range(c)] for _ in range(r)]
    if kind == "nestarr":
        return [rand_spec(rng, rng.choice(["int64", "float32", "uint8", "str"]), rng.choice([[2], [1], [3]]), layout="C")
                for _ in range(rng.randrange(1, 4))]
    if kind == "scalars:ints":
        return [rng.randrange(-2**63, 2**63) if rng.random() < 0.3 else rng.randrange(-9, 9) for _ in range(rng.randrange(1, 5))]
    if kind == "scalars:floats":
        return [rng.choice([0.1, -0.0, 1.5, 1e-3, 3.25, 1e30]) for _ in range(rng.randrange(1, 5))]
    if kind == "scalars:strings":
        return ["".join(chr(c) for c in rand_str(rng) if c) for _ in range(rng.randrange(1, 4))]
    if kind == "perm":
        p = list(range(rng.randrange(1, 5)))
        rng.shuffle(p)
        return p
    if kind == "vars":
        return [rng.randrange(4) for _ in range(rng.randrange(1, 4))]
    raise ValueError(kind)


def gen_muts(rng, kind, content):
    """A caller-side mutation history (abstract)."""
    n = rng.randrange(1, 4)
    out = []
    for _ in range(n):
        if kind in ("flat", "flat1"):
            out.append(rng.choice([{"op": "set", "idx": rng.randrange(64), "seed": rng.getrandbits(64)},
                                   {"op": "fill", "seed": rng.getrandbits(64)}, {"op": "reverse"}]))
        elif kind == "nestlist":
            out.append(rng.choice([{"op": "inner_set", "row": rng.randrange(8), "idx": rng.randrange(8), "val": rng.randrange(100, 200)},
                                   {"op": "outer_set", "row": rng.randrange(8), "val": [rng.randrange(100, 200)] * len(content[0])},
                                   {"op": "reverse"}, {"op": "inner_reverse", "row": rng.randrange(8)}]))
        elif kind == "nestarr":
            out.append(rng.choice([{"op": "inner_set", "row": rng.randrange(8), "idx": rng.randrange(8), "seed": rng.getrandbits(64)},
                                   {"op": "pop"}, {"op": "reverse"}, {"op": "dup"}]))
        else:
            out.append(rng.choice([{"op": "set", "idx": rng.randrange(8), "alt": rng.randrange(4)}, {"op": "append", "alt": rng.randrange(4)},
                                   {"op": "pop"}, {"op": "reverse"}, {"op": "clear"}, {"op": "insert0", "alt": rng.randrange(4)}]))
    return out


def _alt_value(kind, alt):
    if kind in ("scalars:ints", "perm"):
        return [7, -3, 0, 2**40][alt]
    if kind == "scalars:floats":
        return [9.5, -1.25, 0.0, 2.0**-20][alt]
    if kind == "scalars:strings":
        return ["zz", "", "ß", "q\x00r"][alt]
    raise ValueError(kind)


def apply_mut(site, obj, m, kind):
    """Mutate the caller's object in place. Returns False if the mutation was a no-op."""
    import numpy as np

    if kind in ("flat", "flat1"):
        if id(obj) in BASES:
            obj = BASES[id(obj)][1]  # write through the base the caller owns
        if obj.size == 0:
            return False
        d = canon_name(obj.dtype)
        import random as _r

        r = _r.Random(m.get("seed", 0))
        if m["op"] == "reverse":
            if obj.size < 2:
                return False
            obj[...] = obj.ravel()[::-1].copy().reshape(obj.shape)
            return True
        if d == "str":
            new = "".join(chr(c) for c in [0x78, 0xE9][: 1 + r.randrange(2)])[: max(1, obj.dtype.itemsize // 4)]
        else:
            ws = rand_words(r, d, comps(d))
            new = make_array({"dtype": d, "shape": [1], "words": ws}).ravel()[0]
        if m["op"] == "fill":
            obj[...] = new
        else:
            obj.ravel(order="K")[...]  # noqa: B018
            idx = np.unravel_index(m["idx"] % obj.size, obj.shape)
            obj[idx] = new
        return True
    if kind == "nestlist":
        if m["op"] == "reverse":
            obj.reverse()
        elif m["op"] == "inner_reverse":
            obj[m["row"] % len(obj)].reverse()
        elif m["op"] == "inner_set":
            row = obj[m["row"] % len(obj)]
            row[m["idx"] % len(row)] = m["val"]
        else:
            obj[m["row"] % len(obj)] = list(m["val"])
        return True
    if kind == "nestarr":
        if m["op"] == "reverse":
            obj.reverse()
        elif m["op"] == "pop":
            if len(obj) > 1:
                obj.pop()
        elif m["op"] == "dup":
            obj.append(obj[0])
        else:
            a = obj[m["row"] % len(obj)]
            return apply_mut(site, a, {"op": "set", "idx": m["idx"], "seed": m["seed"]}, "flat")
        return True
    # flat python lists
    alt = (lambda: site.var_make([m["alt"]])[0]) if kind == "vars" else (lambda: _alt_value(kind, m["alt"]))
    if m["op"] == "set":
        if obj:
            obj[m["idx"] % len(obj)] = alt()
    elif m["op"] == "append":
        obj.append(alt())
    elif m["op"] == "insert0":
        obj.insert(0, alt())
    elif m["op"] == "pop":
        if obj:
            obj.pop()
    elif m["op"] == "reverse":
        obj.reverse()
    elif m["op"] == "clear":
        obj.clear()
    return True


BASES: dict = {}  # id(read-only view handed to spox) -> (view, the caller's writable base it looks into)


def make_caller_object(site, content):
    import numpy as np

    if site.kind in ("flat", "flat1"):
        a = make_array(content)
        via = content.get("via")
        if via and a.ndim >= 1 and a.size:
            # the caller hands over a *read-only view* and later writes through the base it still owns
            if via == "ro_view":
                base = a.copy()
                v = base.view()
                v.setflags(write=False)
            elif via == "broadcast":
                base = a.reshape(-1).copy()
                v = np.broadcast_to(base, (2,) + base.shape)
            else:  # diagonal
                n = a.size
                base = np.zeros((n, n), dtype=a.dtype)
                base[np.arange(n), np.arange(n)] = a.reshape(-1)
                v = np.diagonal(base)
            BASES[id(v)] = (v, base)
            return v
        return a
    if site.kind == "nestlist":
        return [list(r) for r in content]
    if site.kind == "nestarr":
        return [make_array(s) for s in content]
    if site.kind == "vars":
        return site.var_make(content)
    return list(content)


def same_obs(a, b) -> bool:
    if a is UNOBS or b is UNOBS or a == UNOBS or b == UNOBS:
        return True
    if isinstance(a, dict) and "data" in a and isinstance(b, dict) and "data" in b:
        if a["dtype"] != b["dtype"] or a["shape"] != b["shape"]:
            return False
        if a["dtype"] == "str":
            return a["data"] == b["data"]
        return same_words(a["dtype"], a["data"], b["data"])
    if isinstance(a, list) and isinstance(b, list) and len(a) == len(b) and a and isinstance(a[0], dict):
        return all(same_obs(x, y) for x, y in zip(a, b))
    return a == b


def run_capture_case(site, content, muts, early_build):
    """Returns (problems, pre, post): problems = [(what, detail)] where the model or the value differs
    from what it was at the call, after the caller's mutations."""
    obj = make_caller_object(site, content)
    reference = site.read(site.call(make_caller_object(site, copy.deepcopy(content))))  # an untouched twin
    handle = site.call(obj)
    pre = site.read(handle) if early_build else None
    for m in muts:
        apply_mut(site, obj, m, site.kind)
    post = site.read(handle)
    problems = []
    for part in ("model", "value"):
        if not same_obs(post[part], reference[part]):
            problems.append((part, f"after the caller's mutations {part} = {str(post[part])[:160]}, at the call it was {str(reference[part])[:160]}"))
        if pre is not None and not same_obs(pre[part], reference[part]):
            problems.append((part + "-at-call", f"{part} built at the call {str(pre[part])[:160]} differs from an identical fresh call {str(reference[part])[:160]}"))
    return problems, reference, post


# ----------------------------------------------------------- tie H (3): heap model vs real sites
class _Atoms:
    """Immutable items (words, ints, float32 bits, strings, Var names) -> small naturals."""

    def __init__(self):
        self.tab = {}

    def __call__(self, x):
        key = tuple(x) if isinstance(x, list) else x
        return self.tab.setdefault((type(key).__name__, key), len(self.tab))


def _items(obs):
    """Items of an observed tensor: signed values for the signed integer types (so that a Python list of ints
    and the int64/int32 tensor made from it speak the same vocabulary), bit patterns / byte strings otherwise."""
    d = obs["dtype"]
    if d in ("int8", "int16", "int32", "int64"):
        b = W.BITS[d]
        return [w - (1 << b) if w >> (b - 1) else w for w in obs["data"]]
    return obs["data"]


def _abs_flat(site, obj, atoms):
    """The caller's flat container as the list of its items, in the vocabulary of the site's observation."""
    import numpy as np

    if isinstance(obj, np.ndarray):
        return [atoms(x) for x in _items(_obs_array(obj))]
    k = site.kind
    if k == "scalars:floats":
        return [atoms(f32_bits_of_double(float(x))) for x in obj]
    if k == "vars":
        pool_names = {id(v): f"a{i}" for i, v in enumerate(site.var_make([0, 1, 2, 3]))}
        return [atoms(pool_names[id(v)]) for v in obj]
    return [atoms(x) for x in obj]


def _abs_value(site, value, atoms):
    """The observed stored value -> list of item lists."""
    if isinstance(value, dict) and "data" in value:
        return [[atoms(x) for x in _items(value)]]
    if isinstance(value, list) and value and isinstance(value[0], dict):
        return [[atoms(x) for x in _items(v)] for v in value]
    return [[atoms(x) for x in value]]


def capture_corr_case(site, content, muts, mode):
    """Run a history on the real constructor and abstract it for the heap model.
    -> (request for the driver, observed stored value at the end as item lists)"""
    atoms = _Atoms()
    obj = make_caller_object(site, content)
    nest = site.kind in ("nestlist", "nestarr")
    locs = {}

    def loc(inner):
        return locs.setdefault(id(inner), len(locs))

    keep = []  # keep inner objects alive so ids stay unique

    def snapshot():
        if not nest:
            return {"flat": {0: _abs_flat(site, obj, atoms)}, "nest": {}}
        fl = {}
        order = []
        for inner in obj:
            keep.append(inner)
            fl[loc(inner)] = _abs_flat(site, inner, atoms)
            order.append(loc(inner))
        return {"flat": fl, "nest": {0: order}}

    s0 = snapshot()
    nflat = max(s0["flat"]) + 1
    req = {"op": "capture", "mode": mode, "kind": "nest" if nest else "flat",
           "flat": [s0["flat"].get(i, []) for i in range(nflat)], "nest": [s0["nest"].get(0, [])], "arg": 0, "muts": []}
    handle = site.call(obj)
    for m in muts:
        apply_mut(site, obj, m, site.kind)
        sn = snapshot()
        for k, v in sn["flat"].items():
            req["muts"].append({"flat": k, "v": v})
        if nest:
            req["muts"].append({"nest": 0, "v": sn["nest"][0]})
    value = site.read(handle)["value"]
    return req, _abs_value(site, value, atoms)


def run_capture_correspondence(ck, info):
    table = {r["site"]: r for r in info["capture"]}
    rng = ck.rng
    reqs, meta = [], []
    for site in sites():
        row = table.get(site.table_site)
        if row is None:
            ck.broken("correspondence", "C10 capture table", f"no row for {site.table_site}")
            continue
        for _ in range(ck.pick(8, 300)):
            content = gen_content(rng, site.kind)
            muts = gen_muts(rng, site.kind, content)
            try:
                req, seen = capture_corr_case(site, content, muts, row["observed"])
            except Exception as e:  # noqa: BLE001  (a mutant may make the build itself fail: the oracle reports that)
                ck.notes.append(f"capture correspondence: {site.name} raised {type(e).__name__}: {str(e)[:100]}")
                continue
            reqs.append(req)
            meta.append((site, content, muts, seen))
    outs = ck.driver().ask_many("C10", reqs) if reqs else []
    mism = 0
    flatten = lambda xss: [x for xs in xss for x in xs]  # noqa: E731
    for (site, content, muts, seen), m in zip(meta, outs):
        ck.count(("capture-corr", site.name, len(muts)))
        # a nested list becomes one tensor: compare the concatenation of the rows
        if "after" not in m or flatten(m["after"]) != flatten(seen):
            mism += 1
            if mism <= 3:
                ck.broken("correspondence", "C10 heap model vs real constructor",
                          f"{site.name} content={str(content)[:80]} muts={muts}: model (mode {site.table_site}) predicts "
                          f"{m.get('after')}, the real stored value reads {seen}")
    ck.cov["capture_correspondence"] = {"cases": len(reqs), "mismatches": mism}
    return mism


# ------------------------------------------------------------------------- model-free oracle
EMBED_ROUTES = ["constant", "const", "const_dtype", "const_list_dtype", "initializer", "future_initializer",
                "future_initializer_dtype", "arg_default", "tensor_attr", "attr_tensor_class"]


def _py_decode(j):
    if isinstance(j, dict):
        return struct.unpack("<d", struct.pack("<Q", j["f"]))[0]
    if isinstance(j, list):
        return [_py_decode(x) for x in j]
    return j


def embed_py_case(case):
    """const / _future.initializer on a bare Python value: the embedded tensor must be np.array(value)."""
    import numpy as np

    import spox.opset.ai.onnx.v17 as op

    v = _py_decode(case["py"])
    ref = np.array(v)
    if case["route"] == "future_py":
        f = _imp("spox._future", "initializer")
        if f is None:
            return [("unobservable", "spox._future.initializer is not there")]
    try:
        if case["route"] == "const_py":
            var = op.const(v)
            a = _first_attr_tensor(_build_bytes(var), "Constant", "value")
            tensor = W.tensor(a["t"])
        else:
            var = f(v)
            g = W.graph_parts(W.graph_of_model(_build_bytes(op.identity(var))))
            tensor = g["initializers"][0]
    except Exception as e:  # noqa: BLE001
        return [("raises", f"{case['route']}({v!r}) raised {type(e).__name__}: {str(e)[:160]}")]
    want = _obs_array(ref)
    got = _obs_tensor(tensor)
    probs = []
    if not same_obs(got, want):
        probs.append(("values", f"{case['route']}({v!r}) embedded {str(got)[:120]}, np.array gives {str(want)[:120]}"))
    from spox import Tensor

    wt = Tensor(ref.dtype, ref.shape)
    if var.type != wt:
        probs.append(("vartype", f"{case['route']}({v!r}): Var.type {var.type}, expected {wt}"))
    return probs


def embed_case(case):
    """Run one embedding on the real code and judge it against the array itself. -> [(key, what)]"""
    if "py" in case:
        return embed_py_case(case)
    import numpy as np

    import spox.opset.ai.onnx.v17 as op
    from spox import Tensor

    spec, route = materialise(case["arr"]), case["route"]
    need = {"initializer": ("spox._graph", "initializer"), "arg_default": ("spox._graph", "arguments"),
            "future_initializer": ("spox._future", "initializer"), "future_initializer_dtype": ("spox._future", "initializer"),
            "attr_tensor_class": ("spox._attributes", "AttrTensor")}.get(route)
    handle = _imp(*need) if need else None
    if need and handle is None:
        return [("unobservable", f"{need[0]}.{need[1]} is not there")]
    initializer = arguments = handle

    class fut:  # noqa: N801
        initializer = handle

    class A:  # noqa: N801
        AttrTensor = handle
    arr = make_array(spec)
    exp_d = spec["dtype"]
    exp_shape = list(spec["shape"])
    exp = spec.get("words") if exp_d != "str" else [list("".join(map(chr, s)).encode("utf-8")) for s in spec["strs"]]
    req = case.get("req_dtype")
    var = None
    tensor = None
    probs = []
    try:
        if route == "constant":
            var = op.constant(value=arr)
        elif route == "const":
            var = op.const(arr)
        elif route == "const_dtype":
            tgt = np_dtype(req)
            with np.errstate(all="ignore"):
                ref = arr.astype(tgt)
            var = op.const(arr, tgt)
            exp_d, exp = req, words_of(ref)
        elif route == "const_list_dtype":
            var = op.const(arr.tolist(), np_dtype(exp_d))
        elif route == "initializer":
            var = initializer(arr)
        elif route == "future_initializer":
            var = fut.initializer(arr)
        elif route == "future_initializer_dtype":
            tgt = np_dtype(req)
            with np.errstate(all="ignore"):
                ref = arr.astype(tgt)
            var = fut.initializer(arr, tgt)
            exp_d, exp = req, words_of(ref)
        elif route == "arg_default":
            (var,) = arguments(x=arr)
        elif route == "tensor_attr":
            var = op.constant_of_shape(op.const(np.array([2], dtype=np.int64)), value=arr)
        elif route == "attr_tensor_class":
            at = A.AttrTensor(arr, "value")
            tb = peek("Attr._to_onnx", lambda: W.attribute(at._to_onnx().SerializeToString())["t"])
            if tb is UNOBS:
                return [("unobservable", "AttrTensor._to_onnx")]
            tensor = W.tensor(tb)
        if exp_d == "str" and route in ("const_dtype", "future_initializer_dtype"):
            exp = [list("".join(map(chr, s)).encode("utf-8")) for s in exp]
        if var is not None:
            if route in ("constant", "const", "const_dtype", "const_list_dtype"):
                a = _first_attr_tensor(_build_bytes(var), "Constant", "value")
                tensor = W.tensor(a["t"]) if a and a["t"] is not None else None
                if a is not None and (a["type"] != W.ATTR_TYPE["TENSOR"]):
                    probs.append(("attr-type", f"Constant.value has AttributeProto type {a['type']}"))
            elif route == "tensor_attr":
                a = _first_attr_tensor(_build_bytes(var), "ConstantOfShape", "value")
                tensor = W.tensor(a["t"]) if a else None
            elif route == "arg_default":
                g = W.graph_parts(W.graph_of_model(_build_bytes(op.identity(var), (var,), ["x"])))
                tensor = next((t for t in g["initializers"] if t["name"] == "x"), None)
            else:
                g = W.graph_parts(W.graph_of_model(_build_bytes(op.identity(var))))
                tensor = g["initializers"][0] if g["initializers"] else None
    except Exception as e:  # noqa: BLE001
        return [("raises", f"{route} of {exp_d}{exp_shape} raised {type(e).__name__}: {str(e)[:200]}")]
    if tensor is None:
        return [("missing", f"{route}: no embedded tensor found in the built model")]
    if tensor["data_type"] != W.ONNX_ENUM[exp_d]:
        probs.append(("dtype", f"embedded element type {tensor['data_type']} ({tensor['dtype']}), array is {exp_d} (= {W.ONNX_ENUM[exp_d]})"))
    if tensor["dims"] != exp_shape:
        probs.append(("shape", f"embedded dims {tensor['dims']}, array shape {exp_shape}"))
    got = tensor.get("words") if exp_d != "str" else [list(s) for s in tensor.get("strs", [])]
    if tensor["data_type"] == W.ONNX_ENUM[exp_d] and not (got == exp if exp_d == "str" else same_words(exp_d, got, exp)):
        i = next((i for i, (x, y) in enumerate(zip(got, exp)) if x != y), None)
        probs.append(("values", f"embedded elements differ from the array at flat index {i}: got {got[i] if i is not None and i < len(got) else len(got)}, expected {exp[i] if i is not None else len(exp)}"))
    if var is not None and route != "tensor_attr":
        want = Tensor(np_dtype(exp_d) if exp_d != "str" else np.dtype(str), tuple(exp_shape))
        if var.type != want:
            probs.append(("vartype", f"Var.type is {var.type}, expected {want}"))
        if route != "arg_default" and hasattr(var, "_get_value"):
            try:
                val = var._get_value()
                o = _obs_array(val)
                if o["dtype"] != exp_d or o["shape"] != exp_shape or not (
                        o["data"] == exp if exp_d == "str" else same_words(exp_d, o["data"], exp)):
                    probs.append(("propvalue", f"propagated value {str(o)[:120]} differs from the array"))
            except Exception as e:  # noqa: BLE001
                probs.append(("propvalue", f"_get_value raised {type(e).__name__}: {str(e)[:100]}"))
    return probs


def _embed_worker(case):
    """One embedding case in a worker: never raises (a harness problem is a per-case result)."""
    import warnings

    warnings.filterwarnings("ignore", category=RuntimeWarning)
    before = dict(UNOBSERVABLE)
    try:
        probs = embed_case(case)
    except Exception as e:  # noqa: BLE001
        probs = [("unobservable", f"harness could not run the case: {type(e).__name__}: {str(e)[:160]}")]
    return probs, {k: v for k, v in UNOBSERVABLE.items() if k not in before}


def _map_embed(cases):
    import multiprocessing as mp
    import os

    n = min(6, os.cpu_count() or 1)
    if n <= 1 or len(cases) < 64:
        return [_embed_worker(c) for c in cases]
    try:
        with mp.get_context("fork").Pool(n) as pool:
            return pool.map(_embed_worker, cases, chunksize=16)
    except Exception:  # noqa: BLE001  (no fork / pool trouble: run in-process)
        return [_embed_worker(c) for c in cases]


def gen_embed_cases(ck):
    rng = ck.rng
    cases = []
    for d in DT_ALL:
        for shape in SHAPES:
            for route in EMBED_ROUTES:
                if route in ("const_dtype", "future_initializer_dtype"):
                    continue
                if route == "tensor_attr" and (shape != [1] or d in ("str", "bfloat16") + tuple(DT_COMPLEX)):
                    continue
                spec = rand_spec(rng, d, shape)
                if route == "const_list_dtype":
                    if d in FMT or d == "bfloat16":
                        em, mm, _ = FMT[d]
                        spec["words"] = [w if not ((w & em) == em and (w & mm)) else (w & ~em) for w in spec["words"]]
                    if numel(shape) == 0:
                        continue
                cases.append({"kind": "embed", "route": route, "arr": spec})
    # requested dtype on an already-typed array / a list
    pairs = [("int64", "int32"), ("int64", "float32"), ("float64", "float32"), ("int32", "int64"), ("uint8", "uint64"),
             ("float32", "float16"), ("bool", "int8"), ("int8", "bool"), ("float32", "float64"), ("uint64", "float64"),
             ("int16", "uint16"), ("float64", "complex64")]
    for src, dst in pairs:
        for route in ("const_dtype", "future_initializer_dtype"):
            spec = rand_spec(rng, src, rng.choice([[3], [2, 2], []]))
            if src in FMT:  # finite values only: float->int of NaN/inf is undefined in C
                em, mm, _ = FMT[src]
                spec["words"] = [(w & ~em) | ((em >> 1) & em) if (w & em) == em else w for w in spec["words"]]
            if dst in DT_INT + ["bool"] and src in FMT:
                continue
            cases.append({"kind": "embed", "route": route, "arr": spec, "req_dtype": dst})
    # size classes x byte orders x layouts on every route: implementations switch strategy at a threshold
    big_routes = ["constant", "const", "initializer", "future_initializer", "arg_default", "attr_tensor_class"]
    lays = ["C", "F", "strided"]
    for d in DT_ALL:
        for n in SIZE_CLASSES:
            shapes = SHAPES_OF[n]
            if not ck.thorough and n >= 1023:
                # quick: one (seeded) shape per dtype and size class from the threshold sizes on; the
                # 65 536 class for a seeded quarter of the dtypes (every dtype gets it over four seeds)
                if n == 65536 and (DT_ALL.index(d) + ck.seed) % 4:
                    continue
                shapes = [shapes[rng.randrange(len(shapes))]]
            for shape in shapes:
                combos = [(r, bo, l) for r in big_routes for bo in ("=", ">") for l in lays]
                if ck.thorough and n <= 4096:
                    pick = combos
                elif n in (1023, 1024, 1025):
                    pick = [(r, bo, rng.choice(lays)) for r in big_routes for bo in ("=", ">")]
                else:
                    pick = [(rng.choice(big_routes), bo, rng.choice(lays)) for bo in ("=", ">")]
                for route, bo, lay in pick:
                    cases.append({"kind": "embed", "route": route,
                                  "arr": {"dtype": d, "shape": shape, "layout": lay, "bo": bo, "gen_seed": rng.getrandbits(32)}})
    fb = lambda x: {"f": struct.unpack("<Q", struct.pack("<d", x))[0]}  # noqa: E731
    pys = [1, -1, 0, 2**63 - 1, -2**63, 2**63, 2**64 - 1, True, False, fb(1.5), fb(-0.0), fb(float("nan")), fb(1e40), "ü", "", "a\x00b",
           [1, 2], [1, fb(2.5)], [True, False], [True, 2], [0, 2**63], [2**63], ["a", "ü"], [], [[1, 2], [3, 4]], [[1], [fb(0.5)]],
           [[True], [False]], [-1, 2**63]]
    for v in pys:
        for route in ("const_py", "future_py"):
            cases.append({"kind": "embed", "route": route, "py": v, "arr": {"dtype": "py", "shape": []}})
    extra = ck.pick(400, 60000)
    for _ in range(extra):
        d = rng.choice(DT_ALL)
        route = rng.choice(["constant", "const", "initializer", "future_initializer", "arg_default", "attr_tensor_class"])
        cases.append({"kind": "embed", "route": route, "arr": rand_spec(rng, d)})
    return cases


def attr_kind_cases():
    """(description, builder, expectation) through real operator constructors and the classes."""
    import numpy as np

    import spox.opset.ai.onnx.v17 as op
    from spox import Tensor, argument

    A = _imp("spox._attributes")
    T = W.ATTR_TYPE
    x = argument(Tensor(np.float32, (2, 3)))
    c = argument(Tensor(np.bool_, ()))

    def node_attr(var, args, optype, name):
        return _first_attr_tensor(_build_bytes(var, args), optype, name)

    f32 = f32_bits_of_double
    cases = []
    for v in (0.1, -0.0, 1e-45, 3.0e38, 16777217.0, 1 / 3):
        cases.append((f"leaky_relu(alpha={v!r})", lambda v=v: node_attr(op.leaky_relu(x, alpha=v), (x,), "LeakyRelu", "alpha"),
                      {"name": "alpha", "type": T["FLOAT"], "f": f32(v)}))
        cases.append((f"constant(value_float={v!r})", lambda v=v: node_attr(op.constant(value_float=v), (), "Constant", "value_float"),
                      {"name": "value_float", "type": T["FLOAT"], "f": f32(v)}))
    for v in (0, -1, 2**63 - 1, -2**63, 1):
        cases.append((f"constant(value_int={v})", lambda v=v: node_attr(op.constant(value_int=v), (), "Constant", "value_int"),
                      {"name": "value_int", "type": T["INT"], "i": v}))
    cases.append(("concat(axis=1)", lambda: node_attr(op.concat([x, x], axis=1), (x,), "Concat", "axis"),
                  {"name": "axis", "type": T["INT"], "i": 1}))
    for dt, e in ((np.float16, 10), (np.uint64, 13), (np.bool_, 9), (np.int8, 3), (np.float64, 11)):
        cases.append((f"cast(to={np.dtype(dt).name})", lambda dt=dt: node_attr(op.cast(x, to=dt), (x,), "Cast", "to"),
                      {"name": "to", "type": T["INT"], "i": e}))
    for s in ("", "ü", "日本\x00x", "NOTSET"):
        cases.append((f"constant(value_string={s!r})", lambda s=s: node_attr(op.constant(value_string=s), (), "Constant", "value_string"),
                      {"name": "value_string", "type": T["STRING"], "s": s.encode("utf-8")}))
    for l in ([0.1, -0.0, 1e40], [], [1.5], [3, 0.5]):
        cases.append((f"constant(value_floats={l})", lambda l=l: node_attr(op.constant(value_floats=l), (), "Constant", "value_floats"),
                      {"name": "value_floats", "type": T["FLOATS"], "floats": [f32(float(v)) for v in l]}))
    for l in ([3, -1, 2**63 - 1, -2**63], [], [5], [2, 1, 0]):
        cases.append((f"constant(value_ints={l})", lambda l=l: node_attr(op.constant(value_ints=l), (), "Constant", "value_ints"),
                      {"name": "value_ints", "type": T["INTS"], "ints": l}))
    cases.append(("transpose(perm=[1,0])", lambda: node_attr(op.transpose(x, perm=[1, 0]), (x,), "Transpose", "perm"),
                  {"name": "perm", "type": T["INTS"], "ints": [1, 0]}))
    for l in (["a", "ü", ""], [], ["b"], ["z", "a", "m"]):
        cases.append((f"constant(value_strings={l})", lambda l=l: node_attr(op.constant(value_strings=l), (), "Constant", "value_strings"),
                      {"name": "value_strings", "type": T["STRINGS"], "strings": [s.encode("utf-8") for s in l]}))
    cases.append(("constant(value=array)", lambda: node_attr(op.constant(value=np.array([1, 2], dtype=np.int16)), (), "Constant", "value"),
                  {"name": "value", "type": T["TENSOR"], "tensor": ("int16", [2], [1, 2])}))
    cases.append(("if_(then_branch=…)", lambda: node_attr(op.if_(c, then_branch=lambda: [op.const(1.0)], else_branch=lambda: [op.const(2.0)])[0],
                                                          (c,), "If", "then_branch"), {"name": "then_branch", "type": T["GRAPH"], "has": "g"}))
    cases.append(("optional(type=Tensor)", lambda: node_attr(op.optional(type=Tensor(np.float32, (2,))), (), "Optional", "type"),
                  {"name": "type", "type": T["TYPE_PROTO"], "has": "tp"}))

    def cls_attr(a):
        return peek("Attr._to_onnx", lambda: W.attribute(a._to_onnx().SerializeToString()))

    if A is None or not all(hasattr(A, n) for n in ("AttrTensors", "AttrFloat32", "AttrStrings")):
        UNOBSERVABLE.setdefault("spox._attributes classes", "AttrTensors/AttrFloat32/AttrStrings not all present")
        return cases
    cases.append(("AttrTensors([int64[2], str[1]])", lambda: cls_attr(A.AttrTensors([np.array([1, 2]), np.array(["ü"])], "ts")),
                  {"name": "ts", "type": T["TENSORS"], "tensors": [("int64", [2], [1, 2]), ("str", [1], [list("ü".encode())])]}))
    cases.append(("AttrTensors([])", lambda: cls_attr(A.AttrTensors([], "ts")), {"name": "ts", "type": T["TENSORS"], "tensors": []}))
    cases.append(("AttrFloat32(3)", lambda: cls_attr(A.AttrFloat32(3, "k")), {"name": "k", "type": T["FLOAT"], "f": f32(3.0)}))
    cases.append(("AttrStrings(('x','y'))", lambda: cls_attr(A.AttrStrings(("x", "y"), "k")),
                  {"name": "k", "type": T["STRINGS"], "strings": [b"x", b"y"]}))
    return cases


def const_prop_cases():
    """Constant built from a scalar / list attribute: the Var's type and propagated value (ONNX: value_int ->
    int64 scalar, value_float -> float32 scalar, value_ints/floats -> 1-d, value_string(s) -> str)."""
    import spox.opset.ai.onnx.v17 as op

    f32 = f32_bits_of_double
    u64 = lambda n: n & ((1 << 64) - 1)  # noqa: E731
    utf = lambda s: list(s.encode("utf-8"))  # noqa: E731
    return [
        ("constant(value_int=-3)", lambda: op.constant(value_int=-3), "int64", [], [u64(-3)]),
        ("constant(value_int=-2**63)", lambda: op.constant(value_int=-2**63), "int64", [], [u64(-2**63)]),
        ("constant(value_float=0.1)", lambda: op.constant(value_float=0.1), "float32", [], [f32(0.1)]),
        ("constant(value_float=-0.0)", lambda: op.constant(value_float=-0.0), "float32", [], [f32(-0.0)]),
        ("constant(value_ints=[3,-1,2**63-1])", lambda: op.constant(value_ints=[3, -1, 2**63 - 1]), "int64", [3],
         [3, u64(-1), 2**63 - 1]),
        ("constant(value_ints=[])", lambda: op.constant(value_ints=[]), "int64", [0], []),
        ("constant(value_floats=[0.1,1e40,-0.0])", lambda: op.constant(value_floats=[0.1, 1e40, -0.0]), "float32", [3],
         [f32(0.1), f32(1e40), f32(-0.0)]),
        ("constant(value_string='ü')", lambda: op.constant(value_string="ü"), "str", [], [utf("ü")]),
        ("constant(value_strings=['b','','日本'])", lambda: op.constant(value_strings=["b", "", "日本"]), "str", [3],
         [utf("b"), [], utf("日本")]),
    ]


def judge_const_prop(build, d, shape, data):
    import numpy as np

    from spox import Tensor

    v = build()
    want = Tensor(np_dtype(d) if d != "str" else np.dtype(str), tuple(shape))
    if v.type != want:
        return f"Var.type {v.type}, expected {want}"
    o = _obs_array(v._get_value())
    if o["dtype"] != d or o["shape"] != shape or not (o["data"] == data if d == "str" else same_words(d, o["data"], data)):
        return f"propagated value {o}, expected {d}{shape} {data}"
    return None


def judge_attr(a, exp):
    if a is UNOBS:
        return None
    if a is None:
        return "attribute missing from the built node"
    if a["name"] != exp["name"]:
        return f"name {a['name']!r}, expected {exp['name']!r}"
    if a["type"] != exp["type"]:
        return f"AttributeProto type {a['type']}, expected {exp['type']}"
    if "f" in exp and not same_words("float32", [a["f"]], [exp["f"]]):
        return f"f bits {a['f']:#x}, expected {exp['f']:#x} (the value rounded once to float32)"
    if "i" in exp and a["i"] != exp["i"]:
        return f"i {a['i']}, expected {exp['i']}"
    if "s" in exp and a["s"] != exp["s"]:
        return f"s {a['s']!r}, expected {exp['s']!r}"
    if "floats" in exp and not same_words("float32", a["floats"], exp["floats"]):
        return f"floats {a['floats']}, expected {exp['floats']}"
    if "ints" in exp and a["ints"] != exp["ints"]:
        return f"ints {a['ints']}, expected {exp['ints']}"
    if "strings" in exp and a["strings"] != exp["strings"]:
        return f"strings {a['strings']}, expected {exp['strings']}"
    if "has" in exp and a[exp["has"]] is None:
        return f"field {exp['has']} missing"
    ts = [exp["tensor"]] if "tensor" in exp else exp.get("tensors")
    if ts is not None:
        got = [W.tensor(a["t"])] if "tensor" in exp else [W.tensor(t) for t in a["tensors"]]
        if len(got) != len(ts):
            return f"{len(got)} tensors, expected {len(ts)}"
        for g, (d, dims, data) in zip(got, ts):
            gd = g.get("words") if d != "str" else [list(s) for s in g.get("strs", [])]
            if g["dtype"] != d or g["dims"] != dims or gd != data:
                return f"tensor {g['dtype']}{g['dims']} {gd}, expected {d}{dims} {data}"
    return None


def wrong_kind_cases():
    import numpy as np

    import spox.opset.ai.onnx.v17 as op
    from spox import Tensor, argument

    A = _imp("spox._attributes")
    initializer = _imp("spox._graph", "initializer")
    x = argument(Tensor(np.float32, (2, 3)))
    cl = [
        ("AttrInt64", [1.5, "a", None, [1], np.array([1, 2]), 2**63, b"x", "2", b"2", np.array(2), 2.0, "0x2"]),
        ("AttrFloat32", ["a", None, [1.0], b"x", 10**400, "0.5", b"2", "nan", np.array(0.5), np.array([0.5])]),
        ("AttrString", [1, 1.5, None, ["a"]]),
        ("AttrTensor", [5, 1.5, "a", None, [1, 2], (1, 2), {"a": 1}, np.array([None], dtype=object),
                        np.zeros(1, dtype="M8[s]")]),
        ("AttrInt64s", [5, None, [1.5], ["a"], [None], [[1]], [1, "a"], [2**63], 1.5, ["1"], [b"1"], "12", [2.0]]),
        ("AttrFloat32s", [5, None, ["a"], [None], [[1.0]], [1.0, "a"], ["0.5"], [b"2"], "1.5"]),
        ("AttrStrings", [5, None, [1], [None], [["a"]], ["a", 1]]),
        ("AttrTensors", [5, None, [1], ["a"], [[1, 2]], [np.array([None], dtype=object)]]),
        ("AttrDtype", [None, "foo", object, np.dtype("M8[s]"), np.dtype("S3"), np.longdouble, np.dtype("V4"),
                       (None, 0.0), (np.int32, -1), [1, 2], {"a": 1}, 1.5]),
        ("AttrType", [5, None, np.float32, "float32"]),
        ("AttrGraph", [5, None, lambda: 1]),
    ]
    cases = []
    for cname, vals in cl:
        if A is None or not hasattr(A, cname):
            UNOBSERVABLE.setdefault(f"spox._attributes.{cname}", "class is not there")
            continue
        for i, v in enumerate(vals):
            cases.append((f"{cname}({_short(v)})", cname, _vkind(v), (lambda cname=cname, v=v: getattr(A, cname)(v, "n"))))
    calls = [
        ("constant(value=5)", "AttrTensor", "int", lambda: op.constant(value=5)),
        ("constant(value=(1, 2))", "AttrTensor", "tuple", lambda: op.constant(value=(1, 2))),
        ("constant(value='a')", "AttrTensor", "str", lambda: op.constant(value="a")),
        ("constant(value_float='0.5')", "AttrFloat32", "str", lambda: op.constant(value_float="0.5")),
        ("constant(value_int='2')", "AttrInt64", "str", lambda: op.constant(value_int="2")),
        ("concat([x], axis='0')", "AttrInt64", "str", lambda: op.concat([x], axis="0")),
        ("leaky_relu(x, alpha=array(0.5))", "AttrFloat32", "ndarray", lambda: op.leaky_relu(x, alpha=np.array(0.5))),
        ("constant(value_int=1.5)", "AttrInt64", "float", lambda: op.constant(value_int=1.5)),
        ("constant(value_ints=[1.5])", "AttrInt64s", "list", lambda: op.constant(value_ints=[1.5])),
        ("constant(value_ints=3)", "AttrInt64s", "int", lambda: op.constant(value_ints=3)),
        ("constant(value_float='a')", "AttrFloat32", "str", lambda: op.constant(value_float="a")),
        ("constant(value_string=1)", "AttrString", "int", lambda: op.constant(value_string=1)),
        ("constant(value_strings=[1])", "AttrStrings", "list", lambda: op.constant(value_strings=[1])),
        ("cast(x, to=longdouble)", "AttrDtype", "dtype", lambda: op.cast(x, to=np.longdouble)),
        ("cast(x, to=datetime64)", "AttrDtype", "dtype", lambda: op.cast(x, to=np.dtype("M8[s]"))),
        ("cast(x, to='foo')", "AttrDtype", "str", lambda: op.cast(x, to="foo")),
        ("cast(x, to=(int32, -1))", "AttrDtype", "tuple", lambda: op.cast(x, to=(np.int32, -1))),
        ("concat([x], axis=1.5)", "AttrInt64", "float", lambda: op.concat([x], axis=1.5)),
        ("transpose(x, perm=[0.5, 1])", "AttrInt64s", "list", lambda: op.transpose(x, perm=[0.5, 1])),
        ("transpose(x, perm=1)", "AttrInt64s", "int", lambda: op.transpose(x, perm=1)),
        ("leaky_relu(x, alpha='a')", "AttrFloat32", "str", lambda: op.leaky_relu(x, alpha="a")),
        ("concat(x, axis=0)", "variadic", "Var", lambda: op.concat(x, axis=0)),
        ("concat([x, 1], axis=0)", "variadic", "list", lambda: op.concat([x, 1], axis=0)),
        ("concat(5, axis=0)", "variadic", "int", lambda: op.concat(5, axis=0)),
        ("concat(generator with an int, axis=0)", "variadic", "generator", lambda: op.concat((v for v in [x, 1]), axis=0)),
        ("max(iterator with a str)", "variadic", "iterator", lambda: op.max(iter([x, "a"]))),
        ("concat(tuple with None, axis=0)", "variadic", "tuple", lambda: op.concat((x, None), axis=0)),
    ]
    if initializer is not None:
        calls += [("initializer(5)", "AttrTensor", "int", lambda: initializer(5)),
                  ("initializer([1, 2])", "AttrTensor", "list", lambda: initializer([1, 2]))]
    return cases + calls


def _short(v):
    s = repr(v)
    return s if len(s) < 40 else s[:37] + "..."


def _vkind(v):
    import numpy as np

    if isinstance(v, np.ndarray):
        return "ndarray-" + str(v.dtype.kind)
    if isinstance(v, np.dtype):
        return "dtype-" + v.kind
    if isinstance(v, (list, tuple)) and v:
        return type(v).__name__ + "-of-" + "/".join(sorted({type(x).__name__ for x in v}))
    if isinstance(v, int) and not isinstance(v, bool) and abs(v) >= 2**63:
        return "bigint"
    return type(v).__name__


def run_oracle(ck):
    import warnings

    warnings.filterwarnings("ignore", category=RuntimeWarning)
    rng = ck.rng
    stats = {"embed": 0, "attr_kind": 0, "wrong_kind": 0, "capture": 0}
    # F1 embedding (a small process pool: the cases are independent; results come back in order)
    ecases = gen_embed_cases(ck)
    for case, (probs, unobs) in zip(ecases, _map_embed(ecases)):
        for k, v in unobs.items():
            UNOBSERVABLE.setdefault(k, v)
        stats["embed"] += 1
        ck.count(("embed", case["route"], case["arr"]["dtype"], tuple(case["arr"]["shape"]), case["arr"].get("layout"), case["arr"].get("bo")))
        for key, what in probs:
            if key == "unobservable":
                UNOBSERVABLE.setdefault(f"route {case['route']}", what)
                continue
            d = case.get("req_dtype") or case["arr"]["dtype"]
            if "py" in case:
                d = type(_py_decode(case["py"])).__name__
            n_el = numel(case["arr"]["shape"])
            if n_el >= 255 and "py" not in case:
                what += f" [{n_el} elements, byte order {case['arr'].get('bo', '=')!r}, layout {case['arr'].get('layout')}]"
                key += ":large" if n_el >= 1024 else ""
            ck.failure(f"embed:{case['route']}:{d}:{key}", f"{case['route']}: {what}", case)
    # F2 attribute kinds
    for i, (desc, build, exp) in enumerate(attr_kind_cases()):
        stats["attr_kind"] += 1
        ck.count(("attr-kind", desc))
        try:
            bad = judge_attr(build(), exp)
        except Exception as e:  # noqa: BLE001
            bad = f"raised {type(e).__name__}: {str(e)[:150]}"
        if bad:
            ck.failure(f"attr-kind:{desc.split('(')[0]}:{exp['name']}", f"{desc}: {bad}", {"kind": "attr_kind", "index": i, "desc": desc})
    # float attributes on boundary doubles: the embedded float32 must be the double rounded once (numpy is the reference)
    import spox.opset.ai.onnx.v17 as _op
    from spox import Tensor as _T, argument as _arg
    import numpy as _np

    _x = _arg(_T(_np.float32, (2,)))
    fbits = boundary_doubles(rng, ck.pick(60, 6000))
    for k in range(0, len(fbits), 8):
        chunk = [struct.unpack("<d", struct.pack("<Q", b))[0] for b in fbits[k:k + 8]]
        stats["attr_kind"] += 1
        ck.count(("float-attr", k))
        try:
            y = _x
            for v in chunk:
                y = _op.leaky_relu(y, alpha=v)
            z = _op.constant(value_floats=chunk)
            g = W.graph_parts(W.graph_of_model(_build_bytes(_op.add(y, _op.cast(_op.reduce_sum(z, keepdims=False), to=_np.float32)), (_x,))))
            alphas = [a["f"] for n in g["nodes"] if n["op_type"] == "LeakyRelu" for a in n["attrs"] if a["name"] == "alpha"]
            floats = next(a["floats"] for n in g["nodes"] if n["op_type"] == "Constant" for a in n["attrs"] if a["name"] == "value_floats")
        except Exception as e:  # noqa: BLE001
            ck.failure("attr-float:raises", f"float attributes {chunk}: {type(e).__name__}: {str(e)[:120]}", {"kind": "attr_float", "bits": fbits[k:k + 8]})
            continue
        want = [f32_bits_of_double(v) for v in chunk]
        for name, gotl in (("leaky_relu.alpha", alphas), ("constant.value_floats", floats)):
            if not same_words("float32", gotl, want):
                i = next((i for i, (a, b) in enumerate(zip(gotl, want)) if not same_words("float32", [a], [b])), 0)
                ck.failure(f"attr-float:{name}", f"{name}={chunk[i]!r} embedded as {gotl[i]:#x}, the double rounded once to float32 is {want[i]:#x}",
                           {"kind": "attr_float", "bits": [fbits[k + i]]})
    for i, (desc, build, d, shape, data) in enumerate(const_prop_cases()):
        stats["attr_kind"] += 1
        ck.count(("const-prop", desc))
        try:
            bad = judge_const_prop(build, d, shape, data)
        except Exception as e:  # noqa: BLE001
            bad = f"raised {type(e).__name__}: {str(e)[:150]}"
        if bad:
            ck.failure(f"const-prop:{desc.split('=')[0]}", f"{desc}: {bad}", {"kind": "const_prop", "desc": desc})
    # F3 wrong kinds
    for i, (desc, cname, vk, call) in enumerate(wrong_kind_cases()):
        stats["wrong_kind"] += 1
        ck.count(("wrong-kind", desc))
        outcome = core.safe(call)
        if outcome[0] == "ok":
            ck.failure(f"wrong-kind:{cname}:{vk}:accepted", f"{desc} was accepted (no exception at the call)",
                       {"kind": "wrong_kind", "index": i, "desc": desc})
        elif outcome[1] != "TypeError":
            ck.failure(f"wrong-kind:{cname}:{vk}:{outcome[1]}", f"{desc} raised {outcome[1]}, not TypeError",
                       {"kind": "wrong_kind", "index": i, "desc": desc})
    # F4 captured at the call
    for site in sites():
        for k in range(ck.pick(16, 2000)):
            content = gen_content(rng, site.kind)
            muts = gen_muts(rng, site.kind, content)
            early = k % 2 == 1
            case = {"kind": "capture", "site": site.name, "content": content, "muts": muts, "early_build": early}
            stats["capture"] += 1
            ck.count(("capture", site.name, len(muts), early))
            try:
                problems, ref, post = run_capture_case(site, content, muts, early)
            except Exception as e:  # noqa: BLE001
                ck.failure(f"capture:{site.name}:raises:{type(e).__name__}", f"{site.name}: {type(e).__name__}: {str(e)[:160]}", case)
                continue
            for part, what in problems:
                ck.failure(f"capture:{site.name}:{part}", f"{site.name}: {what}", shrink_capture(site, case))
    ck.cov["oracle"] = stats


ARGDEF_ROUTES = ["arguments_dict", "arguments", "enum_arguments"]
ARGDEF_SHAPES = [[], [1], [0], [1, 1], [2], [0, 3]]
ARGDEF_DTYPES = ["float32", "int64", "bool", "str", "float16", "uint8", "float64"]


def argdef_case(case):
    """An argument default (the array handed to `arguments_dict` / `arguments` / `enum_arguments`) must keep its exact
    shape - `()` stays `()`, `(1,)` stays `(1,)`, empty stays empty - in the Var's type, in the graph input's type and
    in the initializer of the built model (both `spox.build` and `results().with_arguments().to_onnx_model()`)."""
    import numpy as np

    import spox
    import spox.opset.ai.onnx.v17 as op
    from spox import Tensor

    G = _imp("spox._graph")
    fn = getattr(G, case["route"], None) if G is not None else None
    if fn is None:
        return [("unobservable", f"spox._graph.{case['route']} is not there")]
    d, shape = case["dtype"], list(case["shape"])
    n = numel(shape)
    if d == "str":
        arr = np.array(["ü%d" % i for i in range(n)], dtype=np.str_).reshape(shape) if n else np.zeros(shape, dtype="<U2")
    elif d == "bool":
        arr = (np.arange(n) % 2 == 0).reshape(shape)
    else:
        arr = (np.arange(n) + 3).astype(np_dtype(d)).reshape(shape)
    try:
        if case["route"] == "arguments_dict":
            var, name = fn(x=arr)["x"], "x"
        elif case["route"] == "arguments":
            (var,), name = fn(x=arr), "x"
        else:
            (var,), name = fn(arr, prefix="x"), "x0"
        y = op.identity(var)
        if case["build"] == "build":
            mb = spox.build({name: var}, {"y": y}).SerializeToString()
        else:
            results = getattr(G, "results")
            mb = results(y=y).with_arguments(var).to_onnx_model().SerializeToString()
    except Exception as e:  # noqa: BLE001
        return [("raises", f"{case['route']}({d}{shape}) / {case['build']} raised {type(e).__name__}: {str(e)[:160]}")]
    probs = []
    want = Tensor(np_dtype(d) if d != "str" else np.dtype(str), tuple(shape))
    if var.type != want:
        probs.append(("vartype", f"Var.type is {var.type}, the default has {want}"))
    g = W.graph_of_model(mb)
    gi = next((i for i in W.graph_inputs(g) if i["name"] == name), None)
    if gi is None:
        probs.append(("graph-input", f"no graph input named {name!r}"))
    elif gi["elem_type"] != W.ONNX_ENUM[d] or not gi["has_shape"] or gi["dims"] != shape:
        probs.append(("graph-input", f"graph input {name!r} has element type {gi['elem_type']}, dims {gi['dims'] if gi['has_shape'] else 'absent'}; the default is {d} (= {W.ONNX_ENUM[d]}) {shape}"))
    t = next((t for t in W.graph_parts(g)["initializers"] if t["name"] == name), None)
    if t is None:
        probs.append(("initializer", f"no initializer named {name!r}"))
    else:
        if t["dims"] != shape or t["data_type"] != W.ONNX_ENUM[d]:
            probs.append(("initializer", f"initializer dims {t['dims']} type {t['data_type']}, the default is {d}{shape}"))
        exp = _obs_array(arr)["data"]
        got = t.get("words") if d != "str" else [list(x) for x in t.get("strs", [])]
        if not (got == exp if d == "str" else same_words(d, got, exp)):
            probs.append(("values", f"initializer elements {str(got)[:80]}, the default has {str(exp)[:80]}"))
    return probs


def run_argdef_oracle(ck):
    n = 0
    for route in ARGDEF_ROUTES:
        for build in ("build", "with_arguments"):
            for d in ARGDEF_DTYPES:
                for shape in ARGDEF_SHAPES:
                    case = {"kind": "argdef", "route": route, "build": build, "dtype": d, "shape": shape}
                    n += 1
                    ck.count(("argdef", route, build, d, tuple(shape)))
                    try:
                        probs = argdef_case(case)
                    except Exception as e:  # noqa: BLE001
                        UNOBSERVABLE.setdefault(f"argument-default oracle ({route})", f"{type(e).__name__}: {e}"[:200])
                        continue
                    for key, what in probs:
                        if key == "unobservable":
                            UNOBSERVABLE.setdefault(f"route {route}", what)
                            continue
                        rank = "0d" if not shape else "empty" if 0 in shape else "1elem" if numel(shape) == 1 else "nd"
                        ck.failure(f"argdef:{route}:{rank}:{key}", f"{route}(x=<{d}{shape}>) via {build}: {what}", case)
    ck.cov["argdef_oracle"] = {"cases": n}


def run_inits(ck, q):
    """Round 10: programs with many initializers / argument defaults. Model-free oracle on every case (public
    `spox.build` + own wire decoder), and `InitTable.emit` next to the real `graph.initializer` (driver op `inits`)."""
    import sys

    from harness import lib_c10inits as LI

    H = sys.modules[__name__]
    n = 120 if ck.thorough else 40
    cases = [LI.gen_case(H, ck.rng, big=(i % 10 == 9)) for i in range(n)]
    reqs, raws = [], []
    dist = {"tensors": 0, "programs": n, "with_defaults": 0, "same_object_twice": 0, "var_used_twice": 0, "max_initializers": 0, "dtypes": {}}
    for case in cases:
        ck.count(("inits", len(case["args"]), len(case["inits"])))
        try:
            probs, parts, raw, names = LI.run_case(H, case)
        except Exception as e:  # noqa: BLE001
            UNOBSERVABLE.setdefault("multi-initializer oracle", f"{type(e).__name__}: {e}"[:200])
            continue
        for key, what in probs:
            ck.failure(f"inits:{key}", f"{len(case['inits'])} initializers, {len(case['args'])} arguments: {what}", case)
        if parts is None:
            continue
        dist["tensors"] += len(raw)
        dist["max_initializers"] = max(dist["max_initializers"], len(raw))
        dist["with_defaults"] += any(a["default"] for a in case["args"])
        dist["same_object_twice"] += any(it["same_as"] is not None for it in case["inits"])
        dist["var_used_twice"] += len({tuple(u) for u in case["uses"]}) < len(case["uses"])
        for t in parts["initializers"]:
            dist["dtypes"][t.get("dtype")] = dist["dtypes"].get(t.get("dtype"), 0) + 1
        try:
            reqs.append(LI.model_request(H, case, parts, raw, names, q))
            raws.append(raw)
        except Exception as e:  # noqa: BLE001
            ck.broken("correspondence", "C10 initializer table not observable", f"{type(e).__name__}: {e}"[:200])
    mism = 0
    if reqs:
        outs = ck.driver().ask_many("C10", reqs)
        for rq, m, raw in zip(reqs, outs, raws):
            bad = LI.compare(m, raw)
            if bad:
                mism += 1
                if mism <= 3:
                    ck.broken("correspondence", "C10 InitTable.emit vs graph.initializer of the built model", bad)
    if LI.ORDER_NOTES:
        ck.notes.append(f"graph.initializer order differs from the model's (arguments first, then visiting order) in {len(LI.ORDER_NOTES)} programs; "
                        "compared by name (the order is not part of the property; `initializers_emitted_exact`'s order clause then does not describe this tree)")
        dist["order_differs"] = len(LI.ORDER_NOTES)
        LI.ORDER_NOTES.clear()
    dist["mismatches"] = mism
    dist["compared_programs"] = len(reqs)
    ck.cov["initializer_table"] = dist


def run_ref_oracle(ck):
    """Attributes of every kind referenced (`_Ref`) inside a user-defined Function: call node and function body of the
    built model (harness/lib_c10fun.py)."""
    try:
        from harness import lib_c10fun as F
    except Exception as e:  # noqa: BLE001  the recipe's internals are gone: not a verdict
        UNOBSERVABLE.setdefault("Function/_Ref recipe", f"{type(e).__name__}: {e}"[:200])
        return
    ck.count(("attr-ref", "function"))
    try:
        probs = F.run()
    except Exception as e:  # noqa: BLE001  a reference to an attribute of the right kind must be accepted
        probs = [(f"raises:{type(e).__name__}", f"building a Function whose body refers to its attributes raised {type(e).__name__}: {str(e)[:160]}")]
    for key, what in probs:
        ck.failure(f"attr-ref:{key}", f"Function with referenced attributes: {what}", {"kind": "attr_ref"})
    ck.cov["ref_oracle"] = {"kinds": len(F.KINDS), "problems": len(probs)}


def type_attr_cases():
    """TYPE_PROTO attributes (`optional(type=…)`): (description, spox type, expected decoded TypeProto)."""
    import numpy as np

    from spox import Optional as SOptional, Sequence as SSequence, Tensor

    E = W.ONNX_ENUM
    return [
        ("Tensor(float32, (2,))", Tensor(np.float32, (2,)), ("tensor", E["float32"], [2])),
        ("Tensor(int64, ())", Tensor(np.int64, ()), ("tensor", E["int64"], [])),
        ("Tensor(str, ('N', None, 3))", Tensor(np.str_, ("N", None, 3)), ("tensor", E["str"], ["N", None, 3])),
        ("Tensor(bool, None)", Tensor(np.bool_, None), ("tensor", E["bool"], None)),
        ("Tensor(uint64, (0,))", Tensor(np.uint64, (0,)), ("tensor", E["uint64"], [0])),
        ("Sequence(Tensor(float16, (1, 'M')))", SSequence(Tensor(np.float16, (1, "M"))), ("seq", ("tensor", E["float16"], [1, "M"]))),
        ("Sequence(Tensor(int8, None))", SSequence(Tensor(np.int8, None)), ("seq", ("tensor", E["int8"], None))),
    ]


def type_attr_case(desc):
    import spox.opset.ai.onnx.v17 as op

    d, t, want = next(c for c in type_attr_cases() if c[0] == desc)
    try:
        a = _first_attr_tensor(_build_bytes(op.optional(type=t)), "Optional", "type")
    except Exception as e:  # noqa: BLE001
        return f"optional(type={d}) raised {type(e).__name__}: {str(e)[:120]}"
    if a is None or a["name"] != "type" or a["type"] != W.ATTR_TYPE["TYPE_PROTO"] or a["tp"] is None:
        return f"optional(type={d}): attribute {None if a is None else (a['name'], a['type'])}, expected a TYPE_PROTO named 'type'"
    got = W.type_proto(a["tp"])
    if got != want:
        return f"optional(type={d}): embedded type {got}, handed over {want}"
    return None


def run_type_attr_oracle(ck):
    for d, _, _ in type_attr_cases():
        ck.count(("type-attr", d))
        bad = type_attr_case(d)
        if bad:
            ck.failure(f"attr-kind:optional:type:{d.split('(')[0]}", bad, {"kind": "type_attr", "desc": d})


def _site_rows(sinfo):
    import collections

    by = collections.defaultdict(list)
    for r in sinfo["rows"]:
        by[(r["mod"], r["ctor"])].append(r)
    return by


def run_site_case(synth, by, case):
    """One case of the attribute-site oracle -> None | ('skip', why) | (part, what)."""
    from harness import lib_c10sites as S

    if case["level"] == "class":
        A = _imp("spox._attributes")
        if A is None or not hasattr(A, case["cls"]):
            return ("skip", "class not there")
        if case["cls"] == "AttrTensors":
            return S.run_tensors_case(A, case["form"], case["way"])
        return S.run_class_case(A, case["cls"], case["form"], case["way"], case["items"])
    if case["level"] == "variadic":
        return S.run_variadic_case(synth, case, case["way"])
    rows = by.get((case["mod"], case["ctor"]), [])
    row = next((r for r in rows if r["param"] == case["param"]), None)
    if row is None:
        return ("skip", "the constructor attribute is not in the inventory any more")
    if case["way"].startswith("mixed:"):
        return S.run_mixed_case(synth, row, rows, case["way"].split(":", 1)[1])
    if row["cls"] in S.LIST_KIND:
        return S.run_list_case(synth, row, rows, case["way"])
    if row["cls"] == "AttrDtype":
        return S.run_dtype_case(synth, row, rows, case["way"])
    if row["cls"] == "AttrTensor":
        return S.run_tensor_case(synth, row, rows, case["way"])
    return S.run_scalar_case(synth, row, rows, case["way"])


def run_site_oracle(ck, sinfo):
    """Every attribute of every shipped constructor x the ways a caller can hand the value over (one-shot iterables,
    numpy containers, views ...): exact items, ONNX name and type in the built model, captured at the call."""
    from harness import lib_c10sites as S

    rng = ck.rng
    by = _site_rows(sinfo)
    synth = S.Synth()
    cases = []
    # (a) the classes themselves, both entry points, every way, several item lists
    for cname, kind in S.LIST_KIND.items():
        for form in ("direct", "maybe"):
            for way in S.CONTAINERS:
                for items in S.CLASS_ITEMS[kind]:
                    cases.append({"kind": "attr_site", "level": "class", "cls": cname, "form": form, "way": way, "items": items})
    for form in ("direct", "maybe"):
        for way in ("list", "tuple", "generator", "iter", "map", "deque", "dict_values", "chain"):
            cases.append({"kind": "attr_site", "level": "class", "cls": "AttrTensors", "form": form, "way": way, "items": None})
    # (b) every list attribute of every constructor: required ones with every way, optional ones with every one-shot
    #     way in the thorough tier and a seeded selection (always at least one one-shot way) in the quick tier
    for r in sinfo["rows"]:
        if r["cls"] in S.LIST_KIND:
            if r["form"] == "direct" or ck.thorough:
                ways = list(S.CONTAINERS)
            else:
                ways = [rng.choice(S.ONE_SHOT)] + rng.sample([w for w in S.CONTAINERS if w not in S.ONE_SHOT], 2)
            for way in ways:
                cases.append({"kind": "attr_site", "level": "op", "mod": r["mod"], "ctor": r["ctor"], "param": r["param"],
                              "cls": r["cls"], "form": r["form"], "way": way})
        elif r["cls"] in S.SCALAR_KIND or r["cls"] in ("AttrDtype", "AttrTensor"):
            allw = S.DTYPE_WAYS if r["cls"] == "AttrDtype" else S.TENSOR_WAYS if r["cls"] == "AttrTensor" else S.SCALAR_WAYS[S.SCALAR_KIND[r["cls"]]]
            ways = allw if ck.thorough or r["cls"] in ("AttrDtype", "AttrTensor") else ["py", rng.choice(allw[1:])]
            for way in ways:
                cases.append({"kind": "attr_site", "level": "op", "mod": r["mod"], "ctor": r["ctor"], "param": r["param"],
                              "cls": r["cls"], "form": r["form"], "way": way})
    # (c) mixed-opset programs: every attribute of the older modules next to a node of the newest one (the node is
    #     version-adapted at build time), with the value equal to the schema default and with another value
    for r in sinfo["rows"]:
        if r["param"] and r["mod"] not in ("v21", "ml_v5") and (r["cls"] in S.LIST_KIND or r["cls"] in S.SCALAR_KIND or r["cls"] == "AttrDtype"):
            for which in ("default", "other"):
                if which == "other" and not ck.thorough and r["mod"] != "v17" and rng.random() < 0.5:
                    continue
                cases.append({"kind": "attr_site", "level": "op", "mod": r["mod"], "ctor": r["ctor"], "param": r["param"],
                              "cls": r["cls"], "form": r["form"], "way": "mixed:" + which})
    # (d) every constructor parameter typed Sequence[Var]: the caller's list of Vars mutated between call and build
    for v in sinfo.get("variadics", []):
        for mut in S.VARIADIC_MUTS:
            cases.append({"kind": "attr_site", "level": "variadic", "mod": v["mod"], "ctor": v["ctor"], "param": v["param"],
                          "cls": "variadic", "form": "list", "way": mut})
    stats = {"cases": 0, "skipped_way": 0, "rows_reached": set(), "rows_unreached": {}}
    import warnings

    warnings.filterwarnings("ignore")  # InferenceWarning of inputs of unknown rank: not this property's business
    for case in cases:
        try:
            out = run_site_case(synth, by, case)
        except Exception as e:  # noqa: BLE001  a harness problem is not a verdict
            UNOBSERVABLE.setdefault(f"attribute-site oracle ({case.get('ctor') or case.get('cls')})", f"{type(e).__name__}: {e}"[:200])
            continue
        rowkey = (case.get("mod"), case.get("ctor"), case.get("param")) if case["level"] in ("op", "variadic") else (case["cls"], case["form"])
        if out is not None and out[0] == "skip":
            if out[1] == "way not applicable":
                stats["skipped_way"] += 1
            elif out[1].startswith("mixed build raises"):
                stats["mixed_unbuildable"] = stats.get("mixed_unbuildable", 0) + 1
            else:
                stats["rows_unreached"][".".join(map(str, rowkey))] = out[1][:90]
            continue
        stats["cases"] += 1
        stats["rows_reached"].add(rowkey)
        ck.count(("attr-site", case["level"], case["cls"], case["form"], case["way"]))
        if out is not None:
            part, what = out
            where = case["cls"] if case["level"] == "class" else f"{case['mod']}.{case['ctor']}.{case['param']}"
            key = f"capture:variadic:{case['ctor']}:{case['way']}:{part}" if case["level"] == "variadic" else \
                f"attr-site:{case['cls']}:{case['form']}:{case['way']}:{part}"
            ck.failure(key, f"{where}: {what}", case)
    stats["rows_reached"] = len(stats["rows_reached"])
    stats["rows_unreached_n"] = len(stats["rows_unreached"])
    stats["rows_unreached"] = dict(list(stats["rows_unreached"].items())[:12])
    stats["synth_calls"] = synth.attempts
    ck.cov["attr_site_oracle"] = stats


def shrink_capture(site, case):
    """Shortest failing prefix / single mutation of the history."""
    for m in case["muts"]:
        c = dict(case, muts=[m])
        try:
            if run_capture_case(site, c["content"], c["muts"], c["early_build"])[0]:
                return c
        except Exception:  # noqa: BLE001
            pass
    return case


# ------------------------------------------------------------------------------------- run
def run(ck: core.Check):
    from translator import c10_tables

    try:
        info = c10_tables.generate()
    except Exception as e:  # noqa: BLE001  (the translator degrades by itself; this is the last line of defence)
        info = None
        ck.broken("translator", "C10 tables not extractable", f"{type(e).__name__}: {e}"[:300])
    if info is not None:
        ck.cov["generated"] = {
            "tensor_enum": {k: v["enum"] for k, v in info["tensor_enum"].items()},
            "attr_kinds": {k: v["kind"] for k, v in info["attr_kinds"]["rows"].items()},
            "guards": {k: info["attr_kinds"].get(k) for k in ("tensor_guard", "validate_catch_all", "dtype_catches", "dtype_spec_catches", "unknown", "missing")},
            "capture": {r["site"]: f"{r['kind']}:{r['ast']}/{r['observed']}" for r in info["capture"]},
        }
        for what, why in info.get("errors", {}).items():
            ck.broken("translator", f"C10 {what} not extractable", why)
        if info["capture_probe_errors"]:
            ck.notes.append(f"capture probes that raised: {info['capture_probe_errors']}")
    from translator import c10_attrsites

    try:
        sinfo = c10_attrsites.generate()
    except Exception as e:  # noqa: BLE001
        sinfo = {"rows": [], "irregular": ["<translator failed>"], "multi": [], "per_mod": {}, "shapes": [], "live_mismatches": []}
        ck.broken("translator", "C10 attribute sites not extractable", f"{type(e).__name__}: {e}"[:300])
    ck.cov["attr_sites"] = {"rows": len(sinfo["rows"]), "per_module": sinfo["per_mod"], "irregular": sinfo["irregular"][:10],
                            "multi_use": sinfo["multi"][:10], "live_mismatches": sinfo["live_mismatches"][:10],
                            "variadic_parameters": [f"{v['mod']}.{v['ctor']}.{v['param']}" for v in sinfo.get("variadics", [])],
                            "shapes": [f"{x['cls']}/{x['form']}/{'required' if x['required'] else 'optional'}: {x['count']}" for x in sinfo["shapes"]],
                            "required_list_attributes": [f"{r['mod']}.{r['ctor']}.{r['param']}:{r['cls']}" for r in sinfo["rows"]
                                                         if r["form"] == "direct" and r["cls"] in ("AttrInt64s", "AttrFloat32s", "AttrStrings", "AttrTensors")]}
    ck.lean(["SpoxModel.Props.C10"], audit="SpoxModel.Audit.C10")
    if ck.thorough:
        ck.leanchecker(["SpoxModel.Props.C10"])
    q = platform_quietens()
    for facet, fn in (("fromArray/toArray", lambda: run_enc_correspondence(ck, q)),
                      ("Attr constructors", lambda: run_attr_correspondence(ck, q)),
                      ("attribute references", lambda: run_ref_correspondence(ck, q)),
                      ("input fields", lambda: run_fields_correspondence(ck)),
                      ("float rounding", lambda: run_float_correspondence(ck)),
                      ("const/initializer/constant", lambda: run_embed_correspondence(ck, q)),
                      ("capture", lambda: run_capture_correspondence(ck, info) if info else None)):
        try:
            fn()
            ck.log(f"{facet} correspondence done")
        except Exception as e:  # noqa: BLE001  a failure to observe is not a verdict and must not stop the oracle
            ck.broken("correspondence", f"C10 {facet} not observable", f"{type(e).__name__}: {e}"[:300])
    run_oracle(ck)
    ck.log("oracle done")
    try:
        run_type_attr_oracle(ck)
    except Exception as e:  # noqa: BLE001
        ck.broken("correspondence", "C10 TYPE_PROTO attribute oracle not runnable", f"{type(e).__name__}: {e}"[:300])
    try:
        run_inits(ck, q)
        ck.log("initializer-table oracle + correspondence done")
    except Exception as e:  # noqa: BLE001
        ck.broken("correspondence", "C10 initializer-table oracle not runnable", f"{type(e).__name__}: {e}"[:300])
    try:
        run_ref_oracle(ck)
    except Exception as e:  # noqa: BLE001
        ck.broken("correspondence", "C10 attribute-reference oracle not runnable", f"{type(e).__name__}: {e}"[:300])
    try:
        run_argdef_oracle(ck)
    except Exception as e:  # noqa: BLE001
        ck.broken("correspondence", "C10 argument-default oracle not runnable", f"{type(e).__name__}: {e}"[:300])
    try:
        run_site_oracle(ck, sinfo)
        ck.log("attribute-site oracle done")
    except Exception as e:  # noqa: BLE001
        ck.broken("correspondence", "C10 attribute-site oracle not runnable", f"{type(e).__name__}: {e}"[:300])
    for facet, why in UNOBSERVABLE.items():
        ck.broken("correspondence", f"C10 {facet} not observable", why)
    ck.exhaustive = False
    ck.rule = (
        "encoding: all 2^8 patterns of int8/uint8, both of bool, "
        "all 2^16 of int16/uint16/float16/bfloat16 (exhaustive in both tiers), boundary + seeded random patterns (NaN payloads, signalling NaNs, "
        "-0, denormals, 2^63.., extremes) of the 32/64-bit and complex types, strings over a non-ASCII alphabet "
        "(1-4 byte code points, NUL inside), shapes (), (0,), (1,), (2,3), (0,2); layouts C/F/strided/big-endian/"
        "read-only; attribute classes x ~150 values; capture: every site x seeded mutation histories (1-3 steps), "
        "model built before and/or after the mutations; distinct = (route/site, dtype, shape, layout | value kind)"
    )
    ck.assumptions += [
        "onnx.helper.make_tensor / make_attribute / protobuf number handling as written in Model/Tensor.lean and Model/Attr.lean (compared field by field with the real objects on every run)",
        "numpy conversions (np.array(value, dtype), (float)double, float(int)) are inputs of the model, taken from numpy",
        f"float32 -> Python float -> float32 {'sets' if q else 'keeps'} the quiet bit of a signalling NaN on this platform (measured on this run)",
        "the caller reaches spox's private storage only through the objects it passed (attr.value / _get_value() results are spox's, not the caller's)",
    ]
    ck.trusted_base += [
        "translator/c10_tables.py: AST classification of the stored expression (cross-checked by the observed sharing relation and by the mutation oracle)",
        "harness/lib_c10wire.py: the independent protobuf wire decoder used by the oracle",
    ]


# ---------------------------------------------------------------------------------- replay
def replay(ck: core.Check, doc) -> bool:
    case = doc["case"]
    kind = case.get("kind")
    if kind == "embed":
        probs = embed_case(case)
        for k, w in probs:
            print(f"{k}: {w}")
        return bool(probs)
    if kind == "attr_kind":
        allc = attr_kind_cases()
        desc, build, exp = next((c for c in allc if c[0] == case.get("desc")), None) or allc[case["index"]]
        try:
            bad = judge_attr(build(), exp)
        except Exception as e:  # noqa: BLE001
            bad = f"raised {type(e).__name__}: {e}"
        print(f"{desc}: {bad or 'ok'}")
        return bool(bad)
    if kind == "attr_float":
        import numpy as np

        import spox.opset.ai.onnx.v17 as op
        from spox import Tensor, argument

        x = argument(Tensor(np.float32, (2,)))
        bad = False
        for b in case["bits"]:
            v = struct.unpack("<d", struct.pack("<Q", b))[0]
            g = W.graph_parts(W.graph_of_model(_build_bytes(op.leaky_relu(x, alpha=v), (x,))))
            got = g["nodes"][0]["attrs"][0]["f"]
            z = W.graph_parts(W.graph_of_model(_build_bytes(op.constant(value_floats=[v]))))
            got2 = z["nodes"][0]["attrs"][0]["floats"][0]
            want = f32_bits_of_double(v)
            ok = same_words("float32", [got], [want]) and same_words("float32", [got2], [want])
            print(f"{v!r}: alpha {got:#x}, value_floats {got2:#x}, expected {want:#x}: {'ok' if ok else 'DIFFERENT'}")
            bad = bad or not ok
        return bad
    if kind == "const_prop":
        desc, build, d, shape, data = next(c for c in const_prop_cases() if c[0] == case["desc"])
        try:
            bad = judge_const_prop(build, d, shape, data)
        except Exception as e:  # noqa: BLE001
            bad = f"raised {type(e).__name__}: {e}"
        print(f"{desc}: {bad or 'ok'}")
        return bool(bad)
    if kind == "wrong_kind":
        allc = wrong_kind_cases()
        desc, cname, vk, call = next((c for c in allc if c[0] == case.get("desc")), None) or allc[case["index"]]
        o = core.safe(call)
        print(f"{desc}: {'accepted' if o[0] == 'ok' else 'raises ' + o[1]}")
        return not (o[0] == "err" and o[1] == "TypeError")
    if kind == "capture":
        site = next(s for s in sites() if s.name == case["site"])
        try:
            problems, _, _ = run_capture_case(site, case["content"], case["muts"], case.get("early_build", False))
        except Exception as e:  # noqa: BLE001
            print(f"{site.name}: raised {type(e).__name__}: {e}")
            return True
        for part, what in problems:
            print(f"{site.name}: {what}")
        return bool(problems)
    if kind == "type_attr":
        bad = type_attr_case(case["desc"])
        print(bad or "ok")
        return bool(bad)
    if kind == "attr_ref":
        from harness import lib_c10fun as F

        try:
            probs = F.run()
        except Exception as e:  # noqa: BLE001
            probs = [(f"raises:{type(e).__name__}", str(e)[:200])]
        for k, w in probs:
            print(f"{k}: {w}")
        return bool(probs)
    if kind == "argdef":
        probs = argdef_case(case)
        for k, w in probs:
            print(f"{k}: {w}")
        return any(k != "unobservable" for k, _ in probs)
    if kind == "inits":
        import sys

        from harness import lib_c10inits as LI

        probs = LI.run_case(sys.modules[__name__], case)[0]
        for k, w in probs:
            print(f"{k}: {w}")
        return bool(probs)
    if kind == "attr_site":
        from harness import lib_c10sites as S
        from translator import c10_attrsites

        import warnings

        warnings.filterwarnings("ignore")
        out = run_site_case(S.Synth(), _site_rows(c10_attrsites.generate()), case)
        print(f"{case.get('ctor') or case.get('cls')} <{case['way']}>: {'ok' if out is None else out}")
        return out is not None and out[0] != "skip"
    raise ValueError(f"unknown replay kind {kind}")
