"""C03 — the model's inputs and outputs are exactly what was requested.

tie G : translator/renames_ir.py (the IR of `_temporary_renames` the front-end model runs through),
         translator/build_front_ir.py (the statement list of `build` itself — guards, exception classes,
         the with-block, the drop_unused_inputs option — executed by the driver; digests of the covered functions)
proof  : Props/C03.lean over Model/Front.lean (front end of `spox.build` + `discover`'s argument sets)
tie H  : random programs with nested If/Loop bodies x random requests, run on the real `spox.build`
         and on the model (driver key C03); graph inputs/outputs compared as ordered
         (name, elem type, dims) lists, error classes, and every Var's `_name` afterwards
oracle : model-free — `model.graph.input/output` compared with the request directly (names, order,
         types incl. symbolic dims; dropped inputs = reachability on the abstract program; output
         values through onnxruntime against an independent numpy evaluation of the abstract
         program); repeated in fresh processes under several PYTHONHASHSEEDs
"""
from __future__ import annotations

import json

import numpy as np

from harness import core
from harness import lib_front as lf


def same_value(w, r) -> bool:
    """Expected vs. runtime value: tensors (shape and contents), sequences (lists), absent optionals (None)."""
    if w is None or r is None:
        return w is None and r is None
    if isinstance(w, list) or isinstance(r, list):
        return isinstance(w, list) and isinstance(r, list) and len(w) == len(r) and all(same_value(a, b) for a, b in zip(w, r))
    return np.shape(r) == np.shape(w) and bool(np.allclose(
        np.asarray(w, dtype=np.float64), np.asarray(r, dtype=np.float64), rtol=1e-5, atol=1e-6))


# ----------------------------------------------------------------------------- oracle (no Lean model involved)
def judge(prog, req, got_kind, got, values=None):
    """Compare an observation with what the property prescribes. Returns [(key, what)].

    got_kind/got: ('ok', (inputs, outputs)) or ('err', class)."""
    exp = lf.expected(prog, req)
    if exp is None:
        return []
    d = f"drop={int(bool(req['drop']))}"
    if exp[0] == "err":
        if got_kind == "err" and got == exp[1]:
            return []
        if exp[1] == "Key" and got_kind == "ok" and lf.preset_clash(prog, req):
            # known finding: the missing-input test of build compares NAMES
            return [(f"{d}:error:expected-Key-got-ok:preset-name-equals-key",
                     "an output depends on an unlisted argument made by spox._graph.arguments_dict whose preset name equals a key of "
                     "`inputs`: build should raise KeyError but returns a model whose input of that name is the unlisted argument")]
        seen = "a model" if got_kind == "ok" else got + "Error"
        return [(f"{d}:error:expected-{exp[1]}-got-{'ok' if got_kind == 'ok' else got}",
                 f"build should raise {exp[1]}Error ({req.get('kind', '?')} request) but produced {seen}")]
    if got_kind == "err":
        return [(f"{d}:error:unexpected-{got}", f"valid request ({req.get('kind', '?')}) but build raised {got}Error")]
    bad = []
    ins = [tuple(x) for x in got[0]]
    outs = [tuple(x) for x in got[1]]
    ein = [tuple(x) for x in exp[1]]
    eout = [tuple(x) for x in exp[2]]
    if ins != ein:
        if sorted(ins) == sorted(ein):
            bad.append((f"{d}:inputs:order", f"graph inputs {[n for n, _ in ins]} but requested order {[n for n, _ in ein]}"))
        elif sorted(n for n, _ in ins) == sorted(n for n, _ in ein):
            bad.append((f"{d}:inputs:type", f"graph inputs {ins} but requested {ein}"))
        else:
            bad.append((f"{d}:inputs:set", f"graph inputs {[n for n, _ in ins]} but the request prescribes {[n for n, _ in ein]}"))
    if outs != eout:
        if sorted(outs) == sorted(eout):
            bad.append((f"{d}:outputs:order", f"graph outputs {[n for n, _ in outs]} but requested order {[n for n, _ in eout]}"))
        elif sorted(n for n, _ in outs) == sorted(n for n, _ in eout):
            bad.append((f"{d}:outputs:type", f"graph outputs {outs} but requested {eout}"))
        else:
            bad.append((f"{d}:outputs:set", f"graph outputs {[n for n, _ in outs]} but requested {[n for n, _ in eout]}"))
    if values is not None and not bad:
        want, res = values
        for (name, _), w, r in zip(eout, want, res):
            if not same_value(w, r):
                bad.append((f"{d}:outputs:value", f"output {name} evaluates to {r!r}, the requested Var to {w!r}"))
                break
    return bad


def feeds_for(prog, req, seed):
    import random

    rng = random.Random(seed)
    idx = lf.index(prog)
    return {i: lf.feed_for(idx[i]["ty"], rng) for _, i in req["inputs"] if idx[i]["k"] == "arg"}


def oracle_inproc(prog, req, env=None, with_values=True, feed_seed=0):
    """Run the real build in this process and judge it. Returns (bad, outcome)."""
    if env is None:
        env = lf.realize(prog)
    got = lf.run_build(env, req)
    if got[0] == "err":
        return judge(prog, req, "err", got[1]), got
    obs = lf.observed(got[1])
    values = None
    exp = lf.expected(prog, req)
    if with_values and exp is not None and exp[0] == "ok" and (list(map(tuple, obs[0])), list(map(tuple, obs[1]))) == (
        [tuple(x) for x in exp[1]], [tuple(x) for x in exp[2]]
    ):
        feeds = feeds_for(prog, req, feed_seed)
        try:
            want = lf.evaluate(prog, feeds, [i for _, i in req["outputs"]])  # ValueError: custom-domain operators have no semantics
            res = lf.run_ort(got[1], {n: feeds[i] for n, i in req["inputs"]})
            values = (want, res)
        except Exception as e:  # noqa: BLE001 - a runtime refusing the model is not C03's business
            values = None
            got = ("ok", got[1], "runtime-refused:" + type(e).__name__)
    return judge(prog, req, "ok", obs, values), got


def run_fresh(ck, cases, hashseeds, tag):
    """cases: [{"prog", "reqs", "salt"}]; one fresh interpreter per hash seed. Returns {seed: results}.

    A worker that dies, or a case the worker could not run, is registered with ck.broken and left out
    (never raised): results[seed][j] is None for such a case."""
    path = core.WORK / f"front-cases-{ck.pid}-{tag}-{ck.seed}.json"
    path.write_text(json.dumps(cases))
    out = {}

    def one(hs):
        try:
            p = core.run_isolated(
                f"from harness import front_worker as w; w.main({str(path)!r})",
                env={"PYTHONHASHSEED": str(hs)},
                timeout=900,
            )
            line = next((ln for ln in p.stdout.splitlines() if ln.startswith("RESULT ")), None)
            if p.returncode != 0 or line is None:
                return hs, None, f"rc={p.returncode} {p.stderr[-600:]}"
            return hs, json.loads(line[len("RESULT "):]), None
        except Exception as e:  # noqa: BLE001
            return hs, None, f"{type(e).__name__}: {e}"

    from concurrent.futures import ThreadPoolExecutor

    with ThreadPoolExecutor(max_workers=6) as pool:
        done = list(pool.map(one, hashseeds))
    for hs, res, err in done:  # in the order of `hashseeds`: the verdict does not depend on scheduling
        if res is None:
            ck.broken("correspondence", "fresh-process worker failed", f"hash seed {hs}: {err}")
            continue
        for j, r in enumerate(res):
            if isinstance(r, dict) and "worker_error" in r:
                ck.broken("correspondence", "fresh-process case not runnable", r["worker_error"])
                res[j] = None
        out[hs] = res
    return out


def shrink(prog, req, key, check):
    """Greedy: drop request entries while the same failure key persists."""
    cur = dict(req)
    changed = True
    while changed:
        changed = False
        for field in ("outputs", "inputs"):
            for j in range(len(cur[field])):
                if field == "outputs" and len(cur[field]) == 1:
                    continue
                cand = dict(cur)
                cand[field] = cur[field][:j] + cur[field][j + 1:]
                try:
                    if key in [k for k, _ in check(prog, cand)]:
                        cur, changed = cand, True
                        break
                except Exception:  # noqa: BLE001
                    pass
            if changed:
                break
    return cur


# ----------------------------------------------------------------------------- the check
def is_modelled(req) -> bool:
    """requests with empty / non-string names are outside the model: oracle and C12 only"""
    return all(isinstance(n_, str) and n_ != "" for n_, _ in req["inputs"] + req["outputs"])


def agrees(res, got, req) -> bool:
    """a model-side result (`res` / `spec` / a history step) against what the real spox.build did"""
    if not isinstance(res, dict):
        return False
    if got[0] == "ok":
        obs = lf.observed(got[1])
        return ("inputs" in res and [tuple(x) for x in res["inputs"]] == [tuple(x) for x in obs[0]]
                and [tuple(x) for x in res["outputs"]] == [tuple(x) for x in obs[1]]
                and res["outVars"] == [i for _, i in req["outputs"]])
    return res.get("err") == got[1]


def model_request(prog, req, pi=0):
    return {"objs": lf.to_objs(prog), "inputs": req["inputs"], "outputs": req["outputs"], "drop": req["drop"],
            "pi": pi, "fixed": True, "store": lf.preset_store(prog)}


def run(ck: core.Check):
    from translator import renames_ir

    try:
        ck.cov["generated_renames_ir"] = renames_ir.generate()["ir"]
    except Exception as e:  # noqa: BLE001
        ck.broken("translator", "translator/renames_ir.py could not read src/spox/_public.py", f"{type(e).__name__}: {e}")
    changed = lf.covered_code_changes(ck)
    ck.lean(["SpoxModel.Props.C03"], audit="SpoxModel.Audit.C03")
    if ck.thorough:
        ck.leanchecker(["SpoxModel.Props.C03"])

    rng = ck.rng
    n_prog = ck.pick(900 if changed else 500, 3000)  # code the model covers was edited: look harder
    cases = []  # (prog, env, [reqs])
    for _ in range(n_prog):
        prog = lf.gen_program(rng, domains=(rng.random() < 0.2))  # a fifth with inlined custom-domain models (no runtime semantics)
        reqs = [lf.gen_request(rng, prog, allow_dup=(rng.random() < 0.15)) for _ in range(3)]
        if rng.random() < 0.25:
            clash = lf.gen_preset_clash_request(rng, prog)
            if clash is not None:
                reqs.append(clash)
        if rng.random() < 0.3:
            odd = lf.gen_odd_request(rng, prog)
            if odd is not None:
                reqs.insert(rng.randrange(len(reqs) + 1), odd)
        # the requests of one program form a history over the same Vars (nothing is reset in between);
        # most programs also get a directed pair: a build failing inside the block, then a request that
        # must raise KeyError unless the failed build left names behind
        if rng.random() < 0.7:
            pair = lf.gen_stale_name_pair(rng, prog)
            if pair is not None:
                at = rng.randrange(len(reqs) + 1)
                reqs[at:at] = list(pair)
                if rng.random() < 0.5:
                    reqs.append(lf.gen_request(rng, prog))
        cases.append((prog, reqs))

    # ---- size boundary: dependency chains of 1200 / 3000 sequential operators, flat and inside a body, both flag
    # values, valid and missing-input requests (Python's default recursion limit is 1000)
    for n_, in_body in ck.pick([(1200, False), (1200, True), (3000, False)],
                               [(1200, False), (1200, True), (3000, False), (3000, True), (5000, False)]):
        cp = lf.gen_chain_program(rng, n_, in_body)
        cases.append((cp, lf.chain_requests(cp)))
    # ---- size in breadth: > 100 inputs, > 50 outputs
    for _ in range(ck.pick(2, 8)):
        wp, wreqs = lf.gen_wide_program(rng, rng.choice([110, 120, 150]))
        cases.append((wp, wreqs))
    # ---- If nested 5-7 deep and inlined models with very long internal names (long generated names)
    for _ in range(ck.pick(6, 40)):
        lp, lreq = lf.gen_long_name_program(rng)
        cases.append((lp, [lreq, lf.gen_request(rng, lp), lf.gen_request(rng, lp)]))

    # ---- correspondence + in-process oracle
    flat = [(prog, req) for prog, reqs in cases for req in reqs]
    pis = [rng.randrange(5) for _ in flat]
    try:
        model = ck.driver().ask_many("C03", [model_request(p, r, pi=q) for (p, r), q in zip(flat, pis)])
    except Exception as e:  # noqa: BLE001
        ck.broken("correspondence", "C03 driver", str(e))
        model = [None] * len(flat)
    # ---- histories (tie H for Front.runHist / C12.history_independent): the modelled requests of one program, in
    # the order the real builds run below, executed by the driver one after the other over ONE name store
    hist_idx, hist_reqs, k_ = [], [], 0
    for ci, (prog, reqs) in enumerate(cases):
        steps = [{"inputs": r["inputs"], "outputs": r["outputs"], "drop": r["drop"], "pi": pis[k_ + j]}
                 for j, r in enumerate(reqs) if is_modelled(r)]
        k_ += len(reqs)
        if steps and prog["n"] <= 400:
            hist_idx.append(ci)
            hist_reqs.append({"objs": lf.to_objs(prog), "store": lf.preset_store(prog), "hist": steps})
    try:
        hist_out = dict(zip(hist_idx, ck.driver().ask_many("C03", hist_reqs)))
    except Exception as e:  # noqa: BLE001
        ck.broken("correspondence", "C03 driver (histories)", str(e))
        hist_out = {}

    stats = {"kinds": {}, "outcomes": {}, "nested_only_depth": {}, "dropped_some": 0, "value_checks": 0,
             "runtime_refused": 0, "max_objs": 0}
    mism = 0
    k = 0
    recent = []  # the last builds of this process: a history-dependent failure needs them to replay
    ci_ = -1
    spec_stats = {"checked": 0, "ok": 0, "Key": 0, "drop": 0, "dropped_some": 0, "not_wellformed": 0, "mismatches": 0}
    hist_stats = {"histories": 0, "steps": 0, "failed_steps": 0, "max_len": 0, "mismatches": 0}
    for prog, reqs in cases:
        try:
            env = lf.realize(prog)
        except Exception as e:  # noqa: BLE001 - the public constructors refuse a well-typed program
            ck.broken("correspondence", "program not constructible with the public constructors", f"{type(e).__name__}: {e}")
            k += len(reqs)
            ci_ += 1
            continue
        stats["max_objs"] = max(stats["max_objs"], prog["n"])
        stats.setdefault("opsets", {})[str(prog.get("opset", 17))] = stats.setdefault("opsets", {}).get(str(prog.get("opset", 17)), 0) + 1
        stats["preset_named_args"] = stats.get("preset_named_args", 0) + len(lf.preset_store(prog))
        stats["default_valued_args"] = stats.get("default_valued_args", 0) + sum(1 for n_ in prog["nodes"] if n_.get("default"))
        # hypothesis WF of discover_all_arguments_spec: every reference points to an older object
        for i_, o_ in enumerate(lf.to_objs(prog)):
            refs = o_["deps"] + [x for b in o_["subs"] for x in b["formals"] + b["results"]]
            if any(r_ >= i_ for r_ in refs):
                ck.broken("correspondence", "C03 generated program violates WF (reference to a newer object)", str(o_))
        done_here = []  # earlier requests on these very Vars
        real_steps = []  # (req, got) of the modelled requests, in order: compared with the driver's history run
        ci_ = ci_ + 1
        for req in reqs:
            m = model[k]
            k += 1
            big = prog["n"] > 400   # the evaluator and the statistics below recurse along dependency chains
            with_values = (k % ck.pick(3, 2)) == 0 and not big
            if "chain" in prog or "wide" in prog:
                stats["chains" if "chain" in prog else "wide"] = stats.get("chains" if "chain" in prog else "wide", 0) + 1
            bad, got = oracle_inproc(prog, req, env, with_values=with_values, feed_seed=k)
            if len(got) == 3:
                stats["runtime_refused"] += 1
            names_after = [getattr(env.get(i), "_name", None) for i in range(prog["n"])]
            stats["kinds"][req["kind"]] = stats["kinds"].get(req["kind"], 0) + 1
            oc = "ok" if got[0] == "ok" else got[1]
            stats["outcomes"][oc] = stats["outcomes"].get(oc, 0) + 1
            exp = lf.expected(prog, req)
            if len({i for _, i in req["outputs"]}) < len(req["outputs"]):
                stats["repeated_output_var"] = stats.get("repeated_output_var", 0) + 1
            if {i for _, i in req["outputs"]} & {i for _, i in req["inputs"]}:
                stats["var_both_input_and_output"] = stats.get("var_both_input_and_output", 0) + 1
            if exp and exp[0] == "ok" and not big:
                if with_values:
                    stats["value_checks"] += 1
                if req["drop"] and len(exp[1]) < len(req["inputs"]):
                    stats["dropped_some"] += 1
                nest = lf.nesting_of_use(prog, [i for _, i in req["outputs"]])
                for a, dep in nest.items():
                    if dep > 0:
                        stats["nested_only_depth"][dep] = stats["nested_only_depth"].get(dep, 0) + 1
                        if req["drop"] and dep >= 2:
                            stats["drop_with_input_read_only_at_depth_ge_2"] = stats.get("drop_with_input_read_only_at_depth_ge_2", 0) + 1
                # how the surviving inputs are read: only as a control-flow operand (If condition, Loop trip
                # count / condition / state, Scan input), only as a body result, ...
                for a, ks in lf.use_kinds(prog, [i for _, i in req["outputs"]]).items():
                    if "operand" not in ks and "output" not in ks:
                        tag = "+".join(sorted(ks)) + (":drop" if req["drop"] else "") + (":nested" if nest.get(a, 0) > 0 else "")
                        stats.setdefault("read_only_as", {})[tag] = stats.setdefault("read_only_as", {}).get(tag, 0) + 1
            nontrivial = len(req["inputs"]) >= 2 or req["kind"] != "plain"
            ck.count(("req", json.dumps([lf.to_objs(prog), req["inputs"], req["outputs"], req["drop"]])) if nontrivial else None)
            ck.sample({"request": req, "outcome": oc, "expected": exp if exp is None else exp[0]}, 4)
            for key, what in bad:
                small = shrink(prog, req, key, lambda p, r: oracle_inproc(p, r, env, with_values=key.endswith("value"), feed_seed=k)[0])
                ck.failure(key, what, {"prog": prog, "req": small, "mode": "inproc", "feed_seed": k,
                                       "before": list(done_here),
                                       "prelude": [{"prog": p_, "reqs": rs_} for p_, rs_ in recent[-2:]]})
            done_here.append(req)
            # correspondence (requests with empty / non-string names are outside the model: oracle and C12 only)
            modelled = is_modelled(req)
            if modelled:
                real_steps.append((req, got, names_after))
            if m is not None and modelled:
                if "error" in m:
                    ok = False
                else:
                    ok = agrees(m["res"], got, req)
                if ok and "names" in m:
                    ok = m["names"] == names_after
                # C03.build_statements_refine_spec: on a well-formed request (wfReq, evaluated by the driver) under
                # NoClash the result is Front.specBuild - compared here with what the real build did
                if "error" not in m:
                    if m.get("wfreq") is True and m.get("noclash") is True:
                        spec_stats["checked"] += 1
                        sp = m.get("spec")
                        spec_stats["ok" if isinstance(sp, dict) and "inputs" in sp else "Key"] += 1
                        if req["drop"]:
                            spec_stats["drop"] += 1
                            if isinstance(sp, dict) and len(sp.get("inputs", req["inputs"])) < len(req["inputs"]):
                                spec_stats["dropped_some"] += 1
                        if not agrees(sp, got, req):
                            spec_stats["mismatches"] += 1
                            if spec_stats["mismatches"] <= 3:
                                real = lf.observed(got[1]) if got[0] == "ok" else got[1]
                                ck.broken("correspondence", "C03 abstract specification (Front.specBuild) vs spox.build on a well-formed request",
                                          f"req={req} objs={lf.to_objs(prog)} spec={sp} real={real}")
                    else:
                        spec_stats["not_wellformed"] += 1
                if m.get("noclash") is False:
                    # the side condition of the *_noclash theorems fails exactly on the known-finding witnesses
                    stats["noclash_false"] = stats.get("noclash_false", 0) + 1
                    if not (lf.preset_clash(prog, dict(req, drop=True)) or lf.preset_output_clash(prog, req)):
                        ck.broken("correspondence", "C03 driver reports NoClash = false on a request without a preset-name clash", str(req)[:300])
                if m.get("wf") is not True and "error" not in m:
                    ck.broken("correspondence", "C03 generated program violates the model's WF hypothesis (wfb = false)", str(lf.to_objs(prog))[:600])
                if not ok:
                    mism += 1
                    if mism <= 3:
                        real = lf.observed(got[1]) if got[0] == "ok" else got[1]
                        ck.broken("correspondence", "C03 front-end model vs spox.build",
                                  f"req={req} objs={lf.to_objs(prog)} model={m} real={real} names={names_after}")
        # the driver's run of the same requests as ONE history (Front.runHist) against the real sequence
        h = hist_out.get(ci_)
        if h is not None and real_steps:
            hist_stats["histories"] += 1
            hist_stats["steps"] += len(real_steps)
            hist_stats["failed_steps"] += sum(1 for _, g, _ in real_steps if g[0] != "ok")
            hist_stats["max_len"] = max(hist_stats["max_len"], len(real_steps))
            rs = h.get("results") if isinstance(h, dict) else None
            okh = (isinstance(rs, list) and len(rs) == len(real_steps)
                   and all(agrees(r_, g_, q_) for r_, (q_, g_, _) in zip(rs, real_steps))
                   and h.get("names") == real_steps[-1][2])
            if not okh:
                hist_stats["mismatches"] += 1
                if hist_stats["mismatches"] <= 3:
                    ck.broken("correspondence", "C03/C12 history model (Front.runHist over the extracted statements) vs the real sequence of builds",
                              f"objs={lf.to_objs(prog)} steps={[q_ for q_, _, _ in real_steps]} model={h} "
                              f"real={[(g_[0] if g_[0] == 'ok' else g_[1]) for _, g_, _ in real_steps]} names={real_steps[-1][2]}")
        recent.append((prog, list(done_here)))
        del recent[:-2]

    # ---- fresh processes, several hash seeds: same judgement, plus run-to-run stability
    hashseeds = list(range(ck.pick(6, 32)))
    fresh_cases = []
    for prog, reqs in cases:
        good = [r for r in reqs if (e := lf.expected(prog, r)) and e[0] == "ok" and len(e[1]) >= 2]
        if good:
            fresh_cases.append({"prog": prog, "reqs": good, "salt": rng.randrange(0, 64)})
        if len(fresh_cases) >= ck.pick(40, 150):
            break
    results = run_fresh(ck, fresh_cases, hashseeds, "c03")
    n_fresh = 0
    for hs, res in results.items():
        for c, rs in zip(fresh_cases, res):
            for req, r in zip(c["reqs"], rs or []):
                n_fresh += 1
                ck.count(None)
                got = ("err", r["err"]) if "err" in r else ("ok", (r["inputs"], r["outputs"]))
                for key, what in judge(c["prog"], req, *got):
                    ck.failure(key, what + f" (fresh process, PYTHONHASHSEED={hs})",
                               {"prog": c["prog"], "req": req, "mode": "fresh", "hashseeds": hashseeds, "salt": c["salt"]})
    ck.cov.update({
        "correspondence_cases": len(flat),
        "correspondence_mismatches": mism,
        "spec_refinement": spec_stats,
        "history_correspondence": hist_stats,
        "fresh_process_builds": n_fresh,
        "hash_seeds": len(hashseeds),
        "distribution": stats,
    })
    ck.exhaustive = False
    ck.rule = (
        "seeded-random abstract programs (1-6 arguments of random element type/rank/constant, symbolic and unknown "
        "dims; up to 8 top-level values; If/Loop/Scan bodies nested to depth 3 using outer values and arguments directly; "
        "arguments read only as control-flow operands - If condition, Loop trip count / condition / state, Scan input - "
        "or only as body results, at every depth) "
        "x 3 requests each (random dictionary orders and names, unused / dropped / missing arguments, non-argument "
        "inputs, non-Var inputs and outputs, pass-through outputs, one Var under two keys, both flag values); "
        "non-trivial = at least 2 inputs or an irregular request; distinct by (program, request)"
    )
    ck.assumptions += [
        "user-chosen input/output names never have the form of spox's generated names (Argument_k_arg, <Op>_k_<field>)",
        "Vars given to build were made by the public constructors (unnamed before build)",
        "onnxruntime evaluates the emitted graph per the ONNX specification (output-value part of the oracle)",
        "types are opaque tokens in the front-end model (element type + dims rendered by the harness); their ONNX encoding is C13's subject",
    ]


def replay(ck: core.Check, doc) -> bool:
    case = doc["case"]
    prog, req = case["prog"], case["req"]
    # builds that preceded the failing one in the original process (matters for history-dependent faults)
    for pre in case.get("prelude", []):
        env = lf.realize(pre["prog"])
        for r in pre["reqs"]:
            lf.run_build(env, r)
    env = lf.realize(prog)
    for r in case.get("before", []):  # the earlier requests over the same Vars
        lf.run_build(env, r)
    bad, _ = oracle_inproc(prog, req, env, with_values=True, feed_seed=case.get("feed_seed", 0))
    for key, what in bad:
        print(f"{key}: {what}")
    if bad:
        return True
    # orders taken from sets vary with object addresses: look at several fresh interpreters too
    cases = [{"prog": prog, "reqs": [req], "salt": case.get("salt", 0) + 13 * j} for j in range(4)]
    res = run_fresh(ck, cases, case.get("hashseeds", [0, 1, 2, 3])[:8], "replay")
    for hs, rs in res.items():
        for one in rs:
            if not one:
                continue
            r = one[0]
            got = ("err", r["err"]) if "err" in r else ("ok", (r["inputs"], r["outputs"]))
            b = judge(prog, req, *got)
            for key, what in b:
                print(f"{key}: {what} (PYTHONHASHSEED={hs})")
            if b:
                return True
    return False
