"""C01 — a built model computes exactly the dataflow the program describes.

proof  : Props/C01.lean — `valid_sound` (any semantics, any program, any emission accepted by the
         decidable `validG`, any inputs) and the irrelevance corollaries (creation order, later /
         unrequested constructions, choice of emission).
tie H  : translation validation of the REAL output on every run: each generated abstract program is
         written in several Python styles with the real constructors, built by `spox.build`, the
         nested emission is read back from the ModelProto alone (lib_prog.extract_emission: the
         NodeProto <-> program-node correspondence is derived by demand from the results) and the driver
         runs the Lean `wfCheck`, `validG` on it, and `evalG` (on the emission) against `denoteG` (on
         the program) under a discriminating integer semantics.
oracle : model-free: the built model runs under onnxruntime (optimisations off; onnx.reference as a
         second runtime on a slice) on random bindings and every requested output is compared with
         an independent numpy evaluator of the abstract program; a constructor / build exception on
         a well-typed, leak-free program is a failure too.
"""
from __future__ import annotations

import collections
import hashlib
import json
import os
import random

import numpy as np

from harness import core
from harness import lib_prog as L

P = 1000003


# ----------------------------------------------------------------------------- one realisation
def classify_raise(prog, stage: str, exc: BaseException) -> str:
    cls = type(exc).__name__
    if stage == "construct" and cls == "InferenceError":
        for n in prog["nodes"]:
            if n["op"] == "Loop" and n["ins"][1] is not None:
                t = prog["nodes"][n["ins"][1][0]]["ty"][n["ins"][1][1]]
                if t[0] == "bool" and t[1] == [] and not t[2]:
                    return "construct-raises:InferenceError:loop-scalar-cond"
        if prog.get("opset", 17) >= 18 and any(n["op"] == "Split" and n["ins"][1] is not None for n in prog["nodes"]):
            return "construct-raises:InferenceError:split18-explicit-sizes"
    return f"{stage}-raises:{cls}"


def tolerance(prog) -> float:
    return 1e-4 if any(n["op"] in ("Gelu", "DFT") for n in prog["nodes"]) else 1e-6


def differs(prog, got, want):
    """None when the runtime's value is the dataflow's value (bit-level for `special` programs)."""
    if prog.get("special"):
        return L.same_bits(got, want)
    return L.same_value(got, want, tolerance(prog))


def run_case(prog, style: str, rseed: int, bindings, specs=None, use_reference=False, dims: str = "concrete"):
    """Write `prog` in Python (`style`, `rseed`), build it, and judge the result with the model-free
    oracle.  Returns a dict: fail = (key, what) | None; model, emission, problems, realised, stats."""
    out = {"fail": None, "model": None, "emission": None, "problems": [], "realised": None,
           "compared": 0, "wild": 0, "notes": []}
    rng = random.Random(rseed)
    import warnings

    j_stage("construct")
    try:
        with warnings.catch_warnings():
            warnings.simplefilter("ignore")
            R = L.realise(prog, rng, style, twins=bool(prog.get("special")), dims=dims)
    except L.HarnessError as e:
        out["problems"] = [f"harness: {e}"]
        return out
    except Exception as e:  # noqa: BLE001 - any exception from a constructor on a well-typed program
        out["fail"] = (classify_raise(prog, "construct", e), f"constructor raised {type(e).__name__}: {str(e)[:200]}")
        return out
    out["realised"] = R
    if dims != "concrete":
        # premise "requested outputs have a known rank": with inputs declared by name / None, ONNX inference may
        # lose an output's rank altogether (Loop state whose body result has another declared size)
        try:
            if any(v.unwrap_tensor().shape is None for v in R.outputs.values()):
                out["notes"].append("outside-premise: a requested output has no known rank")
                return out
        except Exception:  # noqa: BLE001 - cannot tell: judge the case with concrete declarations instead
            return run_case(prog, style, rseed, bindings, specs, use_reference, "concrete")
    j_stage("build")
    try:
        model, log = L.build_model(R)
    except Exception as e:  # noqa: BLE001
        out["fail"] = (classify_raise(prog, "build", e), f"spox.build raised {type(e).__name__}: {str(e)[:200]}")
        return out
    out["model"] = model
    j_stage("extract")
    try:
        em, problems = L.extract_emission(prog, model)
    except Exception as e:  # noqa: BLE001 - extraction trouble is a broken tie, never a verdict
        em, problems = None, [f"extraction crashed: {type(e).__name__}: {e}"]
    out["emission"], out["problems"] = em, problems
    # --- model-free oracle
    j_stage("runtime")
    if specs is None:
        specs = []
        for b in bindings:
            try:
                specs.append(L.eval_numpy(prog, b))
            except L.PartialOp:
                specs.append(None)
    live = [(b, sp) for b, sp in zip(bindings, specs) if sp is not None]
    bindings, specs = [b for b, _ in live], [sp for _, sp in live]
    names = [o.name for o in model.graph.output]
    # (the ORDER of inputs / outputs is C03's business; C01 needs the requested names to be there)
    if sorted(names) != sorted(R.outputs):
        out["fail"] = ("wrong-outputs", f"model outputs {names}, requested {list(R.outputs)}")
        return out
    in_names = [i.name for i in model.graph.input]
    if sorted(in_names) != sorted(R.inputs):
        out["fail"] = ("wrong-inputs", f"model inputs {in_names}, requested {list(R.inputs)}")
        return out
    pos = [int(nm[3:]) for nm in names]  # model output t is requested output pos[t]
    st, sess = L.ort_session(model)
    if st != "ok":
        # primary runtime refuses the model: a failure unless the second runtime runs it correctly
        ok_ref = True
        for b, (want, ws) in zip(bindings, specs):
            s2, got = L.run_reference(model, {f"in{k}": v for k, v in b.items()})
            if s2 != "ok" or any(differs(prog, g, want[oi]) for g, oi in zip(got, pos)):
                ok_ref = False
        if ok_ref:
            out["notes"].append("runtime-unsupported: " + sess[:120])
        else:
            out["fail"] = ("runtime-rejects-model", f"onnxruntime: {sess[:200]}")
        return out
    for bi, (b, (want, ws)) in enumerate(zip(bindings, specs)):
        if ws["wild"]:
            out["wild"] += 1
            continue
        feeds = {f"in{k}": v for k, v in b.items()}
        s2, got = L.ort_run(sess, feeds)
        if s2 != "ok":
            # the primary runtime throws on a model it loaded: a failure unless the second runtime runs
            # the model and gets the dataflow's values (then the defect is the runtime's, e.g. its
            # mandatory duplicate-Cast removal losing implicit inputs of bodies)
            s3, got2 = L.run_reference(model, feeds)
            if s3 == "ok" and not any(differs(prog, g, want[oi]) for g, oi in zip(got2, pos)):
                out["notes"].append("runtime-unsupported: " + got[:100])
                continue
            if dims != "concrete" and "Subgraph must have the shape set for all outputs" in got:
                # onnxruntime's Scan wants a rank for every body output; with inputs declared by name / None ONNX
                # inference legitimately loses the rank of an inner Loop's outputs (never with concrete declarations,
                # where this message stays a failure)
                out["notes"].append("runtime-unsupported: Scan body output without a rank (non-concrete declarations)")
                continue
            out["fail"] = ("runtime-fails", f"onnxruntime run: {got[:200]}")
            return out
        for g, oi in zip(got, pos):
            d = differs(prog, g, want[oi])
            if d:
                out["fail"] = ("wrong-value", f"output out{oi} on binding {bi}: onnxruntime vs dataflow: {d[:200]}")
                return out
        out["compared"] += 1
        if use_reference:
            s3, got2 = L.run_reference(model, feeds)
            if s3 == "ok":
                for g, oi in zip(got2, pos):
                    if differs(prog, g, want[oi]):
                        out["notes"].append("onnx.reference differs (secondary runtime only)")
            else:
                out["notes"].append("onnx.reference could not run the model: " + got2[:80])
    return out


def run_history(prog, style: str, rseed: int, bindings, n_builds: int = 3, collect=None):
    """Several builds over the SAME Python objects: the program is written once, then `spox.build` is
    called repeatedly with other requests — more outputs placed first (shifts the per-operator name
    counters), a subset, other closed values only; input names permuted among same-typed arguments or
    renamed, dicts in another order — and every returned model is run and compared with the dataflow
    of exactly what that build requested.  Returns (key, what) of the first failure or None."""
    import warnings

    import spox

    hr = random.Random(rseed ^ 0x5EED5)
    try:
        with warnings.catch_warnings():
            warnings.simplefilter("ignore")
            R = L.realise(prog, random.Random(rseed), style, twins=bool(prog.get("special")))
    except L.HarnessError:
        return None
    except Exception as e:  # noqa: BLE001
        return (classify_raise(prog, "construct", e), f"constructor raised {type(e).__name__}: {str(e)[:160]}")
    dep = L.formal_deps(prog)
    margs = L.main_args(prog)
    closed = sorted(r for r in R.vars if not dep[r[0]] and not prog["nodes"][r[0]]["ty"][r[1]][2]
                    and L.concrete(prog["nodes"][r[0]]["ty"][r[1]]) and prog["nodes"][r[0]]["op"] != "arg")
    requested = [tuple(r) for r in prog["outputs"]]
    for step in range(n_builds):
        kind = "same" if step == 0 else hr.choice(["superset", "superset", "subset", "other", "same"])
        extras = hr.sample(closed, min(len(closed), hr.randint(1, 3))) if closed else []
        if kind == "same" or not extras:
            refs = list(requested)
        elif kind == "superset":
            refs = extras + list(requested)
        elif kind == "subset":
            refs = [hr.choice(requested)]
        else:
            refs = extras
        out_names = [f"r{j}" if hr.random() < 0.5 else f"out{j}" for j in range(len(refs))]
        if step and hr.random() < 0.5:
            order = list(range(len(refs)))
            hr.shuffle(order)
            refs, out_names = [refs[j] for j in order], [out_names[j] for j in order]
        # input names: identity / permuted among arguments of the same type / renamed
        name_of = {a: f"in{a}" for a in margs}
        scheme = "identity" if step == 0 else hr.choice(["permute", "permute", "rename", "identity"])
        if scheme == "rename":
            name_of = {a: f"p{len(margs) - j}" for j, a in enumerate(margs)}
        elif scheme == "permute":
            groups: dict = {}
            for a in margs:
                groups.setdefault(json.dumps(prog["nodes"][a]["ty"][0]), []).append(a)
            for g in groups.values():
                sh = list(g)
                hr.shuffle(sh)
                for a, b_ in zip(g, sh):
                    name_of[a] = f"in{b_}"
        ikeys = list(margs)
        hr.shuffle(ikeys)
        inputs = {name_of[a]: R.vars[(a, 0)] for a in ikeys}
        outputs = {nm: R.vars[r] for nm, r in zip(out_names, refs)}
        tag = f"build #{step} of a history over the same objects ({kind}, inputs {scheme})"
        j_stage("build")
        try:
            with warnings.catch_warnings():
                warnings.simplefilter("ignore")
                model = spox.build(inputs, outputs)
        except Exception as e:  # noqa: BLE001
            return (classify_raise(prog, "build", e), f"{tag}: spox.build raised {type(e).__name__}: {str(e)[:160]}")
        sub = dict(prog, outputs=[list(r) for r in refs])
        j_stage("runtime")
        names = [o.name for o in model.graph.output]
        if sorted(names) != sorted(out_names):
            return ("wrong-outputs", f"{tag}: model outputs {names}, requested {out_names}")
        st, sess = L.ort_session(model)
        for bi, b in enumerate(bindings):
            try:
                want, ws = L.eval_numpy(sub, b)
            except L.PartialOp:
                continue
            if ws["wild"]:
                continue
            feeds = {name_of[a]: v for a, v in b.items()}
            if st == "ok":
                s2, got = L.ort_run(sess, feeds)
            else:
                s2, got = "load-err", sess
            if s2 != "ok":
                s3, got2 = L.run_reference(model, feeds)
                if s3 == "ok" and not any(differs(prog, g, want[out_names.index(nm)]) for g, nm in zip(got2, names)):
                    continue
                return ("runtime-fails", f"{tag}: onnxruntime: {str(got)[:160]}")
            for g, nm in zip(got, names):
                d = differs(prog, g, want[out_names.index(nm)])
                if d:
                    return ("wrong-value", f"{tag}: output {nm} on binding {bi}: onnxruntime vs dataflow: {d[:160]}")
        if collect is not None:
            # round 10: the emission of THIS build (other request over the same objects), read from its ModelProto
            # after renaming the caller's names back to in<id> / out<position in this request>
            import time as _tm

            _t1 = _tm.time()
            try:
                from harness import lib_request as LR

                ren = {name_of[a]: f"in{a}" for a in margs}
                ren.update({nm: f"out{j}" for j, nm in enumerate(out_names)})
                m2 = LR.rename_model(model, ren)
                em_h, pr_h = L.extract_emission(sub, m2)
                collect.append({"step": step, "kind": kind, "scheme": scheme, "sub": sub, "em": em_h, "problems": pr_h,
                                "args": [int(i.name[2:]) for i in m2.graph.input],
                                "res": [sub["outputs"][int(o.name[3:])] for o in m2.graph.output]})
            except Exception as e:  # noqa: BLE001
                collect.append({"step": step, "kind": kind, "scheme": scheme, "sub": sub, "em": None,
                                "problems": [f"{type(e).__name__}: {e}"]})
            collect[-1]["ms"] = (_tm.time() - _t1) * 1000
    return None


# ------------------------------------------------ round 6: the other routes / options of a build
def judge_model(prog, model, out_names, name_of, expected_inputs, check_order, bindings, specs, tag, extra_feeds=None,
                concrete_dims=True):
    """Model-free verdict on ONE returned model: requested outputs there, exactly the expected inputs
    (optionally in caller order), accepted by onnx.checker, loads and runs under onnxruntime on feeds
    for exactly the inputs it lists, every requested output = dataflow value.  `out_names[j]` names
    requested output j of `prog`; `name_of[a]` is the model-input name of main argument a.
    Returns (key, what) | None."""
    import onnx

    names = [o.name for o in model.graph.output]
    if sorted(names) != sorted(out_names):
        return ("wrong-outputs", f"{tag}: model outputs {names}, requested {list(out_names)}")
    in_names = [i.name for i in model.graph.input]
    if sorted(in_names) != sorted(expected_inputs):
        missing = [nm for nm in expected_inputs if nm not in in_names]
        surplus = [nm for nm in in_names if nm not in expected_inputs]
        return ("wrong-inputs", f"{tag}: model inputs {in_names}; missing {missing}, not expected {surplus}")
    if check_order and in_names != list(expected_inputs):
        return ("wrong-inputs", f"{tag}: model inputs {in_names} are not in the caller's order {list(expected_inputs)}")
    j_stage("checker")
    try:
        onnx.checker.check_model(model)
    except Exception as e:  # noqa: BLE001
        return ("checker-rejects-model", f"{tag}: onnx.checker: {str(e)[:200]}")
    j_stage("runtime")
    st, sess = L.ort_session(model)
    for bi, (b, sp) in enumerate(zip(bindings, specs)):
        if sp is None:
            continue
        want, ws = sp
        if ws["wild"]:
            continue
        feeds = {name_of[a]: v for a, v in b.items() if name_of.get(a) in in_names}
        for nm, v in (extra_feeds or {}).items():
            if nm in in_names:
                feeds[nm] = v
        if st == "ok":
            s2, got = L.ort_run(sess, feeds)
        else:
            s2, got = "load-err", sess
        if s2 != "ok":
            s3, got2 = L.run_reference(model, feeds)
            if s3 == "ok" and not any(differs(prog, g, want[out_names.index(nm)]) for g, nm in zip(got2, names)):
                continue
            if not concrete_dims and "Subgraph must have the shape set for all outputs" in str(got):
                continue  # (see run_case: onnxruntime's Scan and ranks lost under non-concrete declarations)
            return ("runtime-rejects-model" if st != "ok" else "runtime-fails", f"{tag}: onnxruntime: {str(got)[:200]}")
        for g, nm in zip(got, names):
            d = differs(prog, g, want[out_names.index(nm)])
            if d:
                return ("wrong-value", f"{tag}: output {nm} on binding {bi}: onnxruntime vs dataflow: {d[:160]}")
    return None


TO_MODEL_KW = [
    {}, {"infer_shapes": True}, {"check_model": 0}, {"check_model": 2}, {"ir_version": 9}, {"concrete": False},
    {"producer_name": "somebody", "model_doc_string": "a doc string"}, {"infer_shapes": True, "check_model": 2},
]


def make_variants(prog, rng, full: bool) -> list[dict]:
    """Descriptors of the non-default builds tried on one realisation (replayable: only seeds inside)."""
    def v(route, **kw):
        d = {"route": route, "drop": False, "extra": 0, "order": "caller", "seed": rng.getrandbits(30)}
        d.update(kw)
        return d

    orders = ["caller", "reversed", "shuffled"]
    pool = [
        v("build", drop=True, order=rng.choice(orders)),
        v("build", drop=True, extra=rng.randint(1, 3), order=rng.choice(orders)),
        v("build", drop=False, extra=rng.randint(1, 3), order=rng.choice(orders)),
        v("graph", with_arguments=True, extra=rng.choice([0, 0, 2]), order=rng.choice(orders), kw=rng.choice(TO_MODEL_KW),
          name=rng.random() < 0.5, doc=rng.random() < 0.5, opset=rng.random() < 0.5),
        v("graph", with_arguments=False, kw=rng.choice(TO_MODEL_KW), name=rng.random() < 0.5, doc=rng.random() < 0.5,
          opset=rng.random() < 0.5),
        # the conversion route: the program was written at one version, the Graph asks for a NEWER one
        v("graph", with_arguments=rng.random() < 0.7, kw=rng.choice(TO_MODEL_KW), name=False, doc=False, opset=False, upgrade=True),
    ]
    if full:
        return pool
    return [pool[0], rng.choice(pool[1:] + pool[-1:])]


def run_variant(prog, R, variant, bindings, specs):
    """One further build over the SAME Python objects `R` by another route / with other options.
    Returns {"fail": (key, what) | None, "model", "args": main-argument ids of model.graph.input}."""
    import warnings

    import spox
    from spox import Tensor, argument

    out = {"fail": None, "model": None, "args": None, "caller_args": None, "skipped": None}
    vr = random.Random(variant["seed"])
    # between two builds the caller goes on using its containers: every list it once handed to a constructor is
    # emptied / extended again (the dataflow stays what was constructed)
    for lst in getattr(R, "keep", []):
        if isinstance(lst, list):
            if vr.random() < 0.5:
                lst.clear()
            elif R.vars:
                lst.append(next(iter(R.vars.values())))
    margs = L.main_args(prog)
    used = L.used_args(prog)
    order = list(R.inputs)  # the caller's dict order of the default build: in<id>
    ids = [int(nm[2:]) for nm in order]
    if variant["order"] == "reversed":
        ids.reverse()
    elif variant["order"] == "shuffled":
        vr.shuffle(ids)
    # arguments that belong to no requested computation: fresh, partly read by unrequested operators
    entries: list[tuple] = [("in%d" % a, R.vars[(a, 0)], a) for a in ids]
    extra_feeds = {}
    import importlib
    opmod = importlib.import_module(f"spox.opset.ai.onnx.v{prog.get('opset', 17)}")
    for j in range(variant.get("extra", 0)):
        kind = vr.choice([("i64", np.int64), ("f32", np.float32), ("bool", np.bool_)])
        shape = vr.choice([(), (N_,), (2, N_)])
        ev = argument(Tensor(kind[1], shape))
        if vr.random() < 0.5 and kind[0] != "bool":
            opmod.add(ev, ev)  # constructed, never requested
        nm = f"extra{j}"
        entries.insert(vr.randint(0, len(entries)), (nm, ev, None))
        extra_feeds[nm] = np.zeros(shape, dtype=kind[1])
    tag = "variant " + json.dumps({k: variant[k] for k in variant if k != "seed"}, sort_keys=True)
    j_stage("build")
    out_names = list(R.outputs)
    # requested output j of prog is named out<j>
    by_pos = [f"out{j}" for j in range(len(prog["outputs"]))]
    try:
        with warnings.catch_warnings():
            warnings.simplefilter("ignore")
            if variant["route"] == "build":
                inputs = {nm: var for nm, var, _ in entries}
                if variant["drop"]:
                    try:
                        import inspect

                        if "drop_unused_inputs" not in inspect.signature(spox.build).parameters:
                            out["skipped"] = "spox.build has no drop_unused_inputs option"
                            return out
                    except (TypeError, ValueError):
                        pass
                    model = spox.build(inputs, dict(R.outputs), drop_unused_inputs=True)
                else:
                    model = spox.build(inputs, dict(R.outputs))
                name_of = {a: f"in{a}" for a in margs}
                if variant["drop"]:
                    expected = [nm for nm, _, a in entries if a is not None and a in used]
                else:
                    expected = [nm for nm, _, _ in entries]
                check_order = True
            else:
                try:
                    from spox._graph import results
                except Exception as e:  # noqa: BLE001 - route not available in this tree: nothing to judge
                    out["skipped"] = f"spox._graph.results: {type(e).__name__}"
                    return out
                try:  # the route's own vocabulary (a renamed setter is a refactoring, not a verdict)
                    g = results(**dict(R.outputs))
                    if variant.get("with_arguments"):
                        g = g.with_arguments(*[var for _, var, _ in entries])
                    if variant.get("name"):
                        g = g.with_name("my_graph")
                    if variant.get("doc"):
                        g = g.with_doc("what the graph does")
                    if variant.get("opset"):
                        g = g.with_opset(("ai.onnx", prog.get("opset", 17)))
                    if variant.get("upgrade") and prog.get("opset", 17) < 21 and not any(n_["op"] in ML_SENSITIVE for n_ in prog["nodes"]):
                        g = g.with_opset(("ai.onnx", variant.get("target") or vr.randint(prog.get("opset", 17) + 1, 21)))
                    to_model = g.to_onnx_model
                    get_arguments = g.get_arguments
                except (AttributeError, TypeError, ImportError) as e:
                    out["skipped"] = f"graph route: {type(e).__name__}: {str(e)[:80]}"
                    return out
                kw = dict(variant.get("kw", {}))
                try:  # options this tree does not have are not passed (their absence is not a verdict)
                    import inspect

                    params = inspect.signature(to_model).parameters
                    if not any(p_.kind == p_.VAR_KEYWORD for p_ in params.values()):
                        kw = {k: v_ for k, v_ in kw.items() if k in params}
                except (TypeError, ValueError):
                    pass
                model = to_model(**kw)
                # input names are generated here: ask the public accessor which argument got which name
                try:
                    named = get_arguments()
                except Exception as e:  # noqa: BLE001
                    out["skipped"] = f"Graph.get_arguments: {type(e).__name__}: {str(e)[:80]}"
                    return out
                name_of, extra_named = {}, {}
                for nm, var in named.items():
                    hit = [a for a in margs if R.vars[(a, 0)] is var]
                    if hit:
                        name_of[hit[0]] = nm
                    else:
                        for enm, evar, a in entries:
                            if a is None and evar is var:
                                extra_named[nm] = extra_feeds[enm]
                extra_feeds = extra_named
                inv = {id(var): nm for nm, var in named.items()}
                if variant.get("with_arguments"):
                    expected = [inv.get(id(var), f"<unnamed {nm}>") for nm, var, _ in entries]
                    check_order = True
                else:
                    expected = [name_of.get(a, f"<unnamed in{a}>") for a in used]
                    check_order = False
    except Exception as e:  # noqa: BLE001
        out["fail"] = (classify_raise(prog, "build", e), f"{tag}: raised {type(e).__name__}: {str(e)[:200]}")
        return out
    out["model"] = model
    rev = {nm: a for a, nm in name_of.items()}
    out["args"] = [rev.get(i.name) for i in model.graph.input]
    out["caller_args"] = [a for _, _, a in entries if a is not None]
    out["fail"] = judge_model(prog, model, by_pos, name_of, expected, check_order, bindings, specs, tag, extra_feeds,
                              concrete_dims=getattr(R, "dims", "concrete") == "concrete")
    return out


N_ = L.N


def non_argument_probe(prog, R):
    """`inputs` holding a Var that is NOT an argument (here: a requested output) must be refused with the documented
    TypeError — and the refusal must leave nothing behind: the same objects still build, under the caller's names,
    right afterwards.  Returns (key, what) | None."""
    import warnings

    import spox

    bad = next((v for k, v in R.vars.items() if prog["nodes"][k[0]]["op"] != "arg"), None)
    if bad is None:
        return None
    inputs = dict(R.inputs)
    inputs["not_an_argument"] = bad
    try:
        with warnings.catch_warnings():
            warnings.simplefilter("ignore")
            spox.build(inputs, dict(R.outputs))
        return ("non-argument-input:accepted", "spox.build accepted an `inputs` entry that is the result of an operator (documented: TypeError)")
    except TypeError:
        pass
    except Exception as e:  # noqa: BLE001
        return (f"non-argument-input:raises:{type(e).__name__}", f"`inputs` entry that is not an argument: {type(e).__name__} instead of the documented TypeError: {str(e)[:120]}")
    try:
        with warnings.catch_warnings():
            warnings.simplefilter("ignore")
            m = spox.build(dict(R.inputs), dict(R.outputs))
    except Exception as e:  # noqa: BLE001
        return (f"build-raises:{type(e).__name__}", f"the build right after a refused request (non-argument input) raised {type(e).__name__}: {str(e)[:160]}")
    if [i.name for i in m.graph.input] != list(R.inputs) or sorted(o.name for o in m.graph.output) != sorted(R.outputs):
        return ("wrong-inputs", f"after a refused request the same objects build with inputs {[i.name for i in m.graph.input]} instead of {list(R.inputs)}")
    return None
ML_SENSITIVE: tuple = ()  # operators whose upgrade the version converter does not support (none met so far)


def run_variant_case(prog, style, rseed, variant, bindings, dims="concrete"):
    """Fresh realisation, the default build first (as in the run), then the variant build.
    Returns (key, what) | None."""
    import warnings

    try:
        with warnings.catch_warnings():
            warnings.simplefilter("ignore")
            R = L.realise(prog, random.Random(rseed), style, twins=bool(prog.get("special")), dims=dims)
    except L.HarnessError:
        return None
    except Exception as e:  # noqa: BLE001
        return (classify_raise(prog, "construct", e), f"constructor raised {type(e).__name__}: {str(e)[:160]}")
    try:
        L.build_model(R)
    except Exception:  # noqa: BLE001 - the default build is judged by run_case
        pass
    specs = []
    for b in bindings:
        try:
            specs.append(L.eval_numpy(prog, b))
        except L.PartialOp:
            specs.append(None)
    return run_variant(prog, R, variant, bindings, specs)["fail"]


def case_doc(prog, style, rseed, bindings, dims="concrete"):
    doc = {"prog": prog, "style": style, "rseed": rseed, "bindings": [L.binding_to_json(b) for b in bindings]}
    if dims != "concrete":
        doc["dims"] = dims
    return doc


def shrink_failure(prog, style, rseed, bindings, key, budget, dims="concrete"):
    def still(p, bs):
        try:
            if L.check_wellformed(p) or L.typecheck(p):
                return False
            r = run_case(p, style, rseed, bs, dims=dims)
        except Exception:  # noqa: BLE001
            return False
        return r["fail"] is not None and r["fail"][0] == key

    try:
        return L.shrink(prog, bindings, still, budget)
    except Exception:  # noqa: BLE001
        return prog, bindings


def struct_key(prog) -> str:
    sig = [[n["op"], n["ins"], [[s["args"], s["res"]] for s in n["subs"]]] for n in prog["nodes"]]
    return hashlib.sha1(json.dumps([sig, prog["outputs"]]).encode()).hexdigest()[:16]


LOOP_SCALAR_COND = {
    # r = Loop(M = 2, cond = c (rank 0), [x]; body (i, cnd, acc) -> (cnd, acc + acc))
    "nodes": [
        {"op": "arg", "ins": [], "subs": [], "attrs": {"role": "main"}, "ty": [["i64", [3], False]]},
        {"op": "arg", "ins": [], "subs": [], "attrs": {"role": "main"}, "ty": [["bool", [], False]]},
        {"op": "Constant", "ins": [], "subs": [], "attrs": {"value": [2], "scalar": True, "uid": 1}, "ty": [["i64", [], False]]},
        {"op": "arg", "ins": [], "subs": [], "attrs": {"role": "formal"}, "ty": [["i64", [], True]]},
        {"op": "arg", "ins": [], "subs": [], "attrs": {"role": "formal"}, "ty": [["bool", [], True]]},
        {"op": "arg", "ins": [], "subs": [], "attrs": {"role": "formal"}, "ty": [["i64", [3], False]]},
        {"op": "Add", "ins": [[5, 0], [5, 0]], "subs": [], "attrs": {}, "ty": [["i64", [3], False]]},
        {"op": "Loop", "ins": [[2, 0], [1, 0], [0, 0]], "subs": [{"args": [3, 4, 5], "res": [[4, 0], [6, 0]]}], "attrs": {}, "ty": [["i64", [3], False]]},
    ],
    "outputs": [[7, 0]],
    "opset": 17,
}


SPLIT18 = {
    # y = Split(x, sizes = [1, 2])[1] at opset 18
    "nodes": [
        {"op": "arg", "ins": [], "subs": [], "attrs": {"role": "main"}, "ty": [["i64", [3], False]]},
        {"op": "Constant", "ins": [], "subs": [], "attrs": {"value": [1, 2], "uid": 1}, "ty": [["i64", [2], False]]},
        {"op": "Split", "ins": [[0, 0], [1, 0]], "subs": [], "attrs": {"axis": 0, "outputs": 2},
         "ty": [["i64", [1], False], ["i64", [2], False]]},
    ],
    "outputs": [[2, 1]],
    "opset": 18,
}


# ------------------------------------------------------------------------------------- the check
EXERCISED_SETTERS = ["with_arguments", "with_doc", "with_name", "with_opset"]  # = Props/C01.lean exercisedSetters


# ------------------------------------------------------------------ crash isolation (round 9)
_J = {"fd": None, "case": None}
ABORT_KEY = {"construct": "construct-aborted", "build": "build-aborted", "checker": "checker-aborted",
             "runtime": "runtime-aborted", "extract": "checker-aborted"}
CARRY = ["obligations", "broken_items", "failures", "known_hits", "cov", "samples", "assumptions", "trusted_base",
         "notes", "evaluations", "_distinct", "rule", "checker_cmds", "exhaustive"]


def j_case(doc):
    """Journal: the case about to be processed (read by the supervising parent if this process dies)."""
    if _J["case"] is not None:
        try:
            with open(_J["case"], "w") as f:
                json.dump(doc, f)
        except Exception:  # noqa: BLE001
            pass


_SELFTEST = [0]


def j_stage(stage: str):
    if _J["fd"] is not None and os.environ.get("C01_SELFTEST_SEGV") == stage:  # self-test of the isolation only
        _SELFTEST[0] += 1
        if _SELFTEST[0] == 40:
            import signal

            os.pwrite(_J["fd"], stage.ljust(16).encode(), 0)
            os.kill(os.getpid(), signal.SIGSEGV)
    if _J["fd"] is not None:
        try:
            os.pwrite(_J["fd"], stage.ljust(16).encode(), 0)
        except OSError:
            pass


def _in_child(fn, base: str):
    """Run `fn()` in a forked child with a journal; returns ("ok", pickled result path) | ("died", signal/exit, stage, case)."""
    import pickle
    import sys

    case_path, stage_path, out_path = base + ".case.json", base + ".stage", base + ".out.pkl"
    for p_ in (case_path, out_path):
        try:
            os.remove(p_)
        except OSError:
            pass
    with open(stage_path, "wb") as f:
        f.write(b" " * 16)
    sys.stdout.flush()
    sys.stderr.flush()
    pid = os.fork()
    if pid == 0:
        code = 0
        try:
            _J["case"] = case_path
            _J["fd"] = os.open(stage_path, os.O_WRONLY)
            res = fn()
            with open(out_path + ".tmp", "wb") as f:
                pickle.dump(res, f)
            os.replace(out_path + ".tmp", out_path)
        except BaseException:  # noqa: BLE001
            import traceback

            traceback.print_exc()
            code = 3
        finally:
            sys.stdout.flush()
            sys.stderr.flush()
            os._exit(code)
    _, status = os.waitpid(pid, 0)
    if os.WIFEXITED(status) and os.WEXITSTATUS(status) == 0 and os.path.exists(out_path):
        with open(out_path, "rb") as f:
            return ("ok", pickle.load(f))
    try:
        stage = open(stage_path, "rb").read().decode().strip() or "?"
    except OSError:
        stage = "?"
    try:
        case = json.load(open(case_path))
    except Exception:  # noqa: BLE001
        case = None
    how = f"signal {os.WTERMSIG(status)}" if os.WIFSIGNALED(status) else f"exit code {os.WEXITSTATUS(status)}"
    return ("died", how, stage, case)


def supervised(ck: core.Check, search):
    """Run `search(ck)` in a forked child and carry its verdicts over; if the child dies of a native crash (SIGSEGV /
    abort inside onnx, protobuf, numpy or spox.build's own checker call), the journalled case becomes a concrete
    failure `<stage>-aborted` of the property (the program is well-typed and must build and run)."""
    if os.environ.get("C01_NO_FORK") == "1" or not hasattr(os, "fork"):
        return search(ck)

    def body():
        search(ck)
        try:
            if ck._driver is not None:
                ck._driver = None
        except Exception:  # noqa: BLE001
            pass
        return {k: getattr(ck, k) for k in CARRY}

    r = _in_child(body, str(core.WORK / f"c01-{os.getpid()}"))
    if r[0] == "ok":
        for k, v in r[1].items():
            setattr(ck, k, v)
        return
    _, how, stage, case = r
    if how == "exit code 3":
        raise RuntimeError("C01 search failed inside the supervised child (Python exception, see the traceback above)")
    key = ABORT_KEY.get(stage, "build-aborted")
    if case is None:
        ck.broken("correspondence", "C01 search process died before any case was journalled", f"{how} at stage {stage!r}")
        return
    ck.failure(key, f"the process judging this case died ({how}) during stage `{stage}` — a native crash on a well-typed "
                    f"program / on the model spox.build returned; the search stopped here", case)


def run(ck: core.Check):
    entry = None
    try:  # tie G: the inventory of build routes / options (an unreadable source degrades inside)
        from translator import c01_entry

        entry = c01_entry.generate()
    except Exception as e:  # noqa: BLE001
        ck.broken("generated", "C01 entry-option inventory (translator/c01_entry.py)", f"{type(e).__name__}: {e}")
    try:  # tie G: every public constructor parameter that takes a sequence of Vars
        from translator import c01_variadic

        ck.cov["sequence_parameters_inventory"] = c01_variadic.generate()
    except Exception as e:  # noqa: BLE001
        ck.broken("generated", "C01 sequence-parameter inventory (translator/c01_variadic.py)", f"{type(e).__name__}: {e}")
    ck.lean(["SpoxModel.Props.C01", "SpoxModel.Props.C01Build"], audit="SpoxModel.Audit.C01")
    if entry is not None:
        # the Lean lists say what the harness varies: keep them honest against the harness's own tables
        varied = sorted({k for kw in TO_MODEL_KW for k in kw})
        try:
            lean_src = (core.LEAN / "SpoxModel" / "Props" / "C01.lean").read_text()
            import re as _re

            def lean_list(name):
                m = _re.search(r"def " + name + r" : List String :=\s*\[([^\]]*)\]", lean_src)
                return sorted(_re.findall(r'"([^"]*)"', m.group(1))) if m else None

            if lean_list("exercisedToModelOptions") != varied:
                ck.broken("generated", "C01 exercisedToModelOptions differs from the harness's TO_MODEL_KW",
                          f"{lean_list('exercisedToModelOptions')} vs {varied}")
            if lean_list("exercisedSetters") != sorted(EXERCISED_SETTERS):
                ck.broken("generated", "C01 exercisedSetters differs from the harness's graph route", str(lean_list("exercisedSetters")))
        except Exception as e:  # noqa: BLE001
            ck.broken("generated", "C01 could not compare the exercised-option lists", f"{type(e).__name__}: {e}")
        ck.cov["entry_options_inventory"] = {k: [list(x) if isinstance(x, tuple) else x for x in v] for k, v in entry.items()}
    if ck.thorough:
        ck.leanchecker(["SpoxModel.Props.C01", "SpoxModel.Props.C01Build"])
    # everything that touches the code under test (constructors, spox.build, onnx.checker, onnx.reference, …) runs
    # in a forked child: a native crash there is a per-case result, never the end of the check
    supervised(ck, _search)


def _search(ck: core.Check):
    rng = ck.rng
    n_random = ck.pick(360, 5000)
    n_styles = ck.pick(3, 4)
    n_bind = 3
    skel_uses = ck.pick(3, 6)
    skel_styles = ck.pick(["lazy", "eager", "mixed"], L.STYLES)

    programs: list[tuple[dict, str]] = []
    for prog, tag in L.skeleton_programs(skel_uses):
        programs.append((prog, "skeleton:" + tag))
    for prog, tag in L.skeleton2_programs(ck.pick(2, 4)):
        programs.append((prog, "skeleton2:" + tag))
    for prog, tag in L.skeleton3_programs(ck.pick(2, 3), ck.pick(1, 2)):
        programs.append((prog, "skeleton3:" + tag))
    sk4 = list(L.skeleton4_programs(pairs=True))
    if not ck.thorough:  # every single placement, a seeded half of the two-placement programs
        single = [pt for pt in sk4 if "+" not in pt[1]]
        double = [pt for pt in sk4 if "+" in pt[1]]
        sk4 = single + rng.sample(double, len(double) // 2)
    for prog, tag in sk4:
        programs.append((prog, "skeleton4:" + tag))
    for prog, tag in L.skeleton5_programs(random.Random(rng.getrandbits(48)), ck.thorough):
        programs.append((prog, "skeleton5:" + tag))
    for prog, tag in L.no_input_programs():  # outputs that read no input at all: the drop build has no inputs
        programs.append((prog, "skeleton5:no-input:" + tag))
    for prog, tag in L.upgrade_programs():  # the conversion route: an operator that changes after 17, inside bodies
        programs.append((prog, "skeleton7:upgrade:" + tag))
    for prog, tag in L.variadic_programs():  # every sequence-taking constructor x operand count x placement
        programs.append((prog, "skeleton6:variadic:" + tag))
    n_skel = len(programs)
    for _ in range(ck.pick(60, 600)):  # scalar-attribute operators with unusual values, twins constructed first
        programs.append((L.gen_attr_program(random.Random(rng.getrandbits(48))), "attr"))
    for prog, tag in L.partial_programs():  # bodies that must not be evaluated for some binding
        programs.append((prog, "partial:" + tag))
    for prog, tag in L.deep_programs(random.Random(rng.getrandbits(48)), ck.pick(1, 3)):
        programs.append((prog, "deep:" + tag))
    for i in range(n_random):
        size = rng.choice([8, 12, 16, 20, 26, 32, 40])
        # one opset per program: 17 / 18 may contain Loop and (17) explicit-size Split; at 19-21 Loop outputs
        # have no known rank (outside the premise), so those programs nest through If and Scan only
        programs.append((L.gen_program(random.Random(rng.getrandbits(48)), size=size, max_depth=rng.choice([2, 3, 3, 4]),
                                       opset=rng.choice([17, 17, 17, 18, 18, 19, 20, 21])), "random"))

    # other element types / zero- and other-length vectors for the type-generic skeleton families
    hist_retype = collections.Counter()
    for i_, (p_, o_) in enumerate(programs):
        if o_.split(":")[0] in ("skeleton", "skeleton2", "skeleton3", "skeleton5") and rng.random() < 0.35:
            dt_, ln_ = rng.choice([("f64", None), ("i32", None), ("f64", 5), (None, 0), ("f64", 0), ("i32", 0), (None, 1), ("i32", 5)])
            # (float16 is left out: onnxruntime computes these operators in float32 and rounds once, numpy rounds
            #  after every operator — values above 2048 differ in the last place; not a property of spox)
            q_ = L.retype(p_, dt_, ln_)
            if q_ is not None:
                programs[i_] = (q_, f"{o_} [retyped {dt_ or 'i64'}, length {N_ if ln_ is None else ln_}]")
                hist_retype[f"{dt_ or 'i64'}/{'N' if ln_ is None else ln_}"] += 1
    hist_opset = collections.Counter(p_["opset"] for p_, _ in programs)
    hist_ops = collections.Counter()
    hist_depth = collections.Counter()
    hist_style = collections.Counter()
    stats = collections.Counter()
    em_depth = collections.Counter()
    lean_reqs: list[dict] = []
    lean_meta: list[tuple] = []
    extraction_broken = 0
    notes = collections.Counter()
    shrink_budget = [ck.pick(3, 6)]  # number of failures that get shrunk

    def queue_lean(prog, R, em, model, arg_ids, meta, also_abstract, caller_args=None):
        """Queue the driver request for one model: the program numbered by the real creation order, the
        emission read from `model`, whose inputs are the main arguments `arg_ids` (model order)."""
        vals = [[rng.randrange(P) for _ in range(len(arg_ids))] for _ in range(2)]
        sd = rng.randrange(1, 1000)
        # the program as it was really created: nodes numbered by actual Python creation order
        # (so wfCheck judges "creation order is a topological numbering" on the real run)
        prog_c, idmap = L.renumber(prog, R.created)
        em_c = L.rename_emission(em, idmap)
        # requested outputs / inputs in the model's order, taken from the PROGRAM (validG compares
        # them with what the emission returns / binds)
        want_res = [prog["outputs"][int(o.name[3:])] for o in model.graph.output]
        lean_reqs.append(L.lean_request(prog_c, em_c, vals, sd, [idmap[a] for a in arg_ids],
                                        [[idmap[r[0]], r[1]] for r in want_res]))
        lean_meta.append(meta + ("creation-order",))
        # the model's `usedArgs` of the caller's full input list (Lean) vs the harness's own reachability
        full = list(arg_ids) if caller_args is None else list(caller_args)
        used = set(L.used_args(prog))
        lean_reqs[-1]["allArgs"] = [idmap[a] for a in full]
        lean_used.append(([idmap[a] for a in full if a in used], caller_args is not None))
        if also_abstract:  # and in the abstract numbering: same values (renaming theorem)
            try:  # round 10: the executable hypotheses of needed_part_decides_values_checked, abstract -> as created
                from harness import lib_request as LR

                embed_reqs.append(LR.embed_request(prog, prog_c, idmap, want_res, arg_ids))
                embed_meta.append(meta + (len(prog["nodes"]) - len(prog_c["nodes"]),))
            except Exception as e:  # noqa: BLE001
                ck.broken("correspondence", "C01 embed request", f"{type(e).__name__}: {e}")
            lean_reqs.append(L.lean_request(prog, em, vals, sd, arg_ids, want_res))
            lean_meta.append(meta + ("abstract-order",))
            lean_reqs[-1]["allArgs"] = full
            lean_used.append(([a for a in full if a in used], caller_args is not None))

    hist_ids = [0]
    embed_reqs: list = []
    embed_meta: list = []

    def queue_history(prog, hcol, meta):
        """Round 10 (tie of `other_request_same_values` / `more_outputs_irrelevant`): every build of a history is
        another request over the same program; its emission goes through wfCheck / validG / evalG-vs-denoteG against
        ITS request, and — all builds of one history being fed the same (input, value) pairs, each in its own input
        order — an output two builds share must get the same value from both emissions."""
        hist_ids[0] += 1
        sd = rng.randrange(1, 1000)
        value_of = [{a: rng.randrange(P) for a in L.main_args(prog)} for _ in range(2)]
        for h in hcol:
            stats["history_builds"] += 1
            hist_kinds[f"{h['kind']}/{h['scheme']}"] += 1
            if h["em"] is None or h["problems"]:
                nonlocal_broken[0] += 1
                if nonlocal_broken[0] <= 3:
                    ck.broken("correspondence", "C01 emission extraction (history build)",
                              f"{meta[3]} style={meta[1]} rseed={meta[2]} step={h['step']} ({h['kind']}, {h['scheme']}): {h['problems'][:3]}")
                continue
            sub = h["sub"]
            vals = [[vo[a] for a in h["args"]] for vo in value_of]
            lean_reqs.append(L.lean_request(sub, h["em"], vals, sd, h["args"], h["res"]))
            lean_reqs[-1]["allArgs"] = list(h["args"])
            used = set(L.used_args(sub))
            lean_used.append(([a for a in h["args"] if a in used], False))
            lean_meta.append(meta + ("history", hist_ids[0], h["step"], [tuple(r) for r in h["res"]],
                                     h["args"] != sorted(h["args"])))

    nonlocal_broken = [0]
    hist_kinds = collections.Counter()
    lean_used: list[list[int]] = []
    read_profile = collections.Counter()
    hist_dims = collections.Counter()
    hist_mut = collections.Counter()
    ev_reqs: list = []
    bridge_reqs: list = []
    bridge_meta: list = []

    def problems_of(res_):
        return bool(res_["problems"]) or res_["emission"] is None
    ev_obs: list = []
    variant_hist = collections.Counter()
    for pi, (prog, origin) in enumerate(programs):
        bad = L.check_wellformed(prog) + L.typecheck(prog)
        if bad:
            raise RuntimeError(f"generator produced an ill-formed program: {bad[:2]}")
        bindings = [L.random_binding(prog, rng, bi) for bi in range(n_bind)]
        specs = []
        for b in bindings:
            try:
                specs.append(L.eval_numpy(prog, b))
            except L.PartialOp:  # the dataflow has no value for this binding: nothing to compare
                specs.append(None)
                stats["bindings_without_a_value"] += 1
        d = L.depth_of(prog)
        hist_depth[d] += 1
        for n in prog["nodes"]:
            hist_ops[n["op"]] += 1
        if origin.startswith("deep"):
            styles = ["eager"]  # (the harness itself must not recurse along the chain)
        elif origin == "attr":
            styles = ["lazy", "eager"]
        elif origin.startswith("skeleton5"):
            styles = [rng.choice(L.STYLES)] if not ck.thorough else rng.sample(L.STYLES, 2)
        elif origin.startswith("skeleton4"):
            styles = ["lazy", "eager"] if not ck.thorough else skel_styles
        else:
            styles = skel_styles if origin.startswith("skeleton") else rng.sample(L.STYLES, n_styles)
            if not ck.thorough and (origin.startswith("skeleton2") or origin.startswith("skeleton3")):
                styles = rng.sample(skel_styles, 2)  # (quick budget: two seeded of the three styles)
        skey = struct_key(prog)
        for style in styles:
            rseed = rng.getrandbits(32)
            # how the model inputs are declared: the last of several styles (a third of the single-style
            # skeleton5 programs) declares a seeded part of the dimensions by name / as unknown
            dims = "concrete"
            if not origin.startswith("deep") and not prog.get("special"):
                if (len(styles) > 1 and style == styles[-1]) or (len(styles) == 1 and rng.random() < 0.34):
                    dims = rng.choice(["symbolic", "unknown"])
            hist_dims[dims] += 1
            j_case(case_doc(prog, style, rseed, bindings, dims))
            try:
                res = run_case(prog, style, rseed, bindings, specs, use_reference=(stats["builds"] % 12 == 0), dims=dims)
            except Exception as e:  # noqa: BLE001 - harness trouble on one case never ends the run
                stats["harness_errors"] += 1
                if stats["harness_errors"] <= 3:
                    ck.broken("correspondence", "C01 harness could not process a case",
                              f"{origin} style={style} rseed={rseed}: {type(e).__name__}: {e}")
                continue
            stats["builds"] += 1
            hist_style[style] += 1
            stats["bindings_compared"] += res["compared"]
            stats["bindings_skipped_overflow"] += res["wild"]
            for nt in res["notes"]:
                notes[nt.split(":")[0]] += 1
            nontrivial = d >= 1 or any(len(n["ty"]) > 1 or None in n["ins"] for n in prog["nodes"])
            ck.count((skey, style) if nontrivial else None)
            if not res["fail"] and style == styles[0] and (pi % ck.pick(8, 4) == 0 or origin == "attr") and not origin.startswith("deep"):
                j_case(dict(case_doc(prog, style, rseed, bindings), history=True))
                j_stage("construct")
                try:
                    hcol: list = []
                    hf = run_history(prog, style, rseed, bindings, collect=hcol)
                    if not hf:
                        queue_history(prog, hcol, (pi, style, rseed, origin))
                    stats["round10_history_tie_ms"] += int(sum(h.get("ms", 0) for h in hcol))
                except Exception as e:  # noqa: BLE001
                    hf = None
                    stats["harness_errors"] += 1
                    if stats["harness_errors"] <= 3:
                        ck.broken("correspondence", "C01 harness could not process a history", f"{origin}: {type(e).__name__}: {e}")
                stats["histories"] += 1
                if hf:
                    doc = case_doc(prog, style, rseed, bindings)
                    doc["history"] = True
                    hkey = hf[0]

                    def still_h(p_, bs_):
                        try:
                            if L.check_wellformed(p_) or L.typecheck(p_):
                                return False
                            r_ = run_history(p_, style, rseed, bs_)
                        except Exception:  # noqa: BLE001
                            return False
                        return r_ is not None and r_[0] == hkey

                    if shrink_budget[0] > 0 and not any(f["key"] == hf[0] for f in ck.failures):
                        shrink_budget[0] -= 1
                        try:
                            p2, b2 = L.shrink(prog, bindings, still_h, ck.pick(40, 150))
                            r2 = run_history(p2, style, rseed, b2)
                            if r2 and r2[0] == hf[0]:
                                doc = case_doc(p2, style, rseed, b2)
                                doc["history"] = True
                                hf = r2
                        except Exception:  # noqa: BLE001
                            pass
                    ck.failure(hf[0], f"{hf[1]} [{origin}, style {style}]", doc)
                    stats["oracle_failures"] += 1
            if res["fail"]:
                key, what = res["fail"]
                p2, b2 = prog, bindings
                if shrink_budget[0] > 0 and not any(f["key"] == key for f in ck.failures):
                    shrink_budget[0] -= 1
                    p2, b2 = shrink_failure(prog, style, rseed, bindings, key, ck.pick(60, 200), dims)
                    r2 = run_case(p2, style, rseed, b2, dims=dims)
                    if r2["fail"] and r2["fail"][0] == key:
                        what = r2["fail"][1]
                    else:
                        p2, b2 = prog, bindings
                ck.failure(key, f"{what} [{origin}, style {style}, inputs declared {dims}, {len(p2['nodes'])} nodes]", case_doc(p2, style, rseed, b2, dims))
                stats["oracle_failures"] += 1
            R = res["realised"]
            drop_models: list = []
            if (R is not None and res["model"] is not None and not res["fail"] and style == styles[0]
                    and not origin.startswith("deep")):
                # where this program's model inputs are read (from the ModelProto of the default build)
                try:
                    for nm_, ds_ in L.input_read_depths(res["model"]).items():
                        read_profile["unused" if not ds_ else ("depth " + ",".join("3+" if d_ >= 3 else str(d_) for d_ in sorted({min(d_, 3) for d_ in ds_})))] += 1
                except Exception:  # noqa: BLE001
                    pass
                is5 = origin.startswith("skeleton5")
                variants = make_variants(prog, rng, full=is5)
                if origin.startswith("skeleton7"):  # every newer version, with and without with_arguments
                    variants = [dict(make_variants(prog, rng, True)[-1], target=t_, with_arguments=bool(t_ % 2)) for t_ in (18, 19, 20, 21)]
                elif is5:
                    variants = [variants[0]] + rng.sample(variants[1:], ck.pick(1, 2))
                elif pi % 4:
                    variants = variants[:1]
                    if not ck.thorough and pi % 2 and origin.split(":")[0] in ("skeleton", "skeleton2", "skeleton3", "skeleton4"):
                        variants = []  # (quick budget: these families read every input at depth <= 1; every 2nd program)
                if pi % 8 == 0:
                    j_case(dict(case_doc(prog, style, rseed, bindings, dims), non_argument_probe=True))
                    j_stage("build")
                    try:
                        nf = non_argument_probe(prog, R)
                        stats["non_argument_input_probes"] += 1
                    except Exception as e:  # noqa: BLE001
                        nf = None
                        ck.broken("correspondence", "C01 non-argument-input probe", f"{origin}: {type(e).__name__}: {e}")
                    if nf:
                        doc = case_doc(prog, style, rseed, bindings, dims)
                        doc["non_argument_probe"] = True
                        ck.failure(nf[0], f"{nf[1]} [{origin}, style {style}]", doc)
                        stats["oracle_failures"] += 1
                for variant in variants:
                    j_case(dict(case_doc(prog, style, rseed, bindings, dims), variant=variant))
                    try:
                        vres = run_variant(prog, R, variant, bindings, specs)
                    except Exception as e:  # noqa: BLE001
                        stats["harness_errors"] += 1
                        if stats["harness_errors"] <= 3:
                            ck.broken("correspondence", "C01 harness could not process a build variant",
                                      f"{origin} {variant}: {type(e).__name__}: {e}")
                        continue
                    if vres["skipped"]:
                        notes["variant-route-unavailable"] += 1
                        continue
                    stats["variant_builds"] += 1
                    variant_hist[variant["route"] + ("/drop" if variant["drop"] else "") + ("/extra-args" if variant["extra"] else "") + ("/newer-opset" if variant.get("upgrade") else "")
                                 + ("/with_arguments" if variant.get("with_arguments") else "")] += 1
                    if vres["fail"]:
                        vkey, vwhat = vres["fail"]
                        doc = case_doc(prog, style, rseed, bindings, dims)
                        doc["variant"] = variant
                        if shrink_budget[0] > 0 and not any(f["key"] == vkey for f in ck.failures):
                            shrink_budget[0] -= 1

                            def still_v(p_, bs_, variant=variant, vkey=vkey, dims=dims):
                                try:
                                    if L.check_wellformed(p_) or L.typecheck(p_):
                                        return False
                                    r_ = run_variant_case(p_, style, rseed, variant, bs_, dims)
                                except Exception:  # noqa: BLE001
                                    return False
                                return r_ is not None and r_[0] == vkey

                            try:
                                p2, b2 = L.shrink(prog, bindings, still_v, ck.pick(40, 150))
                                r2 = run_variant_case(p2, style, rseed, variant, b2, dims)
                                if r2 and r2[0] == vkey:
                                    doc = case_doc(p2, style, rseed, b2, dims)
                                    doc["variant"] = variant
                                    vwhat = r2[1]
                            except Exception:  # noqa: BLE001
                                pass
                        ck.failure(vkey, f"{vwhat} [{origin}, style {style}, {len(doc['prog']['nodes'])} nodes]", doc)
                        stats["oracle_failures"] += 1
                    elif variant["route"] == "build" and variant["drop"] and vres["model"] is not None and None not in (vres["args"] or [None]):
                        if len(vres["args"]) < len(L.main_args(prog)) or origin.startswith("skeleton5"):
                            drop_models.append((vres["model"], vres["args"], vres["caller_args"]))  # (else: the default build's question again)
                        stats["inputs_dropped"] += len(L.main_args(prog)) - len(vres["args"])
            if res["model"] is None:
                if res["problems"] and not res["fail"]:
                    extraction_broken += 1
                    if extraction_broken <= 3:
                        ck.broken("correspondence", "C01 program could not be realised by the harness", str(res["problems"][:2]))
                continue
            if res["problems"] or res["emission"] is None:
                extraction_broken += 1
                if extraction_broken <= 3:
                    ck.broken("correspondence", "C01 emission extraction (ModelProto vs abstract program)",
                              f"{origin} style={style} rseed={rseed}: {res['problems'][:3]}")
                if res["emission"] is None:
                    continue
            em = res["emission"]
            es = L.emission_stats(em)
            em_depth[es["depth"]] += 1
            stats["emitted_nodes"] += es["nodes"]
            stats["emitted_graphs"] += es["graphs"]
            if R is not None and getattr(R, "calls", None) and style == styles[0]:
                # tie H (Model/Containers.lean): the operands the constructed nodes hold NOW vs the model's snapshots
                try:
                    ev_obs.append((L.observed_sequence_operands(R), (pi, style, rseed, origin)))
                    ev_reqs.append({"events": R.events})
                except Exception as e:  # noqa: BLE001 - observation facet
                    stats["container_observation_errors"] += 1
                    if stats["container_observation_errors"] <= 2:
                        ck.broken("correspondence", "C01 could not observe the sequence operands of constructed nodes",
                                  f"{origin}: {type(e).__name__}: {e}")
            if R is not None:
                stats["caller_owned_containers"] += getattr(R, "owned", 0)
                for mk_, mv_ in getattr(R, "mutations", {}).items():
                    hist_mut[mk_] += mv_
                for k, dd in R.created_in.items():
                    ed = es["depth_of"].get(k)
                    if ed is not None and prog["nodes"][k]["op"] != "arg":
                        if dd > ed:
                            stats["created_in_callback_emitted_further_out"] += 1
                        elif dd < ed:
                            stats["created_outside_emitted_inside_body"] += 1
                stats["unrequested_constructions"] += R.extras
                stats["created_inside_callbacks"] += sum(1 for k, dd in R.created_in.items() if dd > 0 and prog["nodes"][k]["op"] != "arg")
            if origin.startswith("deep") and not (ck.thorough and len(prog["nodes"]) < 1700):
                # the model's list lookups are O(n) each: validating a 3 000-node emission costs O(n^3) in the
                # driver; deep programs are judged by the oracle (quick) and the smaller ones by Lean (thorough)
                stats["deep_programs_built_and_run"] += 1
                continue
            queue_lean(prog, R, em, res["model"], [int(i.name[2:]) for i in res["model"].graph.input],
                       (pi, style, rseed, origin), stats["builds"] % 4 == 0)
            if style == styles[0] and not problems_of(res):
                # the Builder ALGORITHM model (C04's BuildAlg.build) on the same program: hypotheses of
                # C01Build.built_model_computes_dataflow and its emission vs the real one
                try:
                    b_args = [int(i.name[2:]) for i in res["model"].graph.input]
                    b_res = [prog["outputs"][int(o.name[3:])] for o in res["model"].graph.output]
                    bridge_reqs.append({"bridge": L.to_buildalg(prog, b_args, b_res)})
                    bridge_meta.append((pi, style, rseed, origin, L.normal_emission(prog, em)))
                except Exception as e:  # noqa: BLE001
                    ck.broken("correspondence", "C01/C04 bridge request", f"{origin}: {type(e).__name__}: {e}")
            # the same emission questions for the models of the drop_unused_inputs builds of this case
            for vmodel, vargs, vcaller in drop_models:
                try:
                    em2, problems2 = L.extract_emission(prog, vmodel)
                except Exception as e:  # noqa: BLE001
                    em2, problems2 = None, [f"extraction crashed: {type(e).__name__}: {e}"]
                if problems2 or em2 is None:
                    extraction_broken += 1
                    if extraction_broken <= 3:
                        ck.broken("correspondence", "C01 emission extraction (drop_unused_inputs build)",
                                  f"{origin} style={style} rseed={rseed}: {problems2[:3]}")
                    continue
                queue_lean(prog, R, em2, vmodel, vargs, (pi, style, rseed, origin + " [drop_unused_inputs]"), False, vcaller)
                stats["drop_builds_sent_to_lean"] += 1
            if pi % 97 == 0 and style == styles[0]:
                ck.sample({"origin": origin, "style": style, "nodes": len(prog["nodes"]), "depth": d,
                           "ops": sorted(set(n["op"] for n in prog["nodes"])),
                           "emission": {k_: v_ for k_, v_ in es.items() if k_ != "depth_of"}}, 5)

    # --- the Lean side of the translation validation
    mism = collections.Counter()
    try:
        import time as _time

        _t0 = _time.time()
        outs = ck.driver().ask_many("C01", lean_reqs)
        ck.log(f"translation validation: {len(lean_reqs)} requests ({_time.time() - _t0:.1f}s)")
    except Exception as e:  # noqa: BLE001
        ck.broken("correspondence", "C01 driver", str(e)[:400])
        outs = []
    if outs and len(outs) != len(lean_reqs):
        ck.broken("correspondence", "C01 driver", f"{len(outs)} answers for {len(lean_reqs)} requests")
    prev = None
    hist_vals: dict = {}
    for o, meta, req, (want_used, is_drop) in zip(outs, lean_meta, lean_reqs, lean_used):
        tag = None
        if "error" in o:
            tag = "driver-error"
        elif o.get("used") != want_used:
            tag = "usedArgs-differs-from-reachability"
        elif is_drop and not o.get("dropValid"):
            tag = "real-drop_unused_inputs-emission-is-not-valid-for-dropUnused"
        elif not (o.get("leaf") and o.get("argsOk")):
            tag = "side-conditions-of-usedArgs_least-do-not-hold (argsLeaf / isArg / notFormal)"
        elif not o["wf"]:
            tag = "wfCheck-false"
        elif not o["valid"]:
            tag = "validG-rejects-real-emission"
        elif any(r["eval"] is None or (req["denote"] and r["eval"] != r["denote"]) for r in o["runs"]):
            tag = "evalG-differs-from-denote"
        if tag:
            mism[tag] += 1
            if mism[tag] <= 2:
                ck.broken("correspondence", f"C01 translation validation: {tag}",
                          f"program #{meta[0]} ({meta[3]}) style={meta[1]} rseed={meta[2]} answer={json.dumps(o)[:300]} emission={json.dumps(req['emit'])[:400]}")
        else:
            stats["emissions_validated"] += int(meta[4] == "creation-order")
            stats["drop_builds_validated"] += int(is_drop)
            stats["usedArgs_compared"] += 1
            stats["eval_vs_denote_compared"] += int(req["denote"])
            if meta[4] == "abstract-order" and prev is not None and prev[1][:4] == meta[:4]:
                stats["numberings_compared"] += 1
                if [r["eval"] for r in prev[0]["runs"]] != [r["eval"] for r in o["runs"]]:
                    mism["creation-order-vs-abstract-order-values-differ"] += 1
                    ck.broken("correspondence", "C01 renaming: values differ between creation-order and abstract numbering",
                              f"program #{meta[0]} style={meta[1]} rseed={meta[2]}")
            if meta[4] == "history":
                stats["history_emissions_validated"] += 1
                stats["history_builds_inputs_in_another_order"] += int(meta[8])
                for t, ref in enumerate(meta[7]):
                    got = [r["eval"][t] if r["eval"] is not None and t < len(r["eval"]) else None for r in o["runs"]]
                    first = hist_vals.setdefault((meta[5], ref), got)
                    if first is not got:
                        stats["history_shared_outputs_compared"] += 1
                        if first != got:
                            mism["history: an output shared by two builds gets different values"] += 1
                            ck.broken("correspondence", "C01 other_request_same_values: a shared output differs between two builds of a history",
                                      f"program #{meta[0]} ({meta[3]}) style={meta[1]} rseed={meta[2]} step={meta[6]} output={ref}: {first} vs {got}")
        prev = (o, meta)

    # --- round 10: abstract program -> program as created: hypotheses of needed_part_decides_values_checked
    try:
        eouts = ck.driver().ask_many("C01", embed_reqs) if embed_reqs else []
    except Exception as e:  # noqa: BLE001
        ck.broken("correspondence", "C01 driver (embed)", str(e)[:300])
        eouts = []
    for o, meta in zip(eouts, embed_meta):
        bad = [k_ for k_ in ("wf", "wf2", "sigmaOk", "embeds", "mainMapped") if not o.get(k_)]
        if "error" in o or bad:
            mism["embed: " + ",".join(bad or ["driver-error"])] += 1
            if sum(v_ for k_, v_ in mism.items() if k_.startswith("embed")) <= 2:
                ck.broken("correspondence", "C01 needed_part_decides_values: hypotheses do not hold between the abstract program and the program as created",
                          f"program #{meta[0]} ({meta[3]}) style={meta[1]} rseed={meta[2]} answer={json.dumps(o)[:300]}")
        else:
            stats["embeddings_checked"] += 1
            stats["embeddings_with_nodes_never_created"] += int(meta[4] > 0)
            stats["needed_nodes_embedded"] += int(o.get("needed", 0))

    # --- bridge: the Builder algorithm model on the same programs (tie for Props/C01Build.lean)
    try:
        import time as _time

        _t0 = _time.time()
        bouts = ck.driver().ask_many("C01", bridge_reqs) if bridge_reqs else []
        ck.log(f"bridge: {len(bridge_reqs)} programs through the Builder algorithm model ({_time.time() - _t0:.1f}s)")
    except Exception as e:  # noqa: BLE001
        ck.broken("correspondence", "C01 bridge driver", str(e)[:300])
        bouts = []
    for o, meta in zip(bouts, bridge_meta):
        bprog = programs[meta[0]][0]
        tagb = None
        if "error" in o:
            tagb = "driver-error"
        elif not (o.get("wf") and o.get("built")):
            tagb = "algorithm-model-does-not-build (WFb / build)"
        elif not o.get("mainClean"):
            tagb = "mainCleanB-false-on-a-front-end-program"
        elif not o.get("valid"):
            tagb = "validG-rejects-the-algorithm-model-emission"
        elif L.normal_emission(bprog, o["emit"], attr_order=True) != meta[4]:
            tagb = "algorithm-model-emission-differs-from-the-real-emission"
        if tagb:
            mism["bridge: " + tagb] += 1
            if mism["bridge: " + tagb] <= 2:
                ck.broken("correspondence", f"C01/C04 bridge: {tagb}",
                          f"program #{meta[0]} ({meta[3]}) style={meta[1]} rseed={meta[2]} answer={json.dumps(o)[:300]} real={json.dumps(meta[4])[:300]}")
        else:
            stats["bridge_ok"] += 1

    # --- caller-owned containers: the model's snapshots vs what the constructed nodes hold after the mutations
    try:
        ev_outs = ck.driver().ask_many("C01", ev_reqs) if ev_reqs else []
    except Exception as e:  # noqa: BLE001
        ck.broken("correspondence", "C01 driver (container events)", str(e)[:300])
        ev_outs = []
    for o, (obs, meta) in zip(ev_outs, ev_obs):
        snaps = o.get("snapshots")
        tagc = None
        if snaps is None:
            tagc = "driver-error"
        elif snaps != [ids for _, ids in obs]:
            tagc = "constructed-operands-differ-from-the-contents-at-call-time"
        elif any(tn != "tuple" for tn, _ in obs):
            tagc = "sequence-operands-held-in-a-mutable-container"
        if tagc:
            mism[tagc] += 1
            if mism[tagc] <= 2:
                ck.broken("correspondence", f"C01 containers: {tagc}", f"program #{meta[0]} ({meta[3]}) style={meta[1]} rseed={meta[2]}: model {snaps} observed {obs}"[:600])
        else:
            stats["container_traces_compared"] += 1

    # --- round 7: sequence-taking constructors outside the abstract vocabulary, caller's list mutated afterwards
    probe_hist = collections.Counter()
    try:
        from harness import lib_containers as LC

        for pd in LC.all_probes(random.Random(rng.getrandbits(48))):
            j_case({"container_probe": pd})
            j_stage("build")
            try:
                pr = LC.run_probe(pd["probe"], pd["kind"], pd["opset"], pd["seed"])
            except Exception as e:  # noqa: BLE001
                ck.broken("correspondence", "C01 container probe could not be processed", f"{pd}: {type(e).__name__}: {e}")
                continue
            stats["builds"] += 1
            if pr is None:
                probe_hist[pd["probe"]] += 1
            elif pr[0] == "skip":
                notes["container-probe-unavailable"] += 1
            else:
                ck.failure(pr[0], pr[1] + " [container probe]", {"container_probe": pd})
                stats["oracle_failures"] += 1
    except Exception as e:  # noqa: BLE001
        ck.broken("correspondence", "C01 container probes", f"{type(e).__name__}: {e}")

    # --- the listed finding, replayed on every run
    try:
        kf = run_case(LOOP_SCALAR_COND, "lazy", 1, [L.random_binding(LOOP_SCALAR_COND, random.Random(5))])
    except Exception as e:  # noqa: BLE001
        kf = {"fail": None}
        ck.broken("correspondence", "C01 harness could not process the loop-scalar-cond probe", f"{type(e).__name__}: {e}")
    stats["builds"] += 1
    if kf["fail"]:
        ck.failure(kf["fail"][0], kf["fail"][1] + " [fixed probe: Loop with a rank-0 initial condition]",
                   case_doc(LOOP_SCALAR_COND, "lazy", 1, [L.random_binding(LOOP_SCALAR_COND, random.Random(5))]))

    try:
        kb = [L.random_binding(SPLIT18, random.Random(5))]
        kf2 = run_case(SPLIT18, "lazy", 1, kb)
    except Exception as e:  # noqa: BLE001
        kf2 = {"fail": None}
        ck.broken("correspondence", "C01 harness could not process the split18 probe", f"{type(e).__name__}: {e}")
    stats["builds"] += 1
    if kf2["fail"]:
        ck.failure(kf2["fail"][0], kf2["fail"][1] + " [fixed probe: Split with explicit sizes at opset 18]",
                   case_doc(SPLIT18, "lazy", 1, kb))

    ck.cov.update(
        {
            "programs": len(programs),
            "skeleton_programs": n_skel,
            "random_programs": n_random,
            "realisations_built": stats["builds"],
            "emissions_validated_by_lean": stats["emissions_validated"],
            "evalG_vs_denoteG_compared": stats["eval_vs_denote_compared"],
            "creation_order_vs_abstract_numbering_compared": stats["numberings_compared"],
            "translation_validation_mismatches": dict(mism),
            "extraction_problems": extraction_broken,
            "bindings_compared_with_numpy": stats["bindings_compared"],
            "bindings_skipped_overflow": stats["bindings_skipped_overflow"],
            "oracle_failures": stats["oracle_failures"],
            "variant_builds": stats["variant_builds"],
            "non_argument_input_probes": stats["non_argument_input_probes"],
            "variant_builds_by_kind": dict(variant_hist),
            "drop_unused_inputs_models_validated_by_lean": stats["drop_builds_validated"],
            "model_inputs_dropped_by_drop_builds": stats["inputs_dropped"],
            "usedArgs_lean_vs_reachability_compared": stats["usedArgs_compared"],
            "model_inputs_by_depths_read": dict(read_profile),
            "distribution": {
                "ops": dict(hist_ops),
                "nesting_depth_of_outputs": dict(hist_depth),
                "emission_depth": dict(em_depth),
                "styles": dict(hist_style),
                "opset_versions": dict(hist_opset),
                "model_inputs_declared": dict(hist_dims),
                "skeleton_programs_retyped (element type / vector length)": dict(hist_retype),
                "caller_owned_lists_handed_to_constructors": stats["caller_owned_containers"],
                "caller_mutations_after_construction": dict(hist_mut),
                "container_probes_passed": dict(probe_hist),
                "builder_algorithm_model_emission_equals_real_and_hypotheses_hold": stats["bridge_ok"],
                "container_event_traces_compared_with_model": stats["container_traces_compared"],
                "emitted_nodes": stats["emitted_nodes"],
                "emitted_graphs": stats["emitted_graphs"],
                "unrequested_constructions": stats["unrequested_constructions"],
                "deep_programs_built_and_run": stats["deep_programs_built_and_run"],
                "multi_build_histories_over_the_same_objects": stats["histories"],
                "round10_history_builds": stats["history_builds"],
                "round10_history_build_kinds (request/input scheme)": dict(hist_kinds),
                "round10_history_emissions_validated_against_their_request": stats["history_emissions_validated"],
                "round10_history_builds_with_inputs_in_another_order": stats["history_builds_inputs_in_another_order"],
                "round10_outputs_shared_by_two_builds_compared": stats["history_shared_outputs_compared"],
                "round10_embeddings_abstract_into_created_checked": stats["embeddings_checked"],
                "round10_embeddings_where_some_abstract_node_was_never_created": stats["embeddings_with_nodes_never_created"],
                "round10_needed_nodes_embedded": stats["needed_nodes_embedded"],
                "round10_history_tie_cost_ms (rename + extraction in the child)": stats["round10_history_tie_ms"],
                "values_created_inside_callbacks": stats["created_inside_callbacks"],
                "created_in_callback_emitted_further_out": stats["created_in_callback_emitted_further_out"],
                "created_outside_emitted_inside_body": stats["created_outside_emitted_inside_body"],
            },
            "runtime_notes": dict(notes),
            "onnxruntime_child_process_crashes_survived": L.ort_crashes(),
        }
    )
    ck.exhaustive = False
    ck.rule = (
        f"skeleton family: one closed value used in every subset of <= {skel_uses} of 6 nested graphs "
        f"(main > If > Loop > If) x 2 shapes x styles {skel_styles}; skeleton2: a value depending on the formals of a "
        f"Loop / Scan body used in every subset of <= {ck.pick(2, 4)} of 8 graphs at 3 depths below that body; + {n_random} seeded random programs "
        f"(8-40 nodes, depth <= 4) x {n_styles} Python styles; {n_bind} random bindings each; "
        "non-trivial = has a body or a multi-output / optional-input operator; distinct by (dataflow structure, style)"
    )
    ck.assumptions += [
        "ONNX scoping rule (a node sees earlier values of its graph and of enclosing graphs; formals bound on entry) is what evalG implements — validated against onnxruntime by the oracle on every run",
        "operator semantics are a parameter of the theorem (Sem); the numpy evaluator in harness/lib_prog.py is the reference semantics of the oracle",
        "the result-Identity nodes that build appends to every graph are pure renamings",
        "build_valid (the algorithm always yields an accepted emission) is C04's algorithm model plus this per-run validation of the real emission",
    ]
    ck.trusted_base += [
        "harness/lib_prog.py: generator (well-typed, leak-free by construction), numpy evaluator, extraction of the emission (names -> ids; the witness from the captured BuildResult is re-checked against the ModelProto)",
    ]


def replay(ck: core.Check, doc) -> bool:
    """In a forked child: a replay that dies of a native crash still fails."""
    if os.environ.get("C01_NO_FORK") == "1" or not hasattr(os, "fork"):
        return _replay(ck, doc)
    r = _in_child(lambda: _replay(ck, doc), str(core.WORK / f"c01-replay-{os.getpid()}"))
    if r[0] == "ok":
        return bool(r[1])
    if r[1] == "exit code 3":
        raise RuntimeError("C01 replay failed inside the child process (see the traceback above)")
    print(f"{ABORT_KEY.get(r[2], 'build-aborted')}: the process judging this input died ({r[1]}) during stage `{r[2]}`")
    return True


def _replay(ck: core.Check, doc) -> bool:
    case = doc["case"]
    if case.get("container_probe"):
        from harness import lib_containers as LC

        pd = case["container_probe"]
        pr = LC.run_probe(pd["probe"], pd["kind"], pd["opset"], pd["seed"])
        if pr is not None and pr[0] != "skip":
            print(f"{pr[0]}: {pr[1]}")
            return True
        print(f"container probe {pd}: {'not available in this tree' if pr else 'computes the dataflow as constructed'}")
        return False
    prog = case["prog"]
    bindings = [L.binding_from_json(prog, b) for b in case["bindings"]]
    if case.get("non_argument_probe"):
        import warnings

        with warnings.catch_warnings():
            warnings.simplefilter("ignore")
            R_ = L.realise(prog, random.Random(case["rseed"]), case["style"], twins=bool(prog.get("special")), dims=case.get("dims", "concrete"))
        nf = non_argument_probe(prog, R_)
        if nf:
            print(f"{nf[0]}: {nf[1]}")
            return True
        print("a non-argument Var in `inputs` is refused with TypeError and leaves nothing behind")
        return False
    if case.get("variant"):
        vf = run_variant_case(prog, case["style"], case["rseed"], case["variant"], bindings, case.get("dims", "concrete"))
        if vf:
            print(f"{vf[0]}: {vf[1]}")
            return True
        print(f"variant build {case['variant']} built, has the expected inputs, and agrees with the dataflow evaluation")
        return False
    if case.get("history") or doc.get("history"):
        hf = run_history(prog, case["style"], case["rseed"], bindings)
        if hf:
            print(f"{hf[0]}: {hf[1]}")
            return True
        print("every build of the history agrees with the dataflow evaluation")
        return False
    res = run_case(prog, case["style"], case["rseed"], bindings, use_reference=True, dims=case.get("dims", "concrete"))
    if res["fail"]:
        print(f"{res['fail'][0]}: {res['fail'][1]}")
        return True
    print(f"built and ran: {res['compared']} bindings agree with the dataflow evaluation; notes={res['notes']}")
    return False
