"""C18 — user-defined operators are emitted verbatim and compose like standard ones.

proof  : Props/C18.lean (custom_verbatim, custom_import, hooks_determine, no_hooks_untyped, dropped_iff)
tie H  : operator classes are synthesised from generated signatures exactly as docs/manual/unstable.rst
         prescribes (every field kind, every attribute kind, domains/versions, hook behaviours
         absent/total/partial/junk keys/ill-typed values); for each instance the NodeProto, the
         opset requirement, the output Vars' types/values and the warnings of the real spox are
         compared with Model/Custom.lean + Model/Emit.lean run by the driver
oracle : model-free — NodeProto / built ModelProto inspected directly (one node per application,
         declared op_type/domain, every declared slot present with "" for absent optionals,
         attributes by declared name and value, opset import = max version used); hook results vs.
         Var.type/_value with an independent numpy conformance test; composition inside If / Loop
         bodies and next to inlined models; execution with the custom domain registered as an ONNX
         function (onnx.reference, onnxruntime) vs. numpy
"""
from __future__ import annotations

import dataclasses
import json
import re
import typing
import inspect
import warnings

from harness import core

DOMAINS = ["my.domain", "com.acme", "custom.x"]


# ----------------------------------------------------------------------------- environment
class Env:
    """`spox` public API + the extension interface of docs/manual/unstable.rst are required; every
    other internal the harness *observes* through is optional (`None` when it cannot be found)."""

    def __init__(self, ck=None):
        import numpy as np
        import onnx
        import spox
        import spox._attributes as A
        import spox._fields as F
        import spox._node as N
        import spox._type_system as ts
        import spox.opset.ai.onnx.v17 as op
        from spox import argument, build, inline

        self.np, self.onnx, self.spox, self.A, self.F, self.N, self.ts = np, onnx, spox, A, F, N, ts
        self.op, self.argument, self.build, self.inline = op, argument, build, inline
        self.Var = spox.Var
        self.missing = []

        def opt(name, getter):
            try:
                return getter()
            except Exception as e:  # noqa: BLE001
                self.missing.append(f"{name}: {type(e).__name__}: {e}")
                return None

        self.Scope = opt("spox._scope.Scope", lambda: __import__("spox._scope", fromlist=["Scope"]).Scope)
        self.vp = opt("spox._value_prop", lambda: __import__("spox._value_prop", fromlist=["PropValue"]))
        self.fut = opt("spox._future", lambda: __import__("spox._future", fromlist=["type_warning_level"]))
        self.results = opt("spox._graph.results", lambda: __import__("spox._graph", fromlist=["results"]).results)
        self.subgraph = opt("spox._graph.subgraph", lambda: __import__("spox._graph", fromlist=["subgraph"]).subgraph)
        self.policy = opt("spox._schemas.max_opset_policy",
                          lambda: __import__("spox._schemas", fromlist=["max_opset_policy"]).max_opset_policy)
        self.levels = opt("TypeWarningLevel", lambda: list(N.TypeWarningLevel)) or []
        if ck is not None:
            for m in self.missing:
                ck.broken("correspondence", "spox internal not observable", m)

    @property
    def can_level(self):
        return self.fut is not None and hasattr(self.fut, "type_warning_level") and len(self.levels) == 4


ATTR_KINDS = ["AttrInt64", "AttrFloat32", "AttrString", "AttrInt64s", "AttrFloat32s", "AttrStrings",
              "AttrTensor", "AttrType", "AttrDtype", "AttrTensors", "AttrGraph"]


def attr_value(env: Env, kind: str, rng):
    np = env.np
    if kind == "AttrInt64":
        return rng.randrange(-9, 99)
    if kind == "AttrFloat32":
        return rng.randrange(-8, 9) / 4.0
    if kind == "AttrString":
        return rng.choice(["", "a", "hello", "ü"])
    if kind == "AttrInt64s":
        return [rng.randrange(-3, 9) for _ in range(rng.randrange(0, 4))]
    if kind == "AttrFloat32s":
        return [rng.randrange(-8, 9) / 8.0 for _ in range(rng.randrange(0, 4))]
    if kind == "AttrStrings":
        return [rng.choice(["x", "yy", ""]) for _ in range(rng.randrange(0, 3))]
    if kind == "AttrTensor":
        from harness.props.c11 import LAYOUTS, layout_array

        return layout_array(np, rng.choice(LAYOUTS), rng.choice(["float32", "int64", "<U2", "bool", "uint8", "float64"]))
    if kind == "AttrType":
        from harness.props.c11 import TYPE_VARIANTS, mk_type

        return mk_type(env, rng.choice(TYPE_VARIANTS))
    if kind == "AttrDtype":
        from harness.props.c11 import elem_types

        return elem_types(env)[rng.choice(sorted(elem_types(env)))]
    if kind == "AttrTensors":
        from harness.props.c11 import LAYOUTS, layout_array

        return [layout_array(np, rng.choice(LAYOUTS), rng.choice(["float32", "int64", "bool"])) for _ in range(rng.randrange(0, 3))]
    if kind == "AttrGraph":
        c = rng.randrange(1, 5)
        return env.subgraph((), lambda: [env.op.const(np.array([float(c)], np.float32))])
    raise ValueError(kind)


def tensor_repr(arr) -> str:
    kind = "str" if arr.dtype.kind in "US" else str(arr.dtype.newbyteorder("="))
    return f"{kind}:{tuple(arr.shape)}:{arr.tolist()}"


def attr_repr(env: Env, ap) -> str:
    """AttributeProto value -> canonical string (what the harness also computes from the given value)"""
    onnx = env.onnx
    v = onnx.helper.get_attribute_value(ap)
    AP = onnx.AttributeProto
    if ap.type == AP.TENSOR:
        from harness.props.c11 import decode_tensor

        return "tensor:" + tensor_repr(decode_tensor(env.np, onnx, v))
    if ap.type == AP.TYPE_PROTO:
        from harness.props.c11 import describe_typeproto

        return "type:" + repr(describe_typeproto(v))
    if ap.type == AP.STRING:
        return "s:" + v.decode()
    if ap.type == AP.STRINGS:
        return "ss:" + repr([x.decode() for x in v])
    if ap.type == AP.FLOAT:
        return "f:" + repr(float(env.np.float32(v)))
    if ap.type == AP.FLOATS:
        return "fs:" + repr([float(env.np.float32(x)) for x in v])
    if ap.type == AP.INT:
        return "i:" + str(v)
    if ap.type == AP.INTS:
        return "is:" + repr(list(v))
    if ap.type == AP.GRAPH:
        return "graph"
    if ap.type == AP.TENSORS:
        from harness.props.c11 import decode_tensor

        return "tensors:" + repr([tensor_repr(decode_tensor(env.np, onnx, x)) for x in v])
    return "other"


def given_repr(env: Env, kind: str, v) -> str:
    """expected canonical string, computed from the value handed to the Attr class — independently
    of spox's own conversion (onnx.helper / numpy only)"""
    np, onnx = env.np, env.onnx
    if kind == "AttrInt64":
        return "i:" + str(v)
    if kind == "AttrFloat32":
        return "f:" + repr(float(np.float32(v)))
    if kind == "AttrString":
        return "s:" + v
    if kind == "AttrInt64s":
        return "is:" + repr(list(v))
    if kind == "AttrFloat32s":
        return "fs:" + repr([float(np.float32(x)) for x in v])
    if kind == "AttrStrings":
        return "ss:" + repr(list(v))
    if kind == "AttrTensor":
        return "tensor:" + tensor_repr(v)
    if kind == "AttrType":
        from harness.props.c11 import TYPE_VARIANTS, describe_spec, mk_type

        spec = next((s for s in TYPE_VARIANTS if mk_type(env, s) == v), None)
        return "type:" + repr(describe_spec(np, onnx, spec)) if spec is not None else "type:?"
    if kind == "AttrDtype":
        from harness.props.c11 import elem_of

        return "i:" + str(elem_of(env, v))
    if kind == "AttrTensors":
        return "tensors:" + repr([tensor_repr(a) for a in v])
    if kind == "AttrGraph":
        return "graph"
    return "other"


# ----------------------------------------------------------------------------- signatures
def gen_sig(rng, idx: int, force=None):
    """A declared signature + hook behaviour + one instantiation."""
    force = force or {}
    n_single = rng.randrange(0, 3)
    n_opt = rng.randrange(0, 4)
    kinds = ["single"] * n_single + ["optional"] * n_opt
    if rng.random() < 0.3:
        rng.shuffle(kinds)  # spox does not insist on "only a suffix may be optional"
    if rng.random() < 0.45:
        # spox does not insist on "the variadic field comes last" either: first / middle / last
        pos = rng.choice([len(kinds), len(kinds), 0, rng.randrange(0, len(kinds) + 1)])
        kinds.insert(pos, "variadic")
    if not kinds and rng.random() < 0.5:
        kinds = ["single"]  # else: an operator without inputs (a generator), like Constant / RandomNormal
    inputs = [(f"i{j}", k) for j, k in enumerate(kinds)]
    okinds = ["single"] * rng.randrange(1, 3) + (["optional"] if rng.random() < 0.2 else [])
    if rng.random() < 0.35:
        okinds.insert(rng.choice([len(okinds), len(okinds), 0, rng.randrange(0, len(okinds) + 1)]), "variadic")
    outputs = [(f"o{j}", k) for j, k in enumerate(okinds)]
    attrs = []
    for j in range(rng.randrange(0, 5)):
        attrs.append({"name": f"a{j}", "kind": rng.choice(ATTR_KINDS), "optional": rng.random() < 0.5})
    sig = {
        "name": f"Op{idx}", "domain": rng.choice(DOMAINS), "version": rng.randrange(1, 7),
        "inputs": inputs, "outputs": outputs, "attrs": attrs,
        "thook": rng.choice(["absent", "total", "total", "partial", "junk", "nonconcrete", "empty"]),
        "vhook": rng.choice(["absent", "absent", "total", "partial", "junk", "illtyped", "empty"]),
        "level": rng.choice([0, 1, 2, 2, 3]),
    }
    if rng.random() < 0.15:
        sig["thook"] = "container"
    sig.update(force)
    if sig["thook"] == "container":
        sig["vhook"] = rng.choice(["container", "container", "container-bad", "absent"])
    elif sig["vhook"].startswith("container"):
        sig["vhook"] = "total"
    # one instantiation
    inst = {"present": {}, "nvar": 0, "out_nvar": None, "attrs": {}, "typed_inputs": rng.random() < 0.8,
            "const_inputs": rng.random() < 0.4}
    for n, k in sig["inputs"]:
        if k == "optional":
            inst["present"][n] = rng.random() < 0.5
        if k == "variadic":
            inst["nvar"] = rng.randrange(0, 4)
    if any(k == "variadic" for _, k in sig["outputs"]):
        inst["out_nvar"] = rng.randrange(0, 3)
    for a in sig["attrs"]:
        inst["attrs"][a["name"]] = not a["optional"] or rng.random() < 0.6
    sig["inst"] = inst
    if any(k == "variadic" for _, k in sig["inputs"]):
        inst["vform"] = rng.choice(["list", "list", "tuple", "gen"])
        if inst["vform"] == "list" and rng.random() < 0.6:
            inst["vmut"] = rng.choice(["append", "pop", "reverse", "setitem", "clear", "insert0"])
    slots = [s for s in raw_slots(sig) if s]
    if len(slots) >= 2 and rng.random() < 0.35:
        from harness.props.c11 import repeat_patterns

        inst["same"] = rng.choice(repeat_patterns(slots, rng))
    return sig


def out_keys(sig):
    keys = []
    for n, k in sig["outputs"]:
        if k == "variadic":
            keys += [f"{n}_{i}" for i in range(sig["inst"]["out_nvar"] or 0)]
        else:
            keys.append(n)
    return keys


def hook_dicts(env: Env, sig):
    """-> (type hook result | None, value hook result | None), as the hooks will return them"""
    np, ts = env.np, env.ts
    keys = out_keys(sig)
    th = vh = None
    m = sig["thook"]
    if m != "absent":
        th = {}
        for i, k in enumerate(keys):
            if m == "partial" and i % 2 == 1:
                continue
            if m == "empty":
                continue
            if m == "container":  # declared element types are *more general* than the values' types
                th[k] = (ts.Sequence(ts.Tensor(np.float32, (None,))) if i % 2 == 0
                         else ts.Optional(ts.Tensor(np.float32, (None, "N"))))
                continue
            th[k] = ts.Tensor(np.float32, None) if m == "nonconcrete" else ts.Tensor(np.float32, (i + 1,))
        if m == "junk":
            th["not_an_output"] = ts.Tensor(np.int64, ())
            th[keys[0] + "_9"] = ts.Tensor(np.int64, ())
    m = sig["vhook"]
    if m != "absent":
        vh = {}
        for i, k in enumerate(keys):
            if m == "partial" and i % 2 == 0:
                continue
            if m == "empty":
                continue
            if m.startswith("container"):
                PV = env.vp.PropValue
                if i % 2 == 0:
                    elems = [PV(ts.Tensor(np.float32, (2,)), np.full((2,), 1.5, np.float32)),
                             PV(ts.Tensor(np.float32, (3,)), np.full((3,), 2.5, np.float32))][: (i // 2) % 3]
                    if m == "container-bad":
                        elems = elems + [PV(ts.Tensor(np.int64, (2,)), np.ones((2,), np.int64))]
                    vh[k] = elems
                else:
                    vh[k] = None if (i // 2) % 2 else PV(ts.Tensor(np.float32, (1, 2)), np.full((1, 2), 3.5, np.float32))
                    if m == "container-bad":
                        vh[k] = PV(ts.Tensor(np.int64, (1, 2)), np.ones((1, 2), np.int64))
                continue
            if m == "illtyped" and i % 2 == 0:
                vh[k] = np.ones((i + 1,), np.int64)  # wrong dtype for the declared float32
            else:
                vh[k] = np.full((i + 1,), float(i + 2), np.float32)
        if m == "junk":
            vh["not_an_output"] = np.zeros((), np.int64)
    return th, vh


def make_class(env: Env, sig, th, vh):
    A, F, N = env.A, env.F, env.N
    Var = env.Var
    ann = {"single": Var, "optional": typing.Optional[Var], "variadic": typing.Sequence[Var]}
    Inputs = dataclasses.make_dataclass("Inputs", [(n, ann[k]) for n, k in sig["inputs"]], bases=(F.BaseInputs,))
    Outputs = dataclasses.make_dataclass("Outputs", [(n, ann[k]) for n, k in sig["outputs"]], bases=(F.BaseOutputs,))
    afields = []
    for a in sig["attrs"]:
        cls = getattr(A, a["kind"])
        afields.append((a["name"], typing.Optional[cls] if a["optional"] else cls))
    Attributes = dataclasses.make_dataclass("Attributes", afields, bases=(F.BaseAttributes,))
    ns = {"op_type": N.OpType(sig["name"], sig["domain"], sig["version"]),
          "Attributes": Attributes, "Inputs": Inputs, "Outputs": Outputs}
    if th is not None:
        ns["infer_output_types"] = lambda self: dict(th)
    if vh is not None:
        ns["propagate_values"] = lambda self: dict(vh)
    return type(sig["name"], (N.Node,), ns)


class AttrRejected(Exception):
    def __init__(self, kind, msg):
        super().__init__(msg)
        self.kind = kind


def instantiate(env: Env, sig, cls, rng, given_inputs=None):
    """-> (node, names {id(var): name}, attr values {name: value|None}, caught warnings)"""
    np, ts = env.np, env.ts
    inst = sig["inst"]
    names, kw = {}, {}
    keep = []
    caller_list = None

    rep = rep_of(sig)
    made = {}

    def mk(name):
        name = rep.get(name, name)
        if name in made:  # the very same Var object in another slot
            return made[name]
        v = _mk(name)
        made[name] = v
        return v

    def _mk(name):
        if given_inputs is not None and name in given_inputs:
            v = given_inputs[name]
        else:
            if inst.get("const_inputs") and len(keep) % 2 == 0:
                v = env.op.const(np.array([1.0, 2.0], np.float32))  # a Var with a propagated value
            else:
                v = env.argument(ts.Tensor(np.float32, (2,)))
            if not inst["typed_inputs"] and getattr(v, "_value", None) is None:
                v.type = None
        keep.append(v)
        names[id(v)] = name
        return v

    for n, k in sig["inputs"]:
        if k == "single":
            kw[n] = mk(f"in_{n}")
        elif k == "optional":
            kw[n] = mk(f"in_{n}") if inst["present"][n] else None
        else:
            caller_list = [mk(f"in_{n}_{i}") for i in range(inst["nvar"])]
            vform = inst.get("vform", "list")
            kw[n] = tuple(caller_list) if vform == "tuple" else (v for v in list(caller_list)) if vform == "gen" else caller_list
    avals, akw = {}, {}
    arng = __import__("random").Random(__import__("zlib").crc32(sig["name"].encode()) * 8 + sig["version"])
    for a in sig["attrs"]:
        if inst["attrs"][a["name"]]:
            v = attr_value(env, a["kind"], arng)
            avals[a["name"]] = v
            handed = v
            if a["kind"] in ("AttrInt64s", "AttrFloat32s", "AttrStrings", "AttrTensors"):
                from harness.props.c11 import as_form

                form = arng.choice(["list", "tuple", "gen", "ndarray"])
                handed = as_form(np, list(v), form) if not (form == "ndarray" and a["kind"] == "AttrTensors") else tuple(v)
            try:
                akw[a["name"]] = getattr(env.A, a["kind"])(handed, a["name"])
            except Exception as e:  # noqa: BLE001
                raise AttrRejected(a["kind"], f"{type(e).__name__}: {e}") from e
        else:
            avals[a["name"]] = None
            akw[a["name"]] = None
    import contextlib

    with warnings.catch_warnings(record=True) as caught:
        warnings.simplefilter("always")
        lvl = env.fut.type_warning_level(env.levels[sig["level"]]) if env.can_level else contextlib.nullcontext()
        with lvl:
            node = cls(cls.Attributes(**akw), cls.Inputs(**kw), out_variadic=inst["out_nvar"])
    if inst.get("vmut") and caller_list is not None:
        # the caller goes on using its own list after the node has been constructed
        from harness.props.c11 import mutate_list

        stranger = env.argument(ts.Tensor(np.float32, (2,)))
        keep.append(stranger)
        names[id(stranger)] = "in_STRANGER"
        mutate_list(caller_list, inst["vmut"], stranger)
    node._keep = keep
    return node, names, avals, caught


def classify_warnings(caught):
    out = []
    for w in caught:
        msg = str(w.message)
        if "does not type-check" in msg:
            out.append(("dropped", None))
        elif "is missing" in msg:
            m = re.search(r"for variable (\S+) of", msg)
            out.append(("missing", m.group(1) if m else None))
        elif "was not concrete" in msg:
            m = re.search(r"for variable (\S+) of", msg)
            out.append(("notConcrete", m.group(1) if m else None))
        else:
            out.append(("other:" + type(w.message).__name__, msg[:80]))
    return out


def same_value(np, a, b) -> bool:
    if isinstance(a, np.ndarray) and isinstance(b, np.ndarray):
        return bool(np.array_equal(a, b))
    if isinstance(a, list) and isinstance(b, list):
        return len(a) == len(b) and all(x is y for x, y in zip(a, b))
    return a is b


def conforms(env: Env, typ, val) -> bool:
    """independent conformance of a propagated value to its declared type (numpy only): a nested value
    may be of any type *compatible with* the declared element type (more specific shapes included)"""
    np = env.np
    ts = env.ts
    is_pv = lambda x: hasattr(x, "type") and hasattr(x, "value")  # noqa: E731
    if isinstance(typ, ts.Sequence):
        return isinstance(val, list) and all(is_pv(e) and conforms(env, typ.elem_type, e.value) and conforms(env, e.type, e.value) for e in val)
    if isinstance(typ, ts.Optional):
        return val is None or (is_pv(val) and conforms(env, typ.elem_type, val.value))
    if not isinstance(val, np.ndarray) or not isinstance(typ, env.ts.Tensor):
        return False
    if np.dtype(typ.dtype) != val.dtype:
        return False
    if typ.shape is None:
        return True
    if len(typ.shape) != val.ndim:
        return False
    return all(d is None or isinstance(d, str) or d == s for d, s in zip(typ.shape, val.shape))


# ----------------------------------------------------------------------------- one case
def emit_real(env: Env, node, names):
    onnx = env.onnx
    scope = env.Scope()
    scope.node[node] = "n"
    for v in node.inputs:
        if v is not None and v not in scope.var:
            scope.var[v] = names[id(v)]
    for i, v in enumerate(node.outputs):
        if v is not None:
            scope.var[v] = f"out_{i}"
    return node.to_onnx(scope, build_subgraph=lambda n, key, g: onnx.helper.make_graph([], key, [], []))


def rep_of(sig):
    """slot name -> name of the slot whose Var it shares (`inst["same"]`: groups of slots given one Var)"""
    m = {}
    for group in sig["inst"].get("same") or []:
        for s in group:
            m[s] = group[0]
    return m


def expected_slots(sig):
    rep = rep_of(sig)
    return [rep.get(x, x) for x in raw_slots(sig)]


def raw_slots(sig):
    inst = sig["inst"]
    ins = []
    for n, k in sig["inputs"]:
        if k == "single":
            ins.append(f"in_{n}")
        elif k == "optional":
            ins.append(f"in_{n}" if inst["present"][n] else "")
        else:
            ins += [f"in_{n}_{i}" for i in range(inst["nvar"])]
    return ins


def node_request(sig, avals_repr):
    inst = sig["inst"]
    rep = rep_of(sig)
    r = lambda x: rep.get(x, x)  # noqa: E731
    ins = []
    for n, k in sig["inputs"]:
        if k == "single":
            ins.append({"k": "s", "v": r(f"in_{n}")})
        elif k == "optional":
            ins.append({"k": "o", "v": r(f"in_{n}") if inst["present"][n] else None})
        else:
            ins.append({"k": "v", "v": [r(f"in_{n}_{i}") for i in range(inst["nvar"])]})
    outs, i = [], 0
    for n, k in sig["outputs"]:
        if k == "variadic":
            outs.append({"k": "v", "v": [f"out_{i + j}" for j in range(inst["out_nvar"] or 0)]})
            i += inst["out_nvar"] or 0
        else:
            outs.append({"k": "s" if k == "single" else "o", "v": f"out_{i}"})
            i += 1
    attrs = [[a["name"], avals_repr[a["name"]]] if avals_repr[a["name"]] is not None else None for a in sig["attrs"]]
    return {"kind": "node", "op": sig["name"], "domain": sig["domain"], "version": sig["version"],
            "inputs": ins, "outputs": outs, "attrs": attrs}


def strip(sig):
    return {k: v for k, v in sig.items()}


def run_case(ck, env: Env, sig, rng, reqs, metas, stats):
    try:
        _run_case(ck, env, sig, rng, reqs, metas, stats)
    except Exception as e:  # noqa: BLE001 - the harness could not observe; never a crash, never a verdict
        stats["unobservable"] = stats.get("unobservable", 0) + 1
        if stats["unobservable"] <= 3:
            ck.broken("correspondence", "custom-operator case not observable", f"{type(e).__name__}: {e}; sig={sig['name']}")


def _run_case(ck, env: Env, sig, rng, reqs, metas, stats):
    """Real instantiation + model-free judgement; queues the model requests."""
    th, vh = hook_dicts(env, sig)
    cls = make_class(env, sig, th, vh)
    case = {"kind": "node", "sig": strip(sig)}
    try:
        node, names, avals, caught = instantiate(env, sig, cls, rng)
    except AttrRejected as e:
        ck.failure(f"attrs:{e.kind}:rejected", f"{e.kind} does not accept a value of its documented Python type: {e}"[:300], case)
        return
    except Exception as e:  # noqa: BLE001
        ck.failure("hooks:construct-raises" if sig["thook"] in ("absent", "empty") else "node:construct-raises",
                   f"constructing the operator raised {type(e).__name__}: {e}"[:300], case)
        return
    keys = out_keys(sig)
    outs = list(node.outputs.get_vars().items())
    wl = classify_warnings(caught)
    stats["warnings"] += len(wl)
    # ---- oracle: hooks (model-free)
    real_keys = [k for k, _ in outs]
    if real_keys != keys:
        ck.failure("hooks:output-keys", f"output Vars {real_keys}, declared {keys}", case)
    for k, var in outs:
        want_t = (th or {}).get(k)
        if var.type != want_t:
            ck.failure("hooks:type-mismatch", f"output {k}: type {var.type} but the type hook says {want_t}", case)
        has_v = vh is not None and k in vh
        if has_v and want_t is not None and conforms(env, want_t, vh[k]):
            ok = var._value is not None and same_value(env.np, var._value.value, vh[k]) and var._value.type == want_t
            if not ok:
                ck.failure("hooks:value-missing", f"output {k}: value hook gave a conforming value but the Var has {var._value}", case)
        elif var._value is not None:
            why = "no hook entry" if not has_v else ("untyped Var" if want_t is None else "ill-typed value")
            ck.failure("hooks:value-unexpected", f"output {k}: Var carries value {var._value} ({why})", case)
    if sig["level"] >= 1:
        untyped = {k for k, v in outs if v.type is None}
        warned = {k for kind, k in wl if kind == "missing"}
        if untyped - warned:
            ck.failure("hooks:no-warning", f"untyped outputs {sorted(untyped - warned)} without a warning (level {sig['level']})", case)
    others = [w for w in wl if w[0].startswith("other")]
    if others:
        ck.failure("hooks:foreign-warning", f"unexpected warning {others[0]}", case)
    # ---- oracle: emission (model-free; through Node.to_onnx - the public path is compose_case)
    if env.Scope is None or not callable(getattr(node, "to_onnx", None)):
        return
    try:
        protos = emit_real(env, node, names)
    except (AttributeError, TypeError) as e:
        raise RuntimeError(f"Node.to_onnx/Scope not usable as expected: {e}") from e
    except Exception as e:  # noqa: BLE001
        ck.failure("emit:raises", f"to_onnx raised {type(e).__name__}: {e}"[:300], case)
        return
    avals_repr = {a["name"]: (given_repr(env, a["kind"], avals[a["name"]]) if avals[a["name"]] is not None else None)
                  for a in sig["attrs"]}
    if len(protos) != 1:
        ck.failure("emit:count", f"{len(protos)} NodeProtos for one application", case)
        return
    p = protos[0]
    if (p.op_type, p.domain) != (sig["name"], sig["domain"]):
        ck.failure("emit:op_type", f"emitted {p.domain}::{p.op_type}, declared {sig['domain']}::{sig['name']}", case)
    if list(p.input) != expected_slots(sig):
        ck.failure("emit:inputs", f"inputs {list(p.input)}, declared slots {expected_slots(sig)}", case)
    if len(p.output) != len(keys) or any(not o for o in p.output):
        ck.failure("emit:outputs", f"outputs {list(p.output)} for declared {keys}", case)
    got_attrs = [(a.name, attr_repr(env, a)) for a in p.attribute]
    want_attrs = [(a["name"], avals_repr[a["name"]]) for a in sig["attrs"] if avals_repr[a["name"]] is not None]
    if got_attrs != want_attrs:
        ck.failure("emit:attrs", f"attributes {got_attrs}, declared/given {want_attrs}", case)
    if node.opset_req != {(sig["domain"], sig["version"])}:
        ck.failure("import:opset_req", f"opset_req {node.opset_req}", case)
    stats["absent_optionals"] += sum(1 for x in p.input if x == "")
    stats["repeated_var"] = stats.get("repeated_var", 0) + int(bool(sig["inst"].get("same")))
    stats["variadic_mutated"] = stats.get("variadic_mutated", 0) + int(bool(sig["inst"].get("vmut")))
    stats["variadic_gen_or_tuple"] = stats.get("variadic_gen_or_tuple", 0) + int(sig["inst"].get("vform") in ("gen", "tuple"))
    stats["trailing_absent_kept"] += int(len(p.input) > 0 and p.input[-1] == "")
    stats["attrs"] += len(got_attrs)
    ck.count(("node", repr(sig["inputs"]), repr(sig["outputs"]), repr(sig["attrs"]), sig["thook"], sig["vhook"], repr(sig["inst"])))
    # ---- model requests
    reqs.append(node_request(sig, avals_repr))
    metas.append(("node", sig, {"proto": p, "req": sorted(node.opset_req)}))
    # inference request
    tok_t, tok_v = {}, {}

    def tt(t):
        for k, v in tok_t.items():
            if v == t:
                return k
        tok_t[f"T{len(tok_t)}"] = t
        return f"T{len(tok_t) - 1}"

    def tv(v):
        tok_v[f"V{len(tok_v)}"] = v
        return f"V{len(tok_v) - 1}"

    thook = [[k, tt(t)] for k, t in (th or {}).items()]
    vhook = [[k, tv(v)] for k, v in (vh or {}).items()]
    passing = []
    with warnings.catch_warnings():
        warnings.simplefilter("ignore")
        for tk, t in tok_t.items():
            for vk, v in tok_v.items():
                try:
                    if env.vp.PropValue(t, v).check():
                        passing.append([tk, vk])
                except Exception:  # noqa: BLE001
                    pass
    in_types = [None if v.type is None else tt(v.type) for v in node.inputs.get_vars().values()]
    concrete = [k for k, t in tok_t.items() if t._is_concrete]
    reqs.append({"kind": "infer", "outs": [{"key": k, "type": None, "value": None} for k in keys],
                 "thook": thook, "vhook": vhook, "check": passing, "level": sig["level"],
                 "concrete": concrete, "inTypes": in_types})
    real_outs = []
    for k, var in outs:
        t = None if var.type is None else next((tk for tk, t_ in tok_t.items() if t_ == var.type), "?")
        v = None
        if var._value is not None:
            v = next((vk for vk, v_ in tok_v.items() if v_ is (vh or {}).get(k) and v_ is tok_v[vk]
                      and same_value(env.np, v_, var._value.value)), "?")
        real_outs.append({"key": k, "type": t, "value": v})
    metas.append(("infer", sig, {"outs": real_outs, "warns": sorted((a, b or "") for a, b in wl)}))
    # ---- `Node.__init__` with its flags (`Custom.construct`): same class, attributes and inputs, hooks switched
    h_ = sig["version"] * 7 + sig["level"] * 3 + len(sig["attrs"]) + 5 * len(sig["inputs"]) + len(sig["name"])
    flags = [bool(h_ & 1), bool(h_ >> 1 & 1), bool(h_ >> 2 & 1)]  # a function of the signature: replays reproduce it
    try:
        import contextlib

        with warnings.catch_warnings(record=True) as caught2:
            warnings.simplefilter("always")
            lvl = env.fut.type_warning_level(env.levels[sig["level"]]) if env.can_level else contextlib.nullcontext()
            with lvl:
                node2 = cls(node.attrs, node.inputs, out_variadic=sig["inst"]["out_nvar"],
                            infer_types=flags[0], propagate_values=flags[1], validate=flags[2])
        outs2 = list(node2.outputs.get_vars().items())
    except Exception as e:  # noqa: BLE001
        ck.failure("hooks:construct-raises", f"constructing with infer_types={flags[0]}, propagate_values={flags[1]}, "
                   f"validate={flags[2]} raised {type(e).__name__}: {e}"[:300], case)
        outs2 = None
    if outs2 is not None:
        stats["construct_flag_cases"] = stats.get("construct_flag_cases", 0) + 1
        if [k for k, _ in outs2] != keys:
            ck.failure("hooks:output-keys", f"output Vars {[k for k, _ in outs2]}, declared {keys} (flags {flags})", case)
        for k, var in outs2:
            want_t = (th or {}).get(k) if flags[0] else None
            if var.type != want_t:
                ck.failure("hooks:type-mismatch", f"output {k}: type {var.type}, expected {want_t} with infer_types={flags[0]}", case)
            if var._value is not None and (not flags[1] or want_t is None or not (vh is not None and k in vh and conforms(env, want_t, vh[k]))):
                ck.failure("hooks:value-unexpected", f"output {k}: Var carries value {var._value} with flags {flags}", case)
        wl2 = classify_warnings(caught2)
        if not flags[2] and any(kind in ("missing", "notConcrete") for kind, _ in wl2):
            ck.failure("hooks:foreign-warning", f"validate=False but validation warnings {wl2}", case)
        decl = [[n, k == "variadic"] for n, k in sig["outputs"]]
        reqs.append({"kind": "construct", "decl": decl, "nvar": sig["inst"]["out_nvar"] or 0, "flags": flags,
                     "thook": thook, "vhook": vhook, "check": passing, "level": sig["level"],
                     "concrete": concrete, "inTypes": in_types})
        real2 = []
        for k, var in outs2:
            t = None if var.type is None else next((tk for tk, t_ in tok_t.items() if t_ == var.type), "?")
            v = None
            if var._value is not None:
                v = next((vk for vk, v_ in tok_v.items() if v_ is (vh or {}).get(k) and same_value(env.np, v_, var._value.value)), "?")
            real2.append({"key": k, "type": t, "value": v})
        metas.append(("infer", sig, {"outs": real2, "warns": sorted((a, b or "") for a, b in wl2)}))
    # ---- what the built graph carries for the outputs requested as results (`Custom.resultInfo`)
    in_vars = list(node.inputs.get_vars().values())
    if outs and all(v.type is not None and v.type._is_concrete for v in in_vars):
        rc = bool(len(sig["name"]) % 2 or sig["thook"] == "nonconcrete")
        req_pairs = [[f"r_{k}", k] for k, _ in outs]
        if len(req_pairs) > 1 and sig["version"] % 2:
            req_pairs = req_pairs[::-1]  # results requested in another order than declared
        results_case(ck, env, sig, case, th, dict(outs), req_pairs, rc, tok_t, thook, vhook, passing, reqs, metas, stats)


def results_case(ck, env, sig, case, th, outs, req_pairs, rc, tok_t, thook, vhook, passing, reqs, metas, stats):
    """`Graph.to_onnx(concrete=rc)` with the custom node's outputs as results: graph.output must carry
    exactly the types the hook declared; an output without hook entry cannot become a result."""
    try:
        results = __import__("spox._graph", fromlist=["results"]).results
        Type = env.ts.Type
    except Exception as e:  # noqa: BLE001
        ck.broken("correspondence", "spox._graph.results / Type not observable", f"{type(e).__name__}: {e}")
        return
    real = None
    try:
        with warnings.catch_warnings():
            warnings.simplefilter("ignore")
            gp = results(**{n: outs[k] for n, k in req_pairs}).to_onnx(concrete=rc)
        got = [(o.name, Type._from_onnx(o.type)) for o in gp.output]
        real = {"ok": [[n, next((tk for tk, t_ in tok_t.items() if t_ == t), "?")] for n, t in got]}
    except (TypeError, ValueError) as e:
        real = {"err": type(e).__name__, "msg": str(e)[:120]}
    except Exception as e:  # noqa: BLE001
        ck.broken("correspondence", "Graph.to_onnx with custom outputs as results not observable", f"{type(e).__name__}: {e}")
        return
    stats["results_cases"] = stats.get("results_cases", 0) + 1
    c2 = {**case, "kind": "node"}
    declared = {k: (th or {}).get(k) for _, k in req_pairs}
    if "ok" in real:
        for (n, t), (_, k) in zip(got, req_pairs):
            if declared[k] is None:
                ck.failure("results:untyped-accepted", f"output {k} has no type hook entry but is written out as result {n}: {t}", c2)
            elif t != declared[k]:
                ck.failure("results:type-mismatch", f"graph.output {n} carries {t}, the type hook declared {declared[k]} for {k}", c2)
            elif rc and not declared[k]._is_concrete:
                ck.failure("results:nonconcrete-accepted", f"output {k} declared {declared[k]} (no shape) is written out as result {n} although concrete=True", c2)
        if [n for n, _ in got] != [n for n, _ in req_pairs]:
            ck.failure("results:names", f"graph.output {[n for n, _ in got]} for requested {[n for n, _ in req_pairs]}", c2)
    elif all(t is not None and (t._is_concrete or not rc) for t in declared.values()):
        ck.failure("results:raises", f"all requested outputs have declared {'concrete ' if rc else ''}types but Graph.to_onnx raises {real['err']}: {real['msg']}", c2)
    # the same through the public entry point: spox.build (always concrete=True) -> ModelProto
    try:
        keep = getattr(next(iter(outs.values()))._op, "_keep", [])
        args_ = {f"a{i}": v for i, v in enumerate(keep) if type(getattr(v, "_op", None)).__name__ == "Argument"}
        pub = None
        try:
            with warnings.catch_warnings():
                warnings.simplefilter("ignore")
                model = env.spox.build(args_, {n: outs[k] for n, k in req_pairs})
            pub = [(o.name, Type._from_onnx(o.type)) for o in model.graph.output]
        except Exception as e:  # noqa: BLE001
            pub = e
        stats["results_public"] = stats.get("results_public", 0) + 1
        stats["results_public_built"] = stats.get("results_public_built", 0) + int(not isinstance(pub, Exception))
        all_ok = all(t is not None and t._is_concrete for t in declared.values())
        if isinstance(pub, Exception):
            if all_ok and isinstance(pub, (TypeError, ValueError)) and ("type" in str(pub).lower() or "shape" in str(pub).lower()) \
                    and "ok" in real:
                ck.failure("results:raises", f"spox.build with the custom outputs as results raises {type(pub).__name__}: {str(pub)[:150]}", c2)
        else:
            for (n, t), (_, k) in zip(pub, req_pairs):
                if declared[k] is None:
                    ck.failure("results:untyped-accepted", f"spox.build writes output {k} (no type hook entry) out as {n}: {t}", c2)
                elif t != declared[k]:
                    ck.failure("results:type-mismatch", f"model.graph.output {n} carries {t}, the type hook declared {declared[k]} for {k}", c2)
                elif not declared[k]._is_concrete:
                    ck.failure("results:nonconcrete-accepted", f"spox.build writes output {k} declared {declared[k]} (no shape) out as {n}", c2)
    except Exception as e:  # noqa: BLE001
        ck.broken("correspondence", "public results facet not observable", f"{type(e).__name__}: {e}")
    reqs.append({"kind": "results", "thook": thook, "vhook": vhook, "check": passing, "req": req_pairs,
                 "concrete": [k for k, t in tok_t.items() if t._is_concrete], "rc": rc})
    metas.append(("results", sig, real))


def compare_model(ck, kind, sig, real, model, env):
    if "error" in model:
        return f"driver error {model['error']}"
    if kind == "node":
        if len(model["nodes"]) != 1:
            return "model emits != 1 node"
        m, p = model["nodes"][0], real["proto"]
        if (m["op"], m["domain"]) != (p.op_type, p.domain):
            return f"op/domain {m['op']}/{m['domain']} vs {p.op_type}/{p.domain}"
        if m["inputs"] != list(p.input):
            return f"inputs model {m['inputs']} vs real {list(p.input)}"
        if m["outputs"] != list(p.output):
            return f"outputs model {m['outputs']} vs real {list(p.output)}"
        ra = [[a.name, attr_repr(env, a)] for a in p.attribute]
        if m["attrs"] != ra:
            return f"attrs model {m['attrs']} vs real {ra}"
        if [list(x) for x in real["req"]] != [m["opset"]]:
            return f"opset_req model {m['opset']} vs real {real['req']}"
        return None
    if model["outs"] != real["outs"]:
        return f"outs model {model['outs']} vs real {real['outs']}"
    mw = sorted((a, b if a != "dropped" else "") for a, b in model["warns"])
    if mw != real["warns"]:
        return f"warnings model {mw} vs real {real['warns']}"
    return None


# ----------------------------------------------------------------------------- composition / build
def find_nodes(graph, domain):
    """all NodeProtos of `domain` in a GraphProto, recursively through subgraph attributes"""
    out = []
    for n in graph.node:
        if n.domain == domain:
            out.append(n)
        for a in n.attribute:
            if a.type == 5:  # GRAPH
                out += find_nodes(a.g, domain)
            for g in a.graphs:
                out += find_nodes(g, domain)
    return out


def compose_case(ck, env: Env, sig, position: str, rng, opset_reqs, v2=None, deep_only=None, untyped=None):
    try:
        _compose_case(ck, env, sig, position, rng, opset_reqs, v2, deep_only, untyped)
    except AttrRejected:
        return
    except Exception as e:  # noqa: BLE001
        ck.broken("correspondence", f"composition case ({position}) not observable", f"{type(e).__name__}: {e}")


FEED_POSITIONS = ("feed-inline", "feed-std-inline", "inline-feed", "feed-if-inline")


def _compose_case(ck, env: Env, sig, position: str, rng, opset_reqs, v2=None, deep_only=None, untyped=None):
    """Place one application of a (typed) custom operator at `position` of a surrounding program,
    build, and inspect the ModelProto independently."""
    np, ts, op = env.np, env.ts, env.op
    sig = dict(sig)
    if untyped is None:
        untyped = position in FEED_POSITIONS and rng.random() < 0.5
    # `untyped`: a hook-less operator - its outputs are untyped Vars, which must still compose
    sig["thook"], sig["vhook"], sig["level"] = ("absent" if untyped else "total"), "absent", 0
    sig["inst"] = dict(sig["inst"], typed_inputs=True)
    th, vh = hook_dicts(env, sig)
    cls = make_class(env, sig, th, vh)
    if v2 is None:
        v2 = sig["version"] + (rng.choice([-1, 1, 2]) if sig["version"] > 1 else 1)
    if deep_only is None:
        deep_only = position != "top" and rng.random() < 0.4
    case = {"kind": "compose", "position": position, "sig": strip(sig), "v2": v2, "deep_only": deep_only, "untyped": untyped}
    slots = [s for s in expected_slots(sig) if s]
    args = {s: env.argument(ts.Tensor(np.float32, (2,))) for s in slots}
    cond = env.argument(ts.Tensor(np.bool_, ()))
    # a second class of the same domain at another version: the import must be the maximum
    sig2 = dict(sig, name=sig["name"] + "b", version=v2, thook="total",
                inputs=[("i0", "single")], outputs=[("o0", "single")], attrs=[],
                inst={"present": {}, "nvar": 0, "out_nvar": None, "attrs": {}, "typed_inputs": True})
    th2, _ = hook_dicts(env, sig2)
    cls2 = make_class(env, sig2, th2, None)
    extra_in = env.argument(ts.Tensor(np.float32, (1,)))
    built = {}
    stats_unobs = []

    def apply():
        node, names, avals, _ = instantiate(env, sig, cls, rng, given_inputs=args)
        built["avals"] = avals
        return node.outputs.get_vars()[out_keys(sig)[0]]

    try:
        with warnings.catch_warnings():
            warnings.simplefilter("ignore")
            inputs = dict(args)
            inputs["extra"] = extra_in
            outs = {}
            if not deep_only:  # otherwise the custom domain is used *only* inside the nested body
                n2 = cls2(cls2.Attributes(), cls2.Inputs(i0=extra_in))
                outs["z"] = n2.outputs.o0
            # the same operator NAME in another domain, at another version: identity is (domain, name), never name alone
            sig3 = dict(sig2, name=sig["name"], domain=sig["domain"] + ".twin", version=sig["version"] + 7)
            th3, _ = hook_dicts(env, sig3)
            cls3 = make_class(env, sig3, th3, None)
            outs["z3"] = cls3(cls3.Attributes(), cls3.Inputs(i0=extra_in)).outputs.o0
            if position == "top":
                y = apply()
                outs["y"] = op.identity(y)
            elif position == "if":
                inputs["cond"] = cond
                x0 = env.argument(ts.Tensor(np.float32, (1,)))
                inputs["x0"] = x0
                (r,) = op.if_(cond, then_branch=lambda: [apply()], else_branch=lambda: [x0])
                outs["y"] = r
            elif position == "if2":  # two bodies deep
                inputs["cond"] = cond
                x0 = env.argument(ts.Tensor(np.float32, (1,)))
                inputs["x0"] = x0
                (r,) = op.if_(
                    cond,
                    then_branch=lambda: list(op.if_(cond, then_branch=lambda: [apply()], else_branch=lambda: [x0])),
                    else_branch=lambda: [x0],
                )
                outs["y"] = r
            elif position in FEED_POSITIONS:
                # a small model to inline: Relu on a vector of any length
                a0 = env.argument(ts.Tensor(np.float32, (None,)))
                m0 = env.build({"a0": a0}, {"b0": op.relu(a0)})
                thru = lambda v: list(env.inline(m0)(v).values())[0]  # noqa: E731
                if position == "feed-inline":        # custom output -> inlined model
                    outs["y"] = thru(apply())
                elif position == "feed-std-inline":  # custom output -> standard operator -> inlined model
                    outs["y"] = thru(op.neg(apply()))
                elif position == "inline-feed":      # inlined results -> custom inputs; its output -> inlined model
                    args = {s: thru(v) for s, v in args.items()}
                    outs["y"] = thru(apply())
                else:                                # inside an If body, through an inlined model
                    inputs["cond"] = cond
                    x1 = env.argument(ts.Tensor(np.float32, (None,)))
                    inputs["x1"] = x1
                    (r,) = op.if_(cond, then_branch=lambda: [thru(apply())], else_branch=lambda: [x1])
                    outs["y"] = r
            elif position == "loop-if":  # If inside a Loop body
                m = op.const(np.array([2], np.int64))
                inputs["cond"] = cond
                res = op.loop(
                    m, v_initial=[extra_in],
                    body=lambda i, c, a: [op.const(np.array(True)),
                                          op.add(a, op.if_(cond, then_branch=lambda: [apply()], else_branch=lambda: [a])[0])],
                )
                outs["y"] = res[0]
            elif position == "loop":
                inputs["cond"] = cond
                m = op.const(np.array([2], np.int64))
                res = op.loop(m, v_initial=[extra_in],
                              body=lambda i, c, a: [op.const(np.array(True)), op.add(a, apply())])
                outs["y"] = res[0]
            elif position in ("function", "function-if"):
                # inside the body of a function (`to_function`), directly or in an If branch there
                to_function = __import__("spox._function", fromlist=["to_function"]).to_function
                keys_ = list(args)
                outer_args = dict(args)
                inputs["cond"] = cond

                def wrap(c_, *xs):
                    nonlocal args
                    args = dict(zip(keys_, xs))
                    if position == "function":
                        return [op.identity(apply())]
                    return list(op.if_(c_, then_branch=lambda: [apply()], else_branch=lambda: [op.const(np.zeros((1,), np.float32))]))

                # `to_function` reads the arity off the signature
                wrap.__signature__ = inspect.Signature(
                    [inspect.Parameter(f"p{i}", inspect.Parameter.POSITIONAL_OR_KEYWORD) for i in range(1 + len(keys_))])
                wrap = to_function(f"F{sig['name']}", "fn.c18")(wrap)
                (r,) = wrap(cond, *outer_args.values())
                args = outer_args
                outs["y"] = r
            elif position == "inline":
                a0 = env.argument(ts.Tensor(np.float32, (1,)))
                m0 = env.build({"a0": a0}, {"b0": op.relu(a0)})
                y = apply()
                (b,) = env.inline(m0)(y).values()
                (c,) = env.inline(m0)(extra_in).values()
                outs["y"] = op.add(b, c)
            model = env.build(inputs, outs)
            real_req = None
            try:
                real_req = sorted(env.results(**outs).with_arguments(*inputs.values())._get_opset_req())
            except Exception:  # noqa: BLE001 - only the correspondence needs it
                stats_unobs.append("Graph._get_opset_req")
    except AttrRejected:
        return
    except Exception as e:  # noqa: BLE001
        ck.failure(f"build:{position}:raises", f"building a program with the custom operator in position {position} raised "
                   f"{type(e).__name__}: {str(e)[:200]}", case)
        return
    nodes = [n for n in find_nodes(model.graph, sig["domain"]) if n.op_type == sig["name"]]
    if position in ("function", "function-if"):
        fps = [f for f in model.functions if f.domain == "fn.c18"]
        nodes = [n for f in fps for n in find_nodes(f, sig["domain"]) if n.op_type == sig["name"]]
        fimp = {o.domain: o.version for f in fps for o in f.opset_import}
        if len(fps) == 1 and (fimp.get(sig["domain"]) or 0) < sig["version"]:
            ck.failure(f"import:{position}:version", f"the FunctionProto imports {sig['domain']} at {fimp.get(sig['domain'])}, "
                       f"its body uses version {sig['version']}", case)
        # inside the function the inputs are the function's formals: compare the pattern of slots
        position_pattern = True
    else:
        position_pattern = False
    if len(nodes) != 1:
        ck.failure(f"build:{position}:count", f"{len(nodes)} {sig['name']} nodes in the model for one application", case)
        return
    p = nodes[0]
    want = expected_slots(sig)
    if position == "inline-feed" or position_pattern:
        # the inputs are produced by inlined models (generated names): compare the pattern of slots
        groups = {}
        got_pat = [None if not x else groups.setdefault(x, len(groups)) for x in p.input]
        groups = {}
        want_pat = [None if not x else groups.setdefault(x, len(groups)) for x in want]
        if got_pat != want_pat:
            ck.failure(f"build:{position}:verbatim", f"inputs {list(p.input)}, expected the slot pattern of {want}", case)
    elif list(p.input) != want:
        ck.failure(f"build:{position}:verbatim", f"inputs {list(p.input)}, expected {want}", case)
    avals = built["avals"]
    want_attrs = [(a["name"], given_repr(env, a["kind"], avals[a["name"]])) for a in sig["attrs"] if avals[a["name"]] is not None]
    got_attrs = [(a.name, attr_repr(env, a)) for a in p.attribute]
    if got_attrs != want_attrs:
        ck.failure(f"build:{position}:verbatim", f"attributes {got_attrs}, expected {want_attrs}", case)
    imports = {o.domain: o.version for o in model.opset_import}
    want_v = sig["version"] if deep_only else max(sig["version"], sig2["version"])
    if imports.get(sig["domain"]) != want_v:
        ck.failure(f"import:{position}:version", f"opset import for {sig['domain']} is {imports.get(sig['domain'])}; versions used "
                   f"{sig['version']}" + ("" if deep_only else f" and {sig2['version']}"), case)
    twins = [n for n in find_nodes(model.graph, sig["domain"] + ".twin") if n.op_type == sig["name"]]
    if len(twins) != 1 or list(twins[0].input) != ["extra"] or imports.get(sig["domain"] + ".twin") != sig["version"] + 7:
        ck.failure(f"import:{position}:twin", f"operator {sig['name']} of domain {sig['domain']}.twin (version {sig['version'] + 7}): "
                   f"{len(twins)} nodes, inputs {[list(t.input) for t in twins]}, import {imports.get(sig['domain'] + '.twin')}", case)
    if len([o for o in model.opset_import if o.domain == sig["domain"]]) != 1:
        ck.failure(f"import:{position}:duplicate", "several imports of the custom domain", case)
    if real_req is not None:
        opset_reqs.append((real_req, imports, position))
    ck.count(("compose", position, untyped, repr(sig["inputs"]), repr(sig["inst"])))


# ----------------------------------------------------------------------------- execution
def exec_case(ck, env: Env, position: str, k: float, stats):
    try:
        _exec_case(ck, env, position, k, stats)
    except Exception as e:  # noqa: BLE001
        ck.broken("correspondence", f"execution case ({position}) not observable", f"{type(e).__name__}: {e}")


def _exec_case(ck, env: Env, position: str, k: float, stats):
    """`ScaleAdd(X, B; k)` as a custom Node; the test model registers the domain as an ONNX function
    (Y = X * k + B) so that runtimes can execute it; compared with numpy."""
    np, ts, op, onnx = env.np, env.ts, env.op, env.onnx
    h = onnx.helper
    sig = {"name": "ScaleAdd", "domain": "my.fn", "version": 1,
           "inputs": [("X", "single"), ("B", "single")], "outputs": [("Y", "single")],
           "attrs": [{"name": "k", "kind": "AttrFloat32", "optional": False}],
           "thook": "total", "vhook": "absent", "level": 0}
    Var = env.Var
    Inputs = dataclasses.make_dataclass("Inputs", [("X", Var), ("B", Var)], bases=(env.F.BaseInputs,))
    Outputs = dataclasses.make_dataclass("Outputs", [("Y", Var)], bases=(env.F.BaseOutputs,))
    Attributes = dataclasses.make_dataclass("Attributes", [("k", env.A.AttrFloat32)], bases=(env.F.BaseAttributes,))
    cls = type("ScaleAdd", (env.N.Node,), {
        "op_type": env.N.OpType("ScaleAdd", "my.fn", 1), "Attributes": Attributes, "Inputs": Inputs, "Outputs": Outputs,
        "infer_output_types": lambda self: {"Y": self.inputs.X.type},
    })
    case = {"kind": "exec", "position": position, "k": k}
    x = env.argument(ts.Tensor(np.float32, (3,)))
    b = env.argument(ts.Tensor(np.float32, (3,)))
    cond = env.argument(ts.Tensor(np.bool_, ()))

    def apply(u, v):
        return cls(cls.Attributes(k=env.A.AttrFloat32(k, "k")), cls.Inputs(X=u, B=v)).outputs.Y

    try:
        with warnings.catch_warnings():
            warnings.simplefilter("ignore")
            if position == "top":
                y = op.neg(apply(op.relu(x), b))
            elif position == "if":
                (y,) = op.if_(cond, then_branch=lambda: [apply(x, b)], else_branch=lambda: [op.neg(x)])
            else:  # twice
                y = apply(apply(x, b), x)
            model = env.build({"x": x, "b": b, "cond": cond}, {"y": y})
    except Exception as e:  # noqa: BLE001
        ck.failure(f"exec:{position}:build-raises", f"{type(e).__name__}: {str(e)[:200]}", case)
        return
    kref = onnx.AttributeProto(name="value_float", ref_attr_name="k", type=onnx.AttributeProto.FLOAT)
    cnode = h.make_node("Constant", [], ["kk"])
    cnode.attribute.append(kref)
    fn = h.make_function("my.fn", "ScaleAdd", ["X", "B"], ["Y"],
                         [cnode, h.make_node("Mul", ["X", "kk"], ["t"]), h.make_node("Add", ["t", "B"], ["Y"])],
                         opset_imports=[h.make_operatorsetid("", 17)], attributes=["k"])
    model.functions.append(fn)
    xs = np.array([-1.5, 0.25, 2.0], np.float32)
    bs = np.array([0.5, -0.5, 4.0], np.float32)
    k32 = np.float32(k)

    def ref(c):
        if position == "top":
            return -(np.maximum(xs, 0) * k32 + bs)
        if position == "if":
            return (xs * k32 + bs) if c else -xs
        return (xs * k32 + bs) * k32 + xs

    for c in (True, False):
        feeds = {"x": xs, "b": bs, "cond": np.array(c)}
        feeds = {i.name: feeds[i.name] for i in model.graph.input}
        got = {}
        try:
            import onnx.reference

            got["reference"] = onnx.reference.ReferenceEvaluator(model).run(None, feeds)[0]
        except Exception as e:  # noqa: BLE001
            got["reference"] = e
        try:
            import onnxruntime as ort

            so = ort.SessionOptions()
            so.log_severity_level = 4
            got["ort"] = ort.InferenceSession(model.SerializeToString(), so, providers=["CPUExecutionProvider"]).run(None, feeds)[0]
        except Exception as e:  # noqa: BLE001
            got["ort"] = e
        want = ref(c)
        ran = {n: v for n, v in got.items() if not isinstance(v, Exception)}
        stats["exec_runs"] += len(ran)
        stats["exec_runtime_unsupported"] += len(got) - len(ran)
        wrong = {n: v for n, v in ran.items() if v.shape != want.shape or not np.allclose(v, want, rtol=1e-5, atol=1e-6)}
        # a failure only if the primary runtime (ORT) is wrong, or every runtime that ran is wrong
        if wrong and ("ort" in wrong or len(wrong) == len(ran)):
            ck.failure(f"exec:{position}:wrong", f"custom operator as function computed {wrong}, numpy says {want}", case)
        if not ran:
            ck.notes.append(f"exec {position}: no runtime could run the model: {got}")
        ck.count(("exec", position, k, c))


# ----------------------------------------------------------------------------- second inference call
def reinfer_case(ck, env: Env, sig, rng):
    """`Node.inference` called again with hooks that now answer differently: types and values that
    are already set must stay (the merge only fills what is missing)."""
    np, ts = env.np, env.ts
    sig = dict(sig, thook="total", vhook="total", level=0)
    th, vh = hook_dicts(env, sig)
    cls = make_class(env, sig, th, vh)
    case = {"kind": "reinfer", "sig": strip(sig)}
    with warnings.catch_warnings():
        warnings.simplefilter("ignore")
        try:
            node, _, _, _ = instantiate(env, sig, cls, rng)
        except AttrRejected:
            return None, []
        if not callable(getattr(node, "inference", None)):
            raise RuntimeError("Node.inference not observable")
        before = [(k, v.type, v._value) for k, v in node.outputs.get_vars().items()]
        cls.infer_output_types = lambda self: {k: ts.Tensor(np.int64, (7,)) for k in th}
        cls.propagate_values = lambda self: {k: np.full_like(v, 9.0) for k, v in vh.items()}  # conforming, different
        node.inference(True, True)
        after = [(k, v.type, v._value) for k, v in node.outputs.get_vars().items()]
    for (k, t0, v0), (_, t1, v1) in zip(before, after):
        if t0 is not None and t1 != t0:
            ck.failure("hooks:preset-type-overridden", f"output {k}: type {t0} replaced by {t1} on a second inference", case)
        if v0 is not None and v1 is not v0:
            ck.failure("hooks:preset-value-overridden", f"output {k}: value replaced on a second inference", case)
    ck.count(("reinfer", repr(sig["outputs"])))
    # the same through the model
    keys = out_keys(sig)
    return {"kind": "infer", "outs": [{"key": k, "type": "T0", "value": "V0"} for k in keys],
            "thook": [[k, "T1"] for k in keys], "vhook": [[k, "V1"] for k in keys], "check": [["T0", "V1"], ["T1", "V1"]],
            "level": 0, "concrete": ["T0", "T1"], "inTypes": []}, keys



# ----------------------------------------------------------------------------- relabelling (custom_composes)
def relabel_cases(ck, env: Env, rng, stats, n_random: int, only_aps=None):
    """Tie of `relabel_build` / `custom_composes`: abstract programs of the Builder model (C04's
    generators) are realised twice - with standard operators, and with user-defined operators in
    the place of a random subset of the Neg/Add/Sum applications - and everything the Builder decides
    (verdict, nested emission read from the ModelProto, graph_topo / arguments_of / scope_of /
    scope_own) must be identical; C04's model-free oracle judges the custom realisation."""
    try:
        from harness import lib_buildalg as L
        from harness import lib_buildgen as G
        from harness.props.c04 import _observe_all
    except Exception as e:  # noqa: BLE001
        ck.broken("correspondence", "Builder-model harness (C04) not available", f"{type(e).__name__}: {e}")
        return
    np, ts = env.np, env.ts
    Var = env.Var

    def mk_cls(name, fields):
        Inputs = dataclasses.make_dataclass("Inputs", fields, bases=(env.F.BaseInputs,))
        Outputs = dataclasses.make_dataclass("Outputs", [("y", Var)], bases=(env.F.BaseOutputs,))
        Attributes = dataclasses.make_dataclass("Attributes", [], bases=(env.F.BaseAttributes,))
        return type(name, (env.N.Node,), {
            "op_type": env.N.OpType(name, "my.relabel", 2), "Attributes": Attributes, "Inputs": Inputs,
            # elementwise stand-ins for Neg/Add/Sum: the output has the type of the first input,
            # whatever types C04's realiser works with
            "Outputs": Outputs, "infer_output_types": lambda self: (
                {"y": next(iter(self.inputs.get_vars().values())).type}
                if self.inputs.get_vars() and next(iter(self.inputs.get_vars().values())).type is not None else {}),
        })

    CNeg = mk_cls("CNeg", [("a", Var)])
    CAdd = mk_cls("CAdd", [("a", Var), ("b", Var)])
    CSum = mk_cls("CSum", [("xs", typing.Sequence[Var])])

    class OpProxy:
        def __init__(self, real, choose):
            self._real, self._choose = real, choose

        def __getattr__(self, k):
            return getattr(self._real, k)

        def neg(self, a):
            return CNeg(CNeg.Attributes(), CNeg.Inputs(a=a)).outputs.y if self._choose() else self._real.neg(a)

        def add(self, a, b):
            return CAdd(CAdd.Attributes(), CAdd.Inputs(a=a, b=b)).outputs.y if self._choose() else self._real.add(a, b)

        def sum(self, xs):
            return CSum(CSum.Attributes(), CSum.Inputs(xs=xs)).outputs.y if self._choose() else self._real.sum(xs)

    aps = []
    try:
        hm = [] if only_aps is not None else G.handmade_aps()
        aps += list(hm.values()) if isinstance(hm, dict) else [a[1] if isinstance(a, tuple) else a for a in hm]
    except Exception as e:  # noqa: BLE001
        ck.broken("correspondence", "handmade abstract programs not available", f"{type(e).__name__}: {e}")
    aps += only_aps or []
    for i in range(n_random):
        try:
            with warnings.catch_warnings():
                warnings.simplefilter("ignore")
                R0 = L.realise_script(G.random_script(rng, rng.randrange(4, 16), 0.1))
            aps.append(R0.ap)
        except Exception:  # noqa: BLE001 - not realisable: not a program
            continue
    # the one place where C04's realiser is hooked: its `_spox()` hands out the constructor namespace
    real_spox = getattr(L, "_spox", None)
    try:
        probe = real_spox()
        api_ok = callable(real_spox) and isinstance(probe, tuple) and len(probe) == 4 and all(
            callable(getattr(probe[1], k, None)) for k in ("neg", "add", "sum")) and callable(getattr(L, "realise_lowlevel", None))
    except Exception:  # noqa: BLE001
        api_ok = False
    if not api_ok:
        ck.broken("correspondence", "C04 generator API changed (compose facet): lib_buildalg._spox()/realise_lowlevel "
                  "no longer offer the constructor namespace the relabelling hooks into", "relabel tie skipped; no verdict")
        return

    def out_types(R):
        return [[getattr(v, "type", None) for v in nd.outputs.get_vars().values()] for nd in R.nodes]

    n_cmp = n_custom = 0
    unfaithful = 0
    try:
        for ap in aps:
            if not isinstance(ap, dict) or "nodes" not in ap:
                continue
            try:
                with warnings.catch_warnings():
                    warnings.simplefilter("ignore")
                    Rs = L.realise_lowlevel(ap)
                    std_types = out_types(Rs)
                    std = _observe_all(L, Rs, ap)
                    pseed = rng.randrange(1 << 30)
                    prng = __import__("random").Random(pseed)
                    sp, op_real, gr, AG = real_spox()
                    L._spox = lambda: (sp, OpProxy(op_real, lambda: prng.random() < 0.6), gr, AG)
                    try:
                        Rc = L.realise_lowlevel(ap)
                    finally:
                        L._spox = real_spox
                    k = sum(1 for nd in Rc.nodes if type(nd) in (CNeg, CAdd, CSum))
                    if k == 0:
                        continue
                    if out_types(Rc) != std_types:
                        # the stand-ins do not reproduce the standard operators' types for this
                        # program: the realisation is not faithful, nothing can be concluded from it
                        unfaithful += 1
                        if unfaithful <= 2:
                            ck.broken("correspondence", "C04 generator API changed (compose facet): the custom stand-ins for "
                                      "Neg/Add/Sum no longer reproduce the standard operators' output types",
                                      json.dumps(L.ap_for_model(ap))[:400])
                        continue
                    cus = _observe_all(L, Rc, ap)
            except Exception as e:  # noqa: BLE001
                stats["relabel_unrealisable"] = stats.get("relabel_unrealisable", 0) + 1
                continue
            n_cmp += 1
            n_custom += k
            case = {"kind": "relabel", "ap": ap, "pseed": pseed}
            for key, what in cus["oracle"]:
                if (key, what) not in std["oracle"]:
                    ck.failure(f"compose:{key}", "program with user-defined operators in it: " + what, case)
            for facet in ("verdict", "trace"):
                if std.get(facet) != cus.get(facet):
                    ck.failure(f"compose:relabel:{facet}",
                               f"the same program built with user-defined operators in place of {k} standard ones differs in "
                               f"{facet}: standard {str(std.get(facet))[:150]} vs custom {str(cus.get(facet))[:150]}", case)
            if std.get("facets") != cus.get("facets"):
                ck.broken("correspondence", "relabel_build: Builder internals differ between standard and custom realisation",
                          json.dumps({"ap": L.ap_for_model(ap), "std": std.get("facets"), "custom": cus.get("facets")})[:900])
            ck.count(("relabel", json.dumps(L.ap_for_model(ap), sort_keys=True)))
    finally:
        L._spox = real_spox
    if n_cmp == 0 and only_aps is None and len(aps) >= 5:
        ck.broken("correspondence", "C04 generator API changed (compose facet): none of the generated programs could be "
                  "realised with custom stand-ins", f"{len(aps)} programs, {stats.get('relabel_unrealisable', 0)} unrealisable")
    stats["relabel_unfaithful"] = unfaithful
    stats["relabel_programs"] = n_cmp
    stats["relabel_custom_nodes"] = n_custom


# ----------------------------------------------------------------------------- run
FORCED = [
    {"inputs": [("i0", "single"), ("i1", "optional"), ("i2", "optional")], "thook": "absent", "vhook": "absent", "level": 2},
    {"inputs": [("i0", "optional"), ("i1", "optional"), ("i2", "variadic")], "thook": "total", "vhook": "illtyped", "level": 2},
    {"inputs": [("i0", "single"), ("i1", "variadic")], "thook": "junk", "vhook": "junk", "level": 3},
    {"inputs": [("i0", "optional")], "thook": "partial", "vhook": "total", "level": 1},
    {"inputs": [("i0", "single"), ("i1", "optional"), ("i2", "single"), ("i3", "optional")], "thook": "nonconcrete", "vhook": "total", "level": 3},
]


def inline_custom_cases(ck, rng, stats, n, only=None, reqs=None, metas=None):
    """`harness/lib_c18inline.py`: models written at ai.onnx 11-17 holding user-defined operators
    next to nodes that need conversion, inlined into programs at opset 18-21 (public API only)."""
    from harness import lib_c18inline as L

    specs = [only] if only is not None else [L.gen_spec(rng, i) for i in range(n)]
    dist = {}
    # observation facet (tie H of `CustomInline.decide`): which models does spox hand to the converter?
    calls, conv, vc, orig = [], [], None, None
    try:
        import onnx.version_converter as vc

        orig = vc.convert_version

        def label(n):
            return f"{n.domain}::{n.op_type}:{','.join(n.output)}"

        def recording(model, target, *a, **k):
            res = orig(model, target, *a, **k)
            if model.graph.name != "spox__singleton_adapter_graph":
                calls.append((max([o.version for o in model.opset_import if o.domain in ("", "ai.onnx")], default=None), target))
                # snapshot of the converted graph BEFORE spox's `_initializers_to_constants` rewrites it in place
                conv.append(({"inputs": [i.name for i in res.graph.input], "initializers": [t.name for t in res.graph.initializer],
                              "nodes": [label(n) for n in res.graph.node]}, res))
            return res

        vc.convert_version = recording
    except Exception as e:  # noqa: BLE001
        ck.broken("correspondence", "onnx.version_converter not observable", f"{type(e).__name__}: {e}")
        vc = None
    try:
        _inline_custom_loop(ck, L, specs, dist, calls, only, reqs, metas, conv)
    finally:
        if vc is not None and orig is not None:
            vc.convert_version = orig
    stats["inline_custom"] = dist


def _inline_custom_loop(ck, L, specs, dist, calls, only, reqs, metas, conv=None):
    conv = conv if conv is not None else []
    for spec in specs:
        del calls[:]
        del conv[:]
        try:
            verdicts, info = L.run_spec(spec)
        except Exception as e:  # noqa: BLE001
            ck.broken("correspondence", "inline-custom case not observable (extension interface / onnx helpers)",
                      f"{type(e).__name__}: {e}; spec={spec}")
            continue
        if reqs is not None and info.get("imports") and "" in info["imports"]:
            real = {"decision": "convert", "src": calls[0][0], "tgt": calls[0][1]} if calls else {"decision": "keep"}
            reqs.append({"kind": "adapt", "imports": info["foreign_imports"], "domains": info["foreign_domains"],
                         "target": info["imports"][""]})
            metas.append(("adapt", spec, real))
        for pre, res in (conv[:2] if reqs is not None else []):
            # tie H of `CustomInline.initializersToConstants`: the same object after spox rewrote it in place
            post = {"nodes": [("Constant:" + n.output[0]) if (n.op_type == "Constant" and not n.domain and n.output
                                                              and n.output[0] in pre["initializers"]
                                                              and f"::Constant:{n.output[0]}" not in pre["nodes"])
                              else f"{n.domain}::{n.op_type}:{','.join(n.output)}" for n in res.graph.node],
                    "initializers": [t.name for t in res.graph.initializer]}
            reqs.append({"kind": "initconst", **pre})
            metas.append(("initconst", spec, post))
            dist["converted_with_initializers"] = dist.get("converted_with_initializers", 0) + int(bool(pre["initializers"]))
        ck.count(("inline-custom", repr(spec)))
        dist[spec["variant"]] = dist.get(spec["variant"], 0) + 1
        for c in spec["chain"]:
            if c[0] == "d":
                dist["step:" + c[1]] = dist.get("step:" + c[1], 0) + 1
        for key, what in verdicts:
            ck.failure(key, what, {"kind": "inline-custom", "spec": spec})
        if only is not None:
            print("foreign:", info.get("foreign_ops"), "built:", info.get("built_ops"), "imports:", info.get("imports"))


# ----------------------------------------------------------------------------- attribute histories (round 10b)
HIST_ATTRS = {"hz_f": "float", "hz_r": "float", "alpha": "float", "k": "float",
              "hz_n": "int", "axis": "int", "n": "int",
              "hz_s": "string", "mode": "string", "t": "string",
              "hz_fs": "floats", "scales": "floats", "gs": "floats",
              "hz_ns": "ints", "axes": "ints", "ms": "ints"}
HIST_CLASSES = [("HistA", "my.hist", 1), ("HistB", "other.hist", 2), ("HistA", "other.hist", 3)]


def history_case(ck, env: Env, rng, stats, steps=None):
    """custom operators of several classes / domains that share attribute NAMES, built one after the other in this
    process with values that are == but serialise differently; every AttributeProto compared bit-exactly with what
    was given to THAT node (harness/lib_attrhistory.py)."""
    from harness import lib_attrhistory as H

    np, A = env.np, env.A
    Var = env.Var
    akind = {"float": A.AttrFloat32, "int": A.AttrInt64, "string": A.AttrString, "floats": A.AttrFloat32s, "ints": A.AttrInt64s}
    classes = {}
    for nm, dom, ver in HIST_CLASSES:
        Inputs = dataclasses.make_dataclass("Inputs", [("X", Var)], bases=(env.F.BaseInputs,))
        Outputs = dataclasses.make_dataclass("Outputs", [("Y", Var)], bases=(env.F.BaseOutputs,))
        Attributes = dataclasses.make_dataclass(
            "Attributes", [(a, typing.Optional[akind[k]]) for a, k in HIST_ATTRS.items()], bases=(env.F.BaseAttributes,))
        classes[f"{nm}@{dom}:{ver}"] = type(nm, (env.N.Node,), {
            "op_type": env.N.OpType(nm, dom, ver), "Attributes": Attributes, "Inputs": Inputs, "Outputs": Outputs,
            "infer_output_types": lambda self: {"Y": self.inputs.X.type}})
    targets = [{"id": cid, "attrs": HIST_ATTRS} for cid in classes]
    by_kind = {}
    for a, k in HIST_ATTRS.items():
        by_kind.setdefault(k, []).append(a)
    if steps is None:
        steps = H.plan(rng, by_kind, targets)
    x = env.argument(env.ts.Tensor(np.float32, (2,)))
    built = []

    def attr_of(model, out_name, name):
        for _ in range(4):  # a requested result is introduced through Identity nodes
            nd = next((nd for nd in model.graph.node if out_name in nd.output), None)
            if nd is None:
                break
            if nd.op_type == "Identity" and nd.domain in ("", "ai.onnx"):
                out_name = nd.input[0]
                continue
            return next((a for a in nd.attribute if a.name == name), None)
        raise LookupError(f"no custom node produces {out_name}")

    def build_one(st, v):
        cls = classes[st["t"]]
        kw = {a: None for a in HIST_ATTRS}
        kw[st["name"]] = akind[st["kind"]](v, st["name"])
        y = cls(cls.Attributes(**kw), cls.Inputs(X=x)).outputs.Y
        model = env.build({"x": x}, {"y": y})
        ap = attr_of(model, "y", st["name"])
        built.append((st, y))
        return ap

    def build_all():
        model = env.build({"x": x}, {f"y{i}": y for i, (_, y) in enumerate(built)})
        return [attr_of(model, f"y{i}", st["name"]) for i, (st, _) in enumerate(built)]

    verdicts, n = H.run_history(np, env.onnx, steps, build_one, build_all)
    stats["history_steps"] = stats.get("history_steps", 0) + len(steps)
    stats["history_compared"] = stats.get("history_compared", 0) + n
    dist = stats.setdefault("history_by_kind", {})
    for st in steps:
        dist[st["kind"]] = dist.get(st["kind"], 0) + 1
    ck.count(("attr-history", len(steps)))
    seen = set()
    for i, phase, what in verdicts:
        key = f"history:attr-{phase}"
        if key in seen:
            continue
        seen.add(key)
        ck.failure(key, what, {"kind": "attr-history", "steps": steps, "step": i})


def run(ck: core.Check):
    from harness.props.c11 import inventory

    source_changed = inventory(ck, "_adapt.py")
    ck.lean(["SpoxModel.Props.C18"], audit="SpoxModel.Audit.C18")
    if ck.thorough:
        ck.leanchecker(["SpoxModel.Props.C18", "SpoxModel.Model.Custom", "SpoxModel.Model.CustomInline",
                        "SpoxModel.Generated.AdaptAttrInventory"])
    try:
        env = Env(ck)
    except Exception as e:  # noqa: BLE001
        ck.broken("correspondence", "spox (public API / extension interface) not importable", f"{type(e).__name__}: {e}")
        return
    rng = ck.rng
    stats = {"warnings": 0, "absent_optionals": 0, "trailing_absent_kept": 0, "attrs": 0,
             "exec_runs": 0, "exec_runtime_unsupported": 0, "thook": {}, "vhook": {}}
    reqs, metas = [], []
    n = ck.pick(400, 4000)
    sigs = []
    for i in range(n):
        force = dict(FORCED[i]) if i < len(FORCED) else None
        sig = gen_sig(rng, i, force)
        if force and "inputs" in force:  # re-draw the instantiation for the forced fields
            sig = gen_sig(rng, i, force)
        # exhaust absent-optional patterns on the forced shapes
        sigs.append(sig)
        stats["thook"][sig["thook"]] = stats["thook"].get(sig["thook"], 0) + 1
        stats["vhook"][sig["vhook"]] = stats["vhook"].get(sig["vhook"], 0) + 1
        run_case(ck, env, sig, rng, reqs, metas, stats)
    # all presence patterns of three optionals, with and without variadic tail
    for bits in range(8):
        for tail in (None, 0, 2):
            sig = gen_sig(rng, 10_000 + bits, {"inputs": [("i0", "optional"), ("i1", "optional"), ("i2", "optional")]
                                               + ([("i3", "variadic")] if tail is not None else [])})
            sig["inst"]["present"] = {f"i{j}": bool(bits >> j & 1) for j in range(3)}
            sig["inst"]["nvar"] = tail or 0
            sig["inst"].pop("same", None)
            run_case(ck, env, sig, rng, reqs, metas, stats)
            from harness.props.c11 import repeat_patterns

            for pat in repeat_patterns([s for s in raw_slots(sig) if s], rng, 0):
                sig2 = dict(sig, inst=dict(sig["inst"], same=pat))
                run_case(ck, env, sig2, rng, reqs, metas, stats)
    # field-shape grid: a variadic input (0..3 members) first / in the middle / last, optionals set / unset before
    # and after it, up to three optionals at the tail, with and without a leading single input: the emitted
    # input list is compared position by position with the declaration (`len(inputs)` = flattened positions)
    gi = 0
    for lead in (False, True):
        for nb in (0, 1):
            for na in (0, 1, 2, 3):
                names_b = [f"b{j}" for j in range(nb)]
                names_a = [f"t{j}" for j in range(na)]
                inputs = ([("s0", "single")] if lead else []) + [(n, "optional") for n in names_b] \
                    + [("xs", "variadic")] + [(n, "optional") for n in names_a]
                for bits in range(2 ** (nb + na)):
                    for nvar in (0, 1, 2, 3):
                        gi += 1
                        if not ck.thorough and (gi + ck.seed) % 2 and not (nvar >= 2 and na and not bits >> nb):
                            continue  # quick tier: every second one, but always "≥2 members, tail all unset"
                        sig = gen_sig(rng, 40_000 + gi, {"inputs": inputs})
                        sig["inst"]["present"] = {n: bool(bits >> j & 1) for j, n in enumerate(names_b + names_a)}
                        sig["inst"]["nvar"] = nvar
                        sig["inst"]["vform"] = ["list", "tuple", "gen"][gi % 3]
                        sig["inst"].pop("same", None)
                        sig["inst"].pop("vmut", None)
                        run_case(ck, env, sig, rng, reqs, metas, stats)
                        stats["shape_grid"] = stats.get("shape_grid", 0) + 1
                        if nvar >= 2 and na and gi % 3 == 0:
                            compose_case(ck, env, sig, "top", rng, [])
    # second inference
    re_meta = []
    for i in range(ck.pick(20, 100)):
        try:
            rq, keys = reinfer_case(ck, env, gen_sig(rng, 20_000 + i), rng)
        except Exception as e:  # noqa: BLE001
            ck.broken("correspondence", "second inference not observable", f"{type(e).__name__}: {e}")
            break
        if rq is not None:
            reqs.append(rq)
            metas.append(("reinfer", None, keys))
    # composition
    opset_reqs = []
    for i in range(ck.pick(40, 300)):
        sig = gen_sig(rng, 30_000 + i)
        for position in ("top", "if", "loop", "inline", "if2", "loop-if", "function", "function-if") + FEED_POSITIONS:
            compose_case(ck, env, sig, position, rng, opset_reqs)
    for req, imports, position in opset_reqs:
        reqs.append({"kind": "opsets", "reqs": [[d, v] for d, v in req]})
        metas.append(("opsets", None, (imports, position)))
    # max_opset_policy itself, on random requirement sets
    for _ in range(ck.pick(150, 1500)):
        rs = sorted({(rng.choice(["", "ai.onnx", "ai.onnx.ml", "my.domain", "com.acme"]), rng.randrange(0, 24))
                     for _ in range(rng.randrange(0, 9))})
        if env.policy is None:
            break
        try:
            real = dict(env.policy(set(rs)))
        except Exception as e:  # noqa: BLE001
            ck.broken("correspondence", "max_opset_policy not observable", f"{type(e).__name__}: {e}")
            break
        reqs.append({"kind": "opsets", "reqs": [[d, v] for d, v in rs]})
        metas.append(("opsets", None, (real, "random set")))
        ck.count(("policy", tuple(rs)))
    # the Builder does not look at the node's class (relabel_build / custom_composes)
    try:
        relabel_cases(ck, env, rng, stats, ck.pick(60, 600))
    except Exception as e:  # noqa: BLE001
        ck.broken("correspondence", "relabelling cases not observable", f"{type(e).__name__}: {e}")
    # a custom operator inside an inlined model, next to default-domain nodes that need opset adaptation
    # escalation: a changed `_adapt.py` gets the larger count even in the quick tier
    inline_custom_cases(ck, rng, stats, ck.pick(120, 1200) if not source_changed else 600, reqs=reqs, metas=metas)
    # execution
    for position in ("top", "if", "twice"):
        for k in (2.5, -0.75):
            exec_case(ck, env, position, k, stats)
    # histories of same-named attributes with ==-equal values (one process; placed last: uses the PRNG after everything else)
    try:
        for _ in range(ck.pick(2, 10)):
            history_case(ck, env, rng, stats)
    except Exception as e:  # noqa: BLE001
        ck.broken("correspondence", "attribute histories not observable", f"{type(e).__name__}: {e}")
    # ---- correspondence
    try:
        outs = ck.driver().ask_many("C18", reqs)
    except Exception as e:  # noqa: BLE001
        ck.broken("correspondence", "C18 driver", str(e))
        outs = []
    if len(outs) != len(reqs):
        ck.broken("correspondence", "C18 driver", f"{len(outs)} answers for {len(reqs)} requests")
    mism = 0
    for (kind, sig, real), m in zip(metas, outs):
        if kind in ("node", "infer"):
            try:
                d = compare_model(ck, kind, sig, real, m, env)
            except Exception as e:  # noqa: BLE001
                d = f"comparison not observable: {type(e).__name__}: {e}"
        elif kind == "results":
            if "ok" in real:
                d = None if m.get("ok") == real["ok"] else f"result infos: model {m} vs real {real}"
            else:
                want = {"TypeError": "untyped", "ValueError": "notConcrete"}.get(real["err"])
                d = None if m.get("err") == want else f"result infos: model {m} vs real {real}"
        elif kind == "initconst":
            d = None if (m.get("nodes"), m.get("initializers")) == (real["nodes"], real["initializers"]) else \
                f"_initializers_to_constants: model {str(m)[:300]} vs observed {str(real)[:300]}"
        elif kind == "adapt":
            d = None if m == real else f"adapt_inline decision: model {m} vs observed {real}"
        elif kind == "reinfer":
            want = [{"key": k, "type": "T0", "value": "V0"} for k in real]
            d = None if m.get("outs") == want and m.get("warns") == [] else f"second inference: model {m}"
        else:
            imports, position = real
            got = {d_: v for d_, v in m.get("imports", [])}
            d = None if got == imports else f"opset imports ({position}): model {got} vs real {imports}"
        if d:
            mism += 1
            if mism <= 4:
                ck.broken("correspondence", f"C18 model vs implementation ({kind})", f"{d}; sig={sig}")
    stats["model_requests"] = len(reqs)
    stats["model_mismatches"] = mism
    ck.cov["distribution"] = stats
    for s_ in sigs[:8:7]:
        ck.sample({k: v for k, v in s_.items()}, 2)
    ck.exhaustive = False
    ck.rule = (
        f"{n} seeded random signatures (0-2 single, 0-3 optional in any position, optional variadic tail; 1-3 outputs "
        "incl. optional/variadic; 0-4 attributes over 9 Attr kinds, optional or required; 3 domains x versions 1-6; "
        "type hook absent/total/partial/junk/non-concrete/empty x value hook absent/total/partial/junk/ill-typed/empty "
        "x warning level 0-3 x typed/untyped inputs) + all 8 presence patterns of 3 optionals x variadic tail; "
        "composition: each of 40 (300) signatures at top level / in an If branch / in a Loop body / next to inlined "
        "models / two Ifs deep / in an If inside a Loop body (in 40% of the nested cases the custom domain occurs only there), with a second class of the same domain at another version; execution: 3 positions x 2 attribute "
        "values x 2 conditions on onnx.reference and onnxruntime"
    )
    ck.assumptions += [
        "PropValue.check is a parameter of the inference model (its passing pairs are supplied to the model); the oracle judges value conformance independently with numpy",
        "onnx.reference / onnxruntime semantics of model-local functions (execution-level composition)",
    ]


def replay(ck: core.Check, doc) -> bool:
    if doc.get("kind") == "obligation" or "case" not in doc:
        from harness.props.c11 import inventory

        inventory(ck, "_adapt.py")
        res = ck.lean(["SpoxModel.Props.C18"], audit="SpoxModel.Audit.C18")
        return not res.ok
    env = Env(ck)
    c = doc["case"]
    rng = __import__("random").Random(doc.get("seed", 0))
    stats = {"warnings": 0, "absent_optionals": 0, "trailing_absent_kept": 0, "attrs": 0, "exec_runs": 0,
             "exec_runtime_unsupported": 0}

    def fix(sig):
        sig = dict(sig)
        sig["inputs"] = [tuple(x) for x in sig["inputs"]]
        sig["outputs"] = [tuple(x) for x in sig["outputs"]]
        return sig

    if c["kind"] == "node":
        run_case(ck, env, fix(c["sig"]), rng, [], [], stats)
    elif c["kind"] == "compose":
        compose_case(ck, env, fix(c["sig"]), c["position"], rng, [], c.get("v2"), c.get("deep_only"), c.get("untyped"))
    elif c["kind"] == "exec":
        exec_case(ck, env, c["position"], c["k"], stats)
    elif c["kind"] == "attr-history":
        history_case(ck, env, rng, stats, steps=c["steps"])
    elif c["kind"] == "reinfer":
        reinfer_case(ck, env, fix(c["sig"]), rng)
    elif c["kind"] == "inline-custom":
        inline_custom_cases(ck, rng, stats, 1, only=c["spec"])
    elif c["kind"] == "relabel":
        class _R:  # replays the recorded choice of relabelled nodes
            def randrange(self, n):
                return c["pseed"]
        relabel_cases(ck, env, _R(), stats, 0, only_aps=[c["ap"]])
    for f in ck.failures:
        print(f"{f['key']}: {f['what']}")
    key = doc.get("key")
    return any(f["key"] == key for f in ck.failures) if key else bool(ck.failures)
