"""C15 - value propagation is fail-safe under backend faults.

proof  : Props/C15.lean over Model/ValueProp.lean (construct_total, no_bad_value + check_sound,
         types_unaffected, off_is_transparent, raise_is_off; *_counterexample for the pinned shape)
tie H  : (1) conversions + check: every (declared type, raw result, pipeline) of a small universe,
         model vs. PropValue.from_ref_value / from_ort_value / check;
         (2) node construction under a *scripted backend* installed below spox (ReferenceEvaluator /
         InferenceSession replaced): outcome (exception class | attached value per output | number of
         "does not type-check" warnings) model vs. real constructor;
oracle : model-free, on the real code only: under every injected fault the constructor returns,
         every attached value conforms to the Var type (independent recursive checker), types are
         equal to / more permissive than the fault-free ones, programs built with propagation on and
         off have the same nodes and the same onnxruntime behaviour.
"""
from __future__ import annotations

import json
import multiprocessing
import warnings

from harness import core

PROGRAM_SIZE = 12


def _init_worker():
    core.use_repo_on_path()
    warnings.simplefilter("ignore")
    from harness import lib_valueprop as L

    L.single_threaded_ort()
    L.limit_memory()


def _prog_task(task):
    from harness import lib_vpprog as P

    try:
        if task["level"] == "mixed":
            from harness import lib_vpmixed as MX

            r = MX.check_mixed(task["case"], task["seed"])
        elif task["level"] == "program":
            r = P.c15_check_program(task["steps"], task["sel"], task["k"], task["kind"], task["at"], task["exc_id"])
        else:
            r = P.off_check_program(task["steps"], task["sel"], task["seed"])
    except Exception as e:  # noqa: BLE001
        r = {"failures": [], "infra": f"{type(e).__name__}: {str(e)[:200]}"}
    return r


def _node_oracle(spec, desc, real):
    """Model-free judgement of one node construction under a scripted backend."""
    from harness import lib_valueprop as L
    from harness import lib_vpnodes as N

    b = spec["backend"]
    if desc is None or real.get("unobservable"):
        return []  # the harness could not even build this node without a fault: nothing to judge
    if "raise" in b and not b["raise"]["isExc"]:
        return []  # KeyboardInterrupt & co. are not faults of the evaluator: out of scope
    kind, ctor = N.result_kind(spec, desc), N.declared_ctor(desc)
    out = []
    if "raised" in real:
        out.append((f"escape:{kind}:{ctor}",
                    f"[{spec['sel']}] constructing {spec['node']} raised {real['raised']} ({real.get('detail', '')[:80]})"))
        return out
    node = real["node"]
    for (key, var), ty0 in zip(node.outputs.get_vars().items(), (desc or {}).get("types", [])):
        if L.has_value(var):
            why = L.conforms_var(var)
            if why:
                out.append((f"bad-value:{kind}:{ctor}",
                            f"[{spec['sel']}] output {key} of {spec['node']} got a value not conforming to {var.type}: {why}"))
        if not L.more_permissive(var.type, ty0):
            out.append((f"type-changed:{kind}:{ctor}", f"output {key}: {var.type} under the fault, {ty0} without"))
    return out


def _conv_cases():
    from harness import lib_valueprop as L

    base = [{"fn": "conv", "sel": sel, "ty": ty, "val": val}
            for sel in ("reference", "onnxruntime") for ty in L.declared_universe() for val in L.result_universe()]
    # declared dims {0, 1, k, named, unknown} x actual extents {0, 1, k, k+1}, ranks 0-3, exhaustively; both pipelines
    # for ranks <= 2 and the container cases, alternating for rank 3
    grid = []
    for i, (ty, val) in enumerate(L.shape_grid()):
        rank3 = ty["t"] == "tensor" and len(ty["s"]) == 3
        for sel in ((("reference", "onnxruntime")[i % 2],) if rank3 else ("reference", "onnxruntime")):
            grid.append({"fn": "conv", "sel": sel, "ty": ty, "val": val})
    return base + grid


def _conv_real(req):
    from harness import lib_valueprop as L
    from spox._value_prop import PropValue

    f = PropValue.from_ref_value if req["sel"] == "reference" else PropValue.from_ort_value
    try:
        with warnings.catch_warnings():
            warnings.simplefilter("ignore")
            pv = f(L.mk_type(req["ty"]), L.mk_ref(req["val"]))
            return {"ok": L.canon_pv(pv), "check": bool(PropValue(L.mk_type(req["ty"]), pv.value).check())}
    except Exception as e:  # noqa: BLE001
        return {"raised": type(e).__name__}


def run(ck: core.Check):
    pool = multiprocessing.get_context("fork").Pool(12, initializer=_init_worker)
    try:
        _run(ck, pool)
    finally:
        pool.terminate()
        pool.join()


def _run(ck: core.Check, pool):
    from harness import lib_valueprop as L
    from harness import lib_vpnodes as N
    from harness import lib_vpprog as P

    from harness import lib_vpsources as S

    rng = ck.rng
    L.single_threaded_ort()
    # ---- program-level tasks first (they run in the worker processes while the rest goes on)
    n_prog = S.escalate(ck, 60, 600, 3)
    tasks = []
    for _ in range(n_prog):
        steps = P.gen_program(rng, PROGRAM_SIZE)
        sel = rng.choice(["reference", "onnxruntime"])
        for _ in range(ck.pick(4, 6)):
            tasks.append({"level": "program", "steps": steps, "sel": sel, "k": rng.randrange(1000),
                          "kind": rng.choice(P.FAULT_KINDS), "at": rng.choice(["init", "run"]),
                          "exc_id": rng.randrange(len(L.EXC_CLASSES))})
        tasks.append({"level": "off", "steps": steps, "sel": sel, "seed": rng.randrange(10**6)})
    # round 6: faults at the inlined legacy-opset models and at the dtype-sensitive / ml / sampling operators
    try:
        from harness import lib_vpdtype as DT
        from harness import lib_vplegacy as LG

        fams = [(LG.gen_legacy_program, t) for t in sorted(LG.TEMPLATES)] + [(DT.gen_dtype_program, t) for t in DT.TEMPLATES]
        for gen, t in fams:
            for _ in range(S.escalate(ck, 1, 8)):
                steps = gen(rng, t)
                sel = rng.choice(["reference", "onnxruntime"])
                for _ in range(ck.pick(2, 4)):
                    tasks.append({"level": "program", "steps": steps, "sel": sel, "k": rng.randrange(1000),
                                  "kind": rng.choice(P.FAULT_KINDS), "at": rng.choice(["init", "run"]),
                                  "exc_id": rng.randrange(len(L.EXC_CLASSES))})
                tasks.append({"level": "off", "steps": steps, "sel": sel, "seed": rng.randrange(10**6)})
    except Exception as e:  # noqa: BLE001
        ck.broken("oracle", "C15 legacy / dtype program generator", f"{type(e).__name__}: {str(e)[:200]}")
    # round 7: the BUILD must not depend on whether propagated values exist - mixed-opset programs (older-opset node
    # adapted next to a v19 / v20 / v21 companion), constant-EXPRESSION operands, user names = the operator's field keys;
    # built under NONE / REFERENCE / ONNXRUNTIME: same outcome, same nodes, same behaviour
    try:
        from harness import lib_vpmixed as MX

        for t in sorted(MX.TEMPLATES):
            for _ in range(S.escalate(ck, 4, 40)):
                case = MX.gen_mixed(rng, t)
                if rng.random() < 0.5:
                    case["fault"] = rng.choice(["raise", "wrongdtype", "wrongshape", "none", "truncated", "unknown-name", "scalar"])
                tasks.append({"level": "mixed", "case": case, "seed": rng.randrange(10**6)})
    except Exception as e:  # noqa: BLE001
        ck.broken("oracle", "C15 mixed-opset program generator", f"{type(e).__name__}: {str(e)[:200]}")
    # fixed part: EVERY exception class (Exception subclasses; BaseException subclasses propagate by design) at the first
    # and at a later backend call of a small program with a standard operator chain, a multi-output operator and an inlined model
    fixed_prog = [{"op": "const", "how": "value", "dt": "i64", "shape": [3], "data": [3, 1, 2]},
                  {"op": "const", "how": "init", "dt": "i64", "shape": [3], "data": [1, 1, 1]},
                  {"op": "add", "args": [0, 1]}, {"op": "inline", "args": [2, 0]}, {"op": "unique", "args": [2]},
                  {"op": "const", "how": "value", "dt": "i64", "shape": [1], "data": [-1]}, {"op": "reshape", "args": [3, 9]}]
    for i in range(len(L.EXC_CLASSES)):
        for sel in ("reference", "onnxruntime"):
            tasks.append({"level": "program", "steps": fixed_prog, "sel": sel, "k": i % 4, "kind": "raise", "at": ("run", "init")[(i // 4) % 2],
                          "exc_id": i})
    # fixed part (round 10b): exception VALUES (no-argument instances, empty / multi-line / huge / non-ASCII messages, format
    # directives, non-string args, required constructor args, __str__ raising or empty) at calls 1-4 of the fixed program
    for v in range(len(L.EXC_VALUES)):
        for sel in ("reference", "onnxruntime"):
            tasks.append({"level": "program", "steps": fixed_prog, "sel": sel, "k": v % 4, "kind": f"raisev:{v}",
                          "at": ("run", "init")[(v // 4) % 2], "exc_id": [0, 2, 1, 5, 6, 10, 33, 4][v % 8]})
    # fixed part (round 10b): programs whose FAULT-FREE output types contain 0-length dimensions (empty constant through
    # Identity, Slice to empty, NonZero of zeros, Shape of a scalar), the fault at that call = the right element type with
    # ONE extent changed (0 -> k, k -> 0, k -> k+-1) or rank +-1, and consumers (Shape / Concat / Identity) built afterwards
    C = lambda dt, shape, data, how="value": {"op": "const", "how": how, "dt": dt, "shape": shape, "data": data}  # noqa: E731
    zero_progs = [
        ([C("i64", [0, 2], []), {"op": "identity", "args": [0]}, {"op": "shape", "args": [1]}, {"op": "concat", "args": [1, 1]},
          {"op": "identity", "args": [3]}], 0, ["i64:3x2", "i64:1x2", "i64:0x3", "i64:0x1", "i64:0", "i64:0x2x1", "i64:0x2"]),
        ([C("i64", [3], [5, 6, 7]), C("i64", [1], [1]), C("i64", [1], [1], "init"), {"op": "slice", "args": [0, 1, 2]},
          {"op": "shape", "args": [3]}, {"op": "concat", "args": [3, 0]}], 0, ["i64:1", "i64:3", "i64:", "i64:0x1", "i64:0"]),
        ([C("i64", [2, 2], [0, 0, 0, 0]), {"op": "non_zero", "args": [0]}, {"op": "shape", "args": [1]},
          {"op": "identity", "args": [1]}], 0, ["i64:2x1", "i64:2x3", "i64:0x0", "i64:1x0", "i64:3x0", "i64:2", "i64:2x0"]),
        ([C("f32", [], [1.5]), {"op": "shape", "args": [0]}, {"op": "identity", "args": [1]}, {"op": "concat", "args": [1, 2]}],
         0, ["i64:1", "i64:2", "i64:", "i64:0x1", "i64:0"]),
        ([C("i64", [0, 2], [], "init"), C("i64", [1, 2], [1, 2]), {"op": "concat", "args": [0, 1]}, {"op": "identity", "args": [0]},
          {"op": "concat", "args": [3, 3]}, {"op": "shape", "args": [4]}], 1, ["i64:3x2", "i64:1x2", "i64:0x3", "i64:0x2"]),
    ]
    for steps, k, kinds in zero_progs:
        for kind in kinds:
            for sel in ("reference", "onnxruntime"):
                tasks.append({"level": "program", "steps": steps, "sel": sel, "k": k, "kind": "arr:" + kind, "at": "run", "exc_id": 0})
    # fixed cases: constants spox propagates by itself (no backend): strings as str / UTF-8 bytes, NULs, non-ASCII
    fixed_consts = [
        [{"op": "const", "how": "value_string", "data": "ü", "bytes": True}],
        [{"op": "const", "how": "value_strings", "data": ["ü", "a", "日本"], "bytes": True}],
        [{"op": "const", "how": "value_string", "data": "a\0b"}, {"op": "const", "how": "value_strings", "data": ["a\0", ""]}],
        [{"op": "const", "how": "value_string", "data": "hello", "bytes": True}, {"op": "identity", "args": [0]}],
    ]
    for steps in fixed_consts:
        for sel in ("reference", "onnxruntime"):
            tasks.append({"level": "off", "steps": steps, "sel": sel, "seed": 1})
    pending = pool.map_async(_prog_task, tasks, chunksize=4)

    # ---- translate (tie G): who touches a Var's propagated value (the build path must not)
    try:
        from translator import vp_value_readers

        ck.cov["value_readers"] = [list(e) for e in vp_value_readers.generate()]
    except Exception as e:  # noqa: BLE001
        ck.broken("translator", "vp_value_readers", f"{type(e).__name__}: {str(e)[:200]}")
    # ---- prove
    ck.lean(["SpoxModel.Props.C15"], audit="SpoxModel.Audit.C15")
    if ck.thorough:
        ck.leanchecker(["SpoxModel.Props.C15"])
    try:
        ck.driver()  # build the native driver before capping this process's memory (lake needs room)
    except Exception:  # noqa: BLE001 - reported again where the driver is used
        pass
    L.limit_memory(8.0)

    try:
        _correspond(ck, rng)
    except Exception as e:  # noqa: BLE001 - never let an unobservable internal crash the run
        ck.broken("correspondence", f"C15 scripted-backend correspondence not observable: {type(e).__name__}", core.fmt_exc())

    # ---- program-level oracle results
    try:
        results = pending.get(timeout=1500)
    except Exception as e:  # noqa: BLE001
        ck.broken("oracle", "C15 program oracle workers failed", f"{type(e).__name__}: {str(e)[:200]}")
        results = [{"failures": [], "infra": "worker pool failed"} for _ in tasks]
    pstats = {"fault_runs": 0, "effective_faults": 0, "off_checks": 0, "infra": 0, "by_kind": {}}
    shrunk: dict = {}
    for task, r in zip(tasks, results):
        ck.count(("prog", json.dumps(task, sort_keys=True)))
        if r.get("infra"):
            pstats["infra"] += 1
            ck.notes.append(f"program case skipped: {r['infra']}"[:200]) if len(ck.notes) < 5 else None
        if task["level"] == "mixed":
            pstats["mixed_opset_builds"] = pstats.get("mixed_opset_builds", 0) + 1
            pstats["mixed_adapted"] = pstats.get("mixed_adapted", 0) + r.get("stats", {}).get("adapted", 0)
            if r.get("stats", {}).get("graph_differs"):
                ck.broken("correspondence", "C15 the emitted nodes / initializers differ between propagation on and off",
                          f"mixed-opset template {task['case'].get('template')}: values reach the emitted graph")
        elif task["level"] == "program":
            pstats["fault_runs"] += 1
            pstats["effective_faults"] += int(bool(r.get("effective")))
            pstats["by_kind"][task["kind"]] = pstats["by_kind"].get(task["kind"], 0) + 1
        else:
            pstats["off_checks"] += 1
        for key, what in r["failures"]:
            if key not in shrunk and len(shrunk) < 6:  # shrink once per distinct failure, a handful at most
                shrunk[key] = _shrink(task, key)
            ck.failure(key, what, shrunk.get(key, task))
    if pstats["infra"] > len(tasks) // 10:
        ck.broken("oracle", "C15 program oracle starved", f"{pstats['infra']} of {len(tasks)} program cases could not be judged")
    ck.cov.update({"program_cases": pstats})
    ck.exhaustive = False
    ck.rule = (
        "conversions: every (declared type x raw result x {REFERENCE, ONNXRUNTIME}) of the universe; nodes: the same universe "
        "through a scripted-type Identity node, naming faults, every exception class at init/run, skip conditions, "
        "TopK/Split/inline name->field mapping, real constructors with Sequence/Optional outputs, + seeded random; "
        "programs: seeded random constant-expression programs with one fault at a random backend call; "
        "distinct by full case description"
    )
    ck.assumptions += [
        "the evaluator's faults are Exception subclasses or returned objects of the RefVal universe (KeyboardInterrupt/SystemExit propagate: out of scope, compared but not judged)",
        "VALUE_PROP_STRICT_CHECK is off (the library default; strict mode raises by design)",
        "type inference is a parameter of the node model (scripted-type nodes) - its own soundness is C05/C06",
    ]
    ck.trusted_base += [
        "harness/lib_valueprop.py: the scripted backend, the JSON canonicalisers and the independent conformance checker `conforms`",
    ]


def _safe(ck, facet, fn, default=None):
    """Observation of spox internals must never crash the run: an unobservable facet is `broken`."""
    try:
        return fn()
    except Exception as e:  # noqa: BLE001
        ck.broken("correspondence", f"{facet} not observable: {type(e).__name__}: {str(e)[:150]}")
        return default


def _correspond(ck, rng):
    from harness import lib_valueprop as L
    from harness import lib_vpnodes as N

    # ---- tie H (1): conversions and check
    conv = _conv_cases()
    node_cases = N.gen_cases(rng, ck.thorough)
    descs = [_safe(ck, "C15 node description", lambda c=c: N.describe(c)) for c in node_cases]
    reals = [_safe(ck, "C15 node construction outcome", lambda c=c: N.run_case(c), {"unobservable": True, "outs": [], "nwarn": 0, "node": None})
             for c in node_cases]
    node_reqs = [N.model_request(c, d) if d else {"fn": "bad"} for c, d in zip(node_cases, descs)]
    try:
        answers = ck.driver().ask_many("C15", conv + node_reqs)
    except Exception as e:  # noqa: BLE001
        ck.broken("correspondence", "C15 driver", str(e))
        answers = [None] * (len(conv) + len(node_reqs))
    mism = 0
    for req, m in zip(conv, answers[: len(conv)]):
        real = _safe(ck, "C15 PropValue conversions", lambda req=req: _conv_real(req))
        ck.count(("conv", json.dumps(req, sort_keys=True)))
        if real is None:
            continue
        if m is not None and m != real:
            mism += 1
            if mism <= 3:
                ck.broken("correspondence", "C15 conversions/check model-vs-implementation",
                          f"req={json.dumps(req)} model={json.dumps(m)} real={json.dumps(real)}")
    # ---- tie H (2): node construction under the scripted backend + model-free oracle on the same runs
    stats = {"raised": 0, "attached": 0, "dropped": 0, "no_desc": 0}
    nmism = 0
    for spec, desc, real, m in zip(node_cases, descs, reals, answers[len(conv):]):
        ck.count(("node", json.dumps(spec, sort_keys=True)))
        if "raised" in real:
            stats["raised"] += 1
        elif any(o["value"] for o in real["outs"]):
            stats["attached"] += 1
        else:
            stats["dropped"] += 1
        for key, what in _node_oracle(spec, desc, real):
            ck.failure(key, what, {"level": "node", "spec": spec})
        if desc is None or real.get("unobservable"):
            stats["no_desc"] += 1
            ck.broken("correspondence", "C15 node not observable (fault-free construction fails)", json.dumps(spec)[:300])
            continue
        if m is not None:
            why = L.compare_outcome(m, real)
            if why:
                nmism += 1
                if nmism <= 3:
                    ck.broken("correspondence", "C15 node construction model-vs-implementation",
                              f"spec={json.dumps(spec)} ctx={json.dumps(desc['ctx'])}: {why}")
    ck.sample({"node_case": node_cases[0], "real": {k: v for k, v in reals[0].items() if k != "node"}})
    ck.sample({"node_case": node_cases[-1], "real": {k: v for k, v in reals[-1].items() if k != "node"}})
    ck.cov.update({
        "conversion_cases": len(conv), "conversion_mismatches": mism,
        "node_cases": len(node_cases), "node_mismatches": nmism, "node_outcomes": stats,
        "result_universe": len(L.result_universe()), "declared_universe": len(L.declared_universe()) + 1,
        "exception_classes": [c.__name__ for c in L.EXC_CLASSES],
        "out_of_scope_classes": [c.__name__ for c in L.BASE_EXC_CLASSES],
    })



def _shrink(task, key):
    """Cut the program after the step the failure is about (the fault index counts earlier calls only)."""
    t = dict(task)
    if task["level"] == "program":
        from harness import lib_vpprog as P

        steps = list(task["steps"])
        while len(steps) > 1:
            cand = steps[:-1]
            r = _prog_task({**task, "steps": cand})
            if any(k == key for k, _ in r["failures"]):
                steps = cand
            else:
                break
        t["steps"] = steps
    return t


def replay(ck: core.Check, doc) -> bool:
    from harness import lib_vpnodes as N

    case = doc["case"]
    if case["level"] == "node":
        spec = case["spec"]
        desc = N.describe(spec)
        real = N.run_case(spec)
        fails = _node_oracle(spec, desc, real)
        if not fails:
            # the property quantifies over fault SEQUENCES: the same fault a second time in the same process
            # (a failure observed in a run after earlier faults - e.g. code that remembers a failed operator)
            real = N.run_case(spec)
            fails = [(k, w + " [second occurrence of the fault in the same process]") for k, w in _node_oracle(spec, desc, real)]
    else:
        _init_worker()
        r = _prog_task(case)
        if r.get("infra"):
            print("cannot judge:", r["infra"])
        fails = r["failures"]
    for key, what in fails:
        print(f"{key}: {what}")
    return bool(fails)
