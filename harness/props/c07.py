"""C07 - propagated constant values equal what the model computes.

proof  : Props/C07.lean over Model/VPHistory.lean + Model/ValueProp.lean: kept_value_conforms,
         value_is_input_independent (all construction histories), mapping_correct,
         constant_propagation_exact; check_sound comes from C15.
tie H  : (1) whole programs: generated constant-expression programs are run on the real library with
         recording sessions around the real evaluators (and, in half of them, one scripted fault); the
         recorded history (per node: inputs, names, types, what the evaluator returned) is run through
         `VP.run` by the driver and every node's attached values are compared;
         (2) node level: the name -> field mapping cases (TopK / Split / inline, permuted, truncated,
         duplicated names) under the scripted backend.
oracle : model-free: every valued Var is exposed as a model output, the model is built and executed
         under onnxruntime for two different bindings of the unrelated inputs; exact comparison for
         ints / bools / strings, 1e-6 relative for floats; value dtype / shape / container against
         Var.type (independent checker); no Argument in the Var's cone (own graph walk); the reported
         types of all exposed Vars (Reshape / Expand / Slice / Tile targets ...) against the run-time
         results. Under both backends REFERENCE and ONNXRUNTIME.
"""
from __future__ import annotations

import json
import multiprocessing
import warnings

from harness import core

PROGRAM_SIZE = 12


def _init_worker():
    core.use_repo_on_path()
    warnings.simplefilter("ignore")
    from harness import lib_valueprop as L

    L.single_threaded_ort()
    L.limit_memory()


def _task(task):
    from harness import lib_vpprog as P

    try:
        return P.c07_check_program(task["steps"], task["sel"], task["seed"])
    except Exception as e:  # noqa: BLE001
        return {"failures": [], "stats": {}, "infra": f"{type(e).__name__}: {str(e)[:200]}"}


def _shrink(task, key):
    steps = list(task["steps"])
    while len(steps) > 1:
        cand = steps[:-1]
        r = _task({**task, "steps": cand})
        if any(k == key for k, _ in r["failures"]):
            steps = cand
        else:
            break
    return {**task, "steps": steps}


def run(ck: core.Check):
    pool = multiprocessing.get_context("fork").Pool(12, initializer=_init_worker)
    try:
        _run(ck, pool)
    finally:
        pool.terminate()
        pool.join()


def _run(ck: core.Check, pool):
    from harness import lib_valueprop as L
    from harness import lib_vpnodes as N
    from harness import lib_vpprog as P

    from harness import lib_vpsources as S

    rng = ck.rng
    L.single_threaded_ort()
    # ---- oracle tasks (worker processes)
    tasks = []
    for _ in range(S.escalate(ck, 70, 700, 3)):
        steps = P.gen_program(rng, PROGRAM_SIZE)
        seed = rng.randrange(10**6)
        for sel in ("reference", "onnxruntime"):
            tasks.append({"level": "c07prog", "steps": steps, "sel": sel, "seed": seed})
    # derived types: one operator whose inference reads a constant operand, boundary constants, const / argument data
    n_der = S.escalate(ck, 6, 60, 3)
    for t in P.DERIVED_TEMPLATES:
        for _ in range(n_der):
            steps = P.gen_derived_program(rng, t)
            seed = rng.randrange(10**6)
            for sel in ("reference", "onnxruntime"):
                tasks.append({"level": "c07prog", "steps": steps, "sel": sel, "seed": seed, "derived": t})
    # inlined LEGACY-opset models fed with constants (semantics-changed operators, imported versions 6..21,
    # newer-opset companions), every template x imported version band
    try:
        from harness import lib_vplegacy as LG

        n_leg = S.escalate(ck, 4, 40, 3)
        for t in sorted(LG.TEMPLATES):
            vers = LG.TEMPLATES[t]
            n_t = n_leg * LG.WEIGHT.get(t, 1)
            for ver in (rng.sample(vers, min(n_t, len(vers))) + [rng.choice(vers) for _ in range(max(0, n_t - len(vers)))]):
                steps = LG.gen_legacy_program(rng, t, ver)
                seed = rng.randrange(10**6)
                for sel in ("reference", "onnxruntime"):
                    tasks.append({"level": "c07prog", "steps": steps, "sel": sel, "seed": seed, "legacy": t})
    except Exception as e:  # noqa: BLE001
        ck.broken("oracle", "C07 legacy-inline generator", f"{type(e).__name__}: {str(e)[:200]}")
    # operators whose reference implementation computes in another dtype than the ONNX operator (ml domain,
    # integer / float64 / float16 inputs): every KEPT value is compared with the runtime
    try:
        from harness import lib_vpdtype as DT

        n_dt = S.escalate(ck, 3, 30, 3)
        for t in DT.TEMPLATES:
            for _ in range(n_dt):
                steps = DT.gen_dtype_program(rng, t)
                seed = rng.randrange(10**6)
                for sel in ("reference", "onnxruntime"):
                    tasks.append({"level": "c07prog", "steps": steps, "sel": sel, "seed": seed, "dtype": t})
    except Exception as e:  # noqa: BLE001
        ck.broken("oracle", "C07 dtype-operator generator", f"{type(e).__name__}: {str(e)[:200]}")
    # fixed part: an inlined model that CONTAINS a sampling operator / control flow, all arguments constants, every call form
    for kind in ("sampling", "if_const_only", "loop_capture"):
        for how in ("kw", "mixed"):
            steps = [{"op": "const", "how": "value", "dt": "i64", "shape": [2], "data": [1, 2]},
                     {"op": "const", "how": "init", "dt": "i64", "shape": [2], "data": [3, 4]},
                     {"op": "inline_mix", "kind": kind, "args": [0, 1], "how": how}, {"op": "identity", "args": [3]}]
            for sel in ("reference", "onnxruntime"):
                tasks.append({"level": "c07prog", "steps": steps, "sel": sel, "seed": 1, "fixed": kind})
    pending = pool.map_async(_task, tasks, chunksize=4)

    # ---- translate (tie G): who overrides propagate_values
    try:
        from translator import vp_overrides

        ck.cov["propagate_values_overrides"] = [list(e) for e in vp_overrides.generate()]
    except Exception as e:  # noqa: BLE001
        ck.broken("translator", "vp_overrides", f"{type(e).__name__}: {str(e)[:200]}")
    try:
        from translator import vp_sampling

        ck.cov["propagation_guards"] = vp_sampling.generate()
    except Exception as e:  # noqa: BLE001
        ck.broken("translator", "vp_sampling", f"{type(e).__name__}: {str(e)[:200]}")
    # ---- prove
    ck.lean(["SpoxModel.Props.C07"], audit="SpoxModel.Audit.C07")
    if ck.thorough:
        ck.leanchecker(["SpoxModel.Props.C07"])
    try:
        ck.driver()  # build the native driver before capping this process's memory (lake needs room)
    except Exception:  # noqa: BLE001 - reported again where the driver is used
        pass
    L.limit_memory(8.0)

    try:
        _correspond(ck, rng)
    except Exception as e:  # noqa: BLE001 - an unobservable internal must not crash the run
        ck.broken("correspondence", f"C07 correspondence not observable: {type(e).__name__}", core.fmt_exc())

    # ---- oracle results
    try:
        results = pending.get(timeout=1500)
    except Exception as e:  # noqa: BLE001
        ck.broken("oracle", "C07 program oracle workers failed", f"{type(e).__name__}: {str(e)[:200]}")
        results = [{"failures": [], "stats": {}, "infra": "worker pool failed"} for _ in tasks]
    tot = {"valued": 0, "compared": 0, "derived_types": 0, "multi": 0, "infra": 0}
    shrunk: dict = {}
    for task, r in zip(tasks, results):
        ck.count(("prog", json.dumps(task, sort_keys=True)))
        for k, v in r.get("stats", {}).items():
            tot[k] = tot.get(k, 0) + v
        if r.get("infra"):
            tot["infra"] += 1
            if len(ck.notes) < 5:
                ck.notes.append(f"program case skipped: {r['infra']}"[:200])
        for key, what in r["failures"]:
            if key not in shrunk and len(shrunk) < 6:  # shrink once per distinct failure, a handful at most
                shrunk[key] = _shrink(task, key)
            ck.failure(key, what, shrunk.get(key, task))
    if tot.get("control_flow_valued"):
        ck.broken("correspondence", "C07 a control-flow node (If / Loop) carries a propagated value",
                  f"{tot['control_flow_valued']} Vars: the model knows no propagate_values for control flow")
    if tot["infra"] > len(tasks) // 10:
        ck.broken("oracle", "C07 program oracle starved", f"{tot['infra']} of {len(tasks)} program cases could not be judged")
    ck.sample({"program": tasks[0]["steps"][:6], "sel": tasks[0]["sel"]})
    ck.cov.update({
        "oracle_programs": len(tasks), "oracle_totals": tot,
        "derived_type_templates": P.DERIVED_TEMPLATES, "derived_type_programs": sum(1 for t in tasks if t.get("derived")),
        "legacy_inline_programs": sum(1 for t in tasks if t.get("legacy")),
        "dtype_operator_programs": sum(1 for t in tasks if t.get("dtype")),
    })
    ck.exhaustive = False
    ck.rule = (
        "seeded random constant-expression programs (constants incl. every value* attribute, initializers, arithmetic, "
        "shape ops, Reshape/Expand/Tile/Slice targets computed from constants, TopK/Split/Unique, sequences, optionals, "
        "inlined two-output model, If) x {REFERENCE, ONNXRUNTIME}; every valued Var compared with onnxruntime's result "
        "under two input bindings; distinct by program text"
    )
    ck.assumptions += [
        "onnxruntime's execution of the built model is the reference for 'what the model computes' (fold_correct's hypothesis: the value-prop backend agrees with the runtime on constant-fed singleton models)",
        "unsafe_cast / unsafe_reshape are outside the model (they copy a value onto a user-declared type by contract)",
        "type inference results are a parameter of the history model (their soundness is C05/C06; the oracle still compares all reported types with run-time results)",
    ]
    ck.trusted_base += [
        "harness/lib_vpprog.py: program generator, recording sessions, value comparison (exact / 1e-6), harness/lib_valueprop.py `conforms`",
    ]


def _correspond(ck, rng):
    from harness import lib_valueprop as L
    from harness import lib_vpnodes as N
    from harness import lib_vpprog as P

    # ---- tie H (1): whole histories
    hist_reqs, hist_real, hist_meta = [], [], []
    skipped = raised = 0
    for _ in range(ck.pick(60, 500)):
        steps = P.gen_program(rng, PROGRAM_SIZE, control_flow=False, random_ops=True)
        sel = rng.choice(["reference", "onnxruntime"])
        script = None
        fault = None
        if rng.random() < 0.5:
            fault = (rng.choice(P.FAULT_KINDS), rng.randrange(10), rng.randrange(len(L.EXC_CLASSES)))
            script = (lambda i, m, f=fault: P.make_fault(f[0], m, f[2]) if i == f[1] else None)
        at = rng.choice(["init", "run"])
        try:
            h = P.record_history(steps, sel, script, at)
        except Exception as e:  # noqa: BLE001
            ck.broken("correspondence", f"C07 history not observable: {type(e).__name__}: {str(e)[:150]}")
            continue
        for key, what in h.get("failures", []):  # kept_value_conforms, judged on the real run alone
            ck.failure(key, what, {"level": "hist", "steps": steps, "sel": sel, "fault": fault, "at": at})
        if "skip" in h:
            skipped += 1
            continue
        if "raised" in h:
            raised += 1
            ck.broken("correspondence", "C07 history: the real program raised", f"{h['raised']} fault={fault} sel={sel}")
            continue
        hist_reqs.append({"fn": "history", "steps": h["steps"]})
        hist_real.append(h["real"])
        hist_meta.append({"steps": steps, "sel": sel, "fault": fault})
    # ---- tie H (2): node-level mapping cases
    node_cases = [c for c in N.gen_cases(rng, False)
                  if c["node"]["kind"] in ("topk", "split", "inline", "inline0", "inline_noinput") or c["node"].get("op") in ("topk", "split", "unique")]
    def safe(fn, c):
        try:
            return fn(c)
        except Exception as e:  # noqa: BLE001
            ck.broken("correspondence", f"C07 mapping case not observable: {type(e).__name__}: {str(e)[:150]}")
            return None

    descs = [safe(N.describe, c) for c in node_cases]
    reals = [safe(N.run_case, c) for c in node_cases]
    node_reqs = [N.model_request(c, d) if d else {"fn": "bad"} for c, d in zip(node_cases, descs)]
    # ---- tie H (3): the feed side (to_ref_value / to_ort_value and the round trip), enumerated universe
    from harness import lib_vpfeed as F

    feed_reqs = F.cases(ck.thorough)
    try:
        answers = ck.driver().ask_many("C07", hist_reqs + node_reqs + feed_reqs)
    except Exception as e:  # noqa: BLE001
        ck.broken("correspondence", "C07 driver", str(e))
        answers = [None] * (len(hist_reqs) + len(node_reqs) + len(feed_reqs))
    feed_answers = answers[len(hist_reqs) + len(node_reqs):]
    answers = answers[: len(hist_reqs) + len(node_reqs)]
    fm = fdef = funobs = 0
    fdist: dict = {}
    for req, m in zip(feed_reqs, feed_answers):
        ck.count(("feed", json.dumps(req, sort_keys=True)))
        try:
            r, defect = F.real(req)
        except Exception as e:  # noqa: BLE001
            funobs += 1
            if funobs <= 2:
                ck.broken("correspondence", f"C07 feed conversions not observable: {type(e).__name__}: {str(e)[:150]}")
            continue
        back = r.get("back") or {}
        k = (f"{req['sel']}|{'checked' if r['check'] else 'unchecked'}|"
             f"{'back-ok' if 'ok' in back else 'back-' + str(back.get('raised', 'unfed'))}|{'in-class' if F.onnx_like(req['ty']) else 'outside'}")
        fdist[k] = fdist.get(k, 0) + 1
        why = F.compare(m, r)
        if why:
            fm += 1
            if fm <= 3:
                ck.broken("correspondence", "C07 feed (to_ref_value / to_ort_value round trip) model-vs-implementation",
                          f"req={json.dumps(req)[:400]}: {why}")
        if defect:
            fdef += 1
            if fdef <= 3:
                ck.broken("correspondence", "C07 feed round trip loses a kept value (real code, model-free)",
                          f"req={json.dumps(req)[:400]}: {defect}")
    ck.cov.update({"feed_cases": len(feed_reqs), "feed_mismatches": fm, "feed_roundtrip_defects": fdef,
                   "feed_input_distribution": dict(sorted(fdist.items()))})
    hm = nvals = 0
    for req, real, meta, m in zip(hist_reqs, hist_real, hist_meta, answers):
        ck.count(("hist", json.dumps(meta, sort_keys=True)))
        nvals += sum(1 for row in real for x in row if x["value"])
        if m is None:
            continue
        if "error" in m or len(m["nodes"]) != len(real) or any(a != b for a, b in zip(m["nodes"], real)):
            hm += 1
            if hm <= 3:
                where = next((i for i, (a, b) in enumerate(zip(m.get("nodes", []), real)) if a != b), None)
                detail = (f"node {where}: step={json.dumps(req['steps'][where])[:500]} model={json.dumps(m['nodes'][where])[:300]} "
                          f"real={json.dumps(real[where])[:300]}") if where is not None else json.dumps(m)[:300]
                ck.broken("correspondence", "C07 history model-vs-implementation", f"{meta['sel']} fault={meta['fault']} {detail}")
    nm = 0
    for spec, desc, real, m in zip(node_cases, descs, reals, answers[len(hist_reqs):]):
        ck.count(("node", json.dumps(spec, sort_keys=True)))
        if desc is None or m is None or real is None:
            continue
        why = L.compare_outcome(m, real)
        if why:
            nm += 1
            if nm <= 3:
                ck.broken("correspondence", "C07 name->field mapping model-vs-implementation",
                          f"spec={json.dumps(spec)}: {why}")

    ck.cov.update({
        "history_cases": len(hist_reqs), "history_skipped": skipped, "history_mismatches": hm,
        "history_values_compared": nvals, "mapping_cases": len(node_cases), "mapping_mismatches": nm,
    })


def replay(ck: core.Check, doc) -> bool:
    if doc["case"].get("level") == "node":  # kept_value_conforms witnesses need a scripted backend (shared with C15)
        from harness.props import c15

        return c15.replay(ck, doc)
    _init_worker()
    if doc["case"].get("level") == "hist":
        from harness import lib_vpprog as P

        c = doc["case"]
        f = c["fault"]
        script = (lambda i, m: P.make_fault(f[0], m, f[2]) if i == f[1] else None) if f else None
        h = P.record_history(c["steps"], c["sel"], script, c.get("at", "run"))
        for key, what in h.get("failures", []):
            print(f"{key}: {what}")
        if "raised" in h:
            print("program raised:", h["raised"])
        return bool(h.get("failures"))
    r = _task(doc["case"])
    if r.get("infra"):
        print("cannot judge:", r["infra"])
    for key, what in r["failures"]:
        print(f"{key}: {what}")
    return bool(r["failures"])
