"""C05 — constructor calls type-check eagerly and agree with ONNX strict inference.

proof  : Props/C05.lean over Model/Singleton.lean (singleton_alpha, eager_agrees, ...)
tie H  : random calls over every operator of every shipped module (schema-driven); the request the
         real constructor makes to onnx.shape_inference (model + flags + answer) is captured and
         compared field by field with the model's `singleton`; the Var types the constructor
         produced are compared with the model's `construct` fed with the captured answer; the
         oracle's hand-built model is compared with the model's `handModel`; `Inputs(...)` kind
         checks are compared with `kindsOk`.
oracle : model-free: the harness writes the NodeProto itself from the onnx.defs schema and the
         argument list, runs onnx strict inference, and compares accept/reject and types with what
         the constructor did (harness/lib_c05.py: oracle_*).
"""
from __future__ import annotations

import collections
import copy
import json
import random
from pathlib import Path

from harness import core
from harness import lib_c05 as L

FINDINGS_DIR = core.VERIF / "findings"


def _trace(obj):
    """C05_TRACE=<file>: write every value-propagation case before it runs (to find a native crash)"""
    import os

    path = os.environ.get("C05_TRACE")
    if path:
        with open(path, "w") as f:
            f.write(json.dumps(obj, default=str))


MAX_BROKEN = 40
_suppressed = [0]


def brk(ck, kind, name, detail=""):
    """ck.broken, capped: at most one item per name for 'not observable' notes, MAX_BROKEN in all."""
    same = sum(1 for b in ck.broken_items if b["name"] == name)
    if (same and kind != "correspondence") or (same and "observ" in name) or len(ck.broken_items) >= MAX_BROKEN:
        _suppressed[0] += 1
        return
    ck.broken(kind, name, detail)


# ------------------------------------------------------------------------------- the oracle
def _present_vars(call):
    out = []
    for a in call["args"]:
        for v in a if isinstance(a, list) else [a]:
            if v is not None and v not in out:
                out.append(v)
    return out


def judge(op: L.Op, call, sp=None):
    """Model-free verdict on one call. Returns (key, what, info); key None = property holds."""
    k, what, info = _judge(op, call, sp)
    if k is not None and not k.startswith("untyped-") and op.name == "Scan" and any(a != 0 for a in call["attrs"].get("scan_input_axes", [])):
        k += ":nonzero-scan-input-axes"  # (a family of its own: the constructor slices axis 0 whatever the attribute says)
    if k is not None and k.startswith("types-differ:"):
        given = set()
        for v in _present_vars(call):
            L.dim_params(call["vars"][v]["ty"], given)
        if any(d.startswith("unk__") for d in given):
            # a family of its own: the caller's own dimension name looks like a generated one and is stripped with them
            k = "types-differ:user-dim-named-unk__"
    return k, " ".join(what.split()), info


def _judge(op: L.Op, call, sp=None):
    if sp is None:
        sp = L.run_spox(op, call)
    info = {"spox": {"raised": sp["raised"], "msg": sp.get("msg"), "types": sp["types"]}}
    present = _present_vars(call)
    if any(call["vars"][v]["ty"] is None for v in present):
        info["class"] = "untyped"
        if sp["raised"] is not None:
            return (f"untyped-input-raises:{op.name}:{sp['raised']}",
                    f"{op.name}: an input of unknown type made the constructor raise {sp['raised']}", info)
        if any(t is not None for t in sp["types"]):
            return (f"untyped-input-typed-output:{op.name}",
                    f"{op.name}: an input type is unknown but an output Var got a type", info)
        return (None, "", info)
    outs = [L.oracle_run(op, call, False), L.oracle_run(op, call, True)]
    info["onnx"] = outs
    raised = sp["raised"] is not None
    patched = L.is_supplemented(op)
    info["class"] = ("rej" if all(o["reject"] for o in outs) else "acc" if not any(o["reject"] for o in outs) else "mixed") + (
        "/raise" if raised else "/ok")
    if patched:
        if not raised and all(o["reject"] for o in outs):
            return (f"patched-accepts-onnx-rejects:{op.name}",
                    f"{op.name} (inference supplemented by spox): the constructor accepted a call that ONNX strict inference rejects: {outs[0].get('msg', '')[:120]}",
                    info)
        if not raised:
            # accepted by both: the supplement may say MORE than ONNX (that is what it is for), never
            # less and nothing else; outputs the supplement does not speak about must be ONNX's own
            worst = None
            for o in outs:
                if o["reject"]:
                    continue
                rels = [L.ty_relation(a, b) for a, b in zip(sp["types"], o["types"])]
                if len(sp["types"]) != len(o["types"]):
                    rels.append("contradicts")
                if op.name == "Loop":  # the supplement is about the loop-carried outputs only
                    nc = len(call["args"][2] or [])
                    rels = [r if i < nc or r == "eq" else "differs" for i, r in enumerate(rels)]
                bad = [r for r in rels if r not in ("eq", "refines")]
                if not bad:
                    worst = None
                    break
                rank = ["differs", "contradicts", "untyped", "weaker"]
                w = min(bad, key=rank.index)
                if worst is None:
                    worst = (w, o, rels)
            if worst is not None:
                w, o, rels = worst
                info["relation_to_onnx"] = rels
                if w == "differs":
                    return (f"types-differ:{op.name}",
                            f"{op.name}: output Var types {sp['types']} differ from ONNX's {o['types']} on an output the supplement does not speak about", info)
                return (f"patched-types-{w}:{op.name}",
                        f"{op.name} (inference supplemented by spox): output Var types {sp['types']} vs ONNX's {o['types']}: "
                        + {"contradicts": "contradict what ONNX infers", "untyped": "an output is left untyped although every input is typed and ONNX infers a type",
                           "weaker": "forget part of what ONNX infers"}[w], info)
        return (None, "", info)
    if raised and all(o["reject"] for o in outs) and L.has_optional_outputs(op):
        # the constructor always asks for every optional output; is it that which ONNX refuses?
        bare = [L.oracle_run(op, call, False, False), L.oracle_run(op, call, True, False)]
        if not any(o["reject"] for o in bare):
            info["onnx_without_optional_outputs"] = bare
            return (f"optional-outputs-forced:{op.name}",
                    f"{op.name}: the constructor raised {sp['raised']}: it always requests every optional output and ONNX rejects that node ({outs[0].get('msg', '')[-90:]}), although the node without the optional outputs is accepted", info)
    for o in outs:
        if o["reject"] and raised:
            return (None, "", info)
        if not o["reject"] and not raised and o["types"] == sp["types"]:
            return (None, "", info)
    if all(o["reject"] for o in outs):
        return (f"accepts-but-onnx-rejects:{op.name}",
                f"{op.name}: the constructor returned normally but ONNX strict inference rejects the same node: {outs[0].get('msg', '')[:120]}", info)
    if not any(o["reject"] for o in outs) and raised:
        return (f"raises-but-onnx-accepts:{op.name}:{sp['raised']}",
                f"{op.name}: the constructor raised {sp['raised']} but ONNX strict inference accepts the same node", info)
    if not raised:
        o = next(o for o in outs if not o["reject"])
        return (f"types-differ:{op.name}",
                f"{op.name}: output Var types {sp['types']} differ from ONNX's {o['types']}", info)
    return (f"raises-but-onnx-accepts:{op.name}:{sp['raised']}",
            f"{op.name}: the constructor raised {sp['raised']} but ONNX strict inference accepts the same node", info)


def shrink(op, call, key):
    """Greedy: drop explicit attributes / optional inputs / constants while the same failure stays."""
    cur = copy.deepcopy(call)
    changed = True
    budget = 40
    while changed and budget > 0:
        changed = False
        cands = []
        for a in list(cur["attrs"]):
            c = copy.deepcopy(cur)
            del c["attrs"][a]
            cands.append(c)
        sch = op.schema()
        for i, a in enumerate(cur["args"]):
            if a is not None and not isinstance(a, list) and i >= sch.min_input:
                c = copy.deepcopy(cur)
                c["args"][i] = None
                cands.append(c)
        for i, v in enumerate(cur["vars"]):
            if v["const"] is not None:
                c = copy.deepcopy(cur)
                c["vars"][i]["const"] = None
                cands.append(c)
        for c in cands:
            budget -= 1
            try:
                k, _, _ = judge(op, c)
            except Exception:  # noqa: BLE001
                continue
            if k == key:
                cur, changed = c, True
                break
    return cur


# ------------------------------------------------------------------------- call histories
def _known_keys():
    return {f["key"] for f in core.load_findings() if f["property"] == "C05" and f.get("status") == "known"}


def judge_history(op, hist, known=None):
    """Run the calls of a history in this process on shared Vars; judge every call against fresh
    strict inference. A failure of a later call whose observed outcome repeats an earlier call's is
    keyed `history:stale-...` (state carried from call to call)."""
    known = _known_keys() if known is None else known
    sps = L.run_history(op, hist)
    out, seen = [], []
    for i, (call, sp) in enumerate(zip(L.history_calls(hist), sps)):
        key, what, info = judge(op, call, sp)
        outcome = (sp["raised"], json.dumps(sp["types"], sort_keys=True))

        def repeats(prev):
            if prev == outcome:
                return True
            if prev[0] is not None or sp["raised"] is not None:
                return False
            e, t = json.loads(prev[1]), sp["types"]
            m = min(len(e), len(t))
            return m > 0 and e[:m] == t[:m] and all(x is None for x in t[m:])

        if key is not None and key not in known and i > 0:
            if any(repeats(pv) for pv in seen):
                kind = "verdict" if (sp["raised"] is not None or key.startswith("accepts-")) else "types"
                key = f"history:stale-{kind}:{op.name}"
                what = (f"{op.name}: call #{i + 1} of a sequence in one process (differs from call #{[repeats(pv) for pv in seen].index(True) + 1} in: "
                        f"{hist.get('facets', ['?'] * 9)[i] if hist.get('facets', ['base'])[0] == 'base' else 'order reversed'}) "
                        f"got the earlier call's outcome instead of its own: " + what)
            else:
                key = "history:" + key
        if key is None:  # only a correctly answered earlier call can be "repeated" stalely
            seen.append(outcome)
        out.append((i, key, what, info, call, sp))
    return out


def merge_calls(calls):
    """independent calls (each with its own `vars`) -> one history over the concatenated Var list"""
    vars_, out = [], []
    for c in calls:
        off = len(vars_)
        vars_ += copy.deepcopy(c["vars"])
        sh = lambda a: None if a is None else [x + off for x in a] if isinstance(a, list) else a + off  # noqa: E731
        d = {k: copy.deepcopy(v) for k, v in c.items() if k != "vars"}
        d["args"] = [sh(a) for a in c["args"]]
        if c.get("sub") and c["op"] in ("If", "Loop"):  # these name outer-scope Vars; Scan/SequenceMap name body inputs
            d["sub"] = {k: [x if x == "same" else x + off for x in v] for k, v in c["sub"].items()}
        out.append(d)
    return {"vars": vars_, "calls": out, "facets": ["earlier call of this process"] * (len(out) - 1) + ["failing call"]}


_confirm_budget = {"single": 6, "pair": 6, "history": 8}  # per worker task


def confirm(case, key, purpose="single") -> bool:
    """Does the witness fail in a FRESH process (what `--replay` will do)? Bounded number of uses per
    purpose; when the budget is spent the answer is False (the witness is then not registered as a
    concrete failure, only reported as seen-in-this-process)."""
    import hashlib
    import os
    import subprocess

    if _confirm_budget[purpose] <= 0:
        return False
    _confirm_budget[purpose] -= 1
    doc = {"property": "C05", "kind": "input", "key": key, "case": case}
    path = core.WORK / ("confirm-" + hashlib.sha1(json.dumps(doc, sort_keys=True, default=str).encode()).hexdigest()[:10] + ".json")
    path.write_text(json.dumps(doc, default=str))
    env = dict(os.environ, PYTHONPATH=str(core.VERIF), PYTHONDONTWRITEBYTECODE="1")
    try:
        r = subprocess.run([core.PY, "-m", "harness.cli", "C05", "--replay", str(path)], cwd=core.VERIF, env=env,
                           capture_output=True, text=True, timeout=300)
        return r.returncode == 1
    except Exception:  # noqa: BLE001
        return False
    finally:
        try:
            path.unlink()
        except OSError:
            pass


def register(ck, op, key, what, call, earlier):
    """Register a failure found in the sweep with a witness that fails in a fresh process: the call
    alone if possible, otherwise the call preceded by earlier calls of this process (hidden state)."""
    single = {"op_key": op.key, "call": call}
    if _confirm_budget["single"] <= 0:
        # enough witnesses of this task were already confirmed in fresh processes: do not guess at a
        # "process state" explanation for a failure that was simply not re-run alone
        brk(ck, "oracle", f"failure seen, not re-run in a fresh process (confirmation budget of the task spent): {key}", what[:300])
        return
    if confirm(single, key):
        small = shrink(op, call, key)
        if small != call and confirm({"op_key": op.key, "call": small}, key):
            single = {"op_key": op.key, "call": small}
        ck.failure(key, what, single)
        return
    hkey = f"history:process-state:{op.name}"
    if any(f["key"] == hkey for f in ck.failures):
        return
    for j in range(len(earlier) - 1, max(-1, len(earlier) - 3), -1):  # most recent first
        h = merge_calls([earlier[j], call])
        if confirm({"op_key": op.key, "history": h}, hkey, "pair"):
            ck.failure(hkey, f"{op.name}: the call is judged correctly on its own but not after an earlier call of the same process: " + what,
                       {"op_key": op.key, "history": h})
            return
    if earlier:
        h = merge_calls(earlier[-30:] + [call])
        if confirm({"op_key": op.key, "history": h}, hkey, "pair"):
            ck.failure(hkey, f"{op.name}: the call is judged correctly on its own but not after the earlier calls of the same process: " + what,
                       {"op_key": op.key, "history": h})
            return
    brk(ck, "oracle", f"failure seen only inside this process: {key}", what + " | call=" + json.dumps(call)[:500])


def judge_flow(by_key, flow, known=None):
    """Run a cross-operator flow in this process; judge every call against fresh strict inference."""
    known = _known_keys() if known is None else known
    out = []
    for i, (c, sp) in enumerate(zip(flow["calls"], L.run_flow(by_key, flow))):
        if sp is None:
            continue
        op = by_key[L.call_op_key(c)]
        call = dict(c, vars=flow["vars"])
        key, what, info = judge(op, call, sp)
        out.append((i, op, key, what, info, call, sp))
    return out


def sub_flow(flow, idxs):
    """the flow restricted to some of its calls (results of dropped calls become plain typed arguments)"""
    keep = sorted(idxs)
    vars_ = copy.deepcopy(flow["vars"])
    for v in vars_:
        ro = v.get("result_of")
        if ro:
            if ro[0] in keep:
                v["result_of"] = [keep.index(ro[0]), ro[1]]
            else:
                del v["result_of"]
    return {"vars": vars_, "calls": [flow["calls"][i] for i in keep], "shared": flow.get("shared"), "kind": flow.get("kind")}


def register_flow(ck, flow, i, op, key, what, call):
    """witness for a failure of call #i of a flow: the call alone if that fails in a fresh process,
    otherwise the shortest prefix pair that does"""
    uses_result = any(flow["vars"][v].get("result_of") for a in call["args"] for v in (a if isinstance(a, list) else [a]) if v is not None)
    if not uses_result:
        alone = {k: v for k, v in call.items()}
        alone["vars"] = [dict(v, **({} if not v.get("result_of") else {})) for v in flow["vars"]]
        if confirm({"op_key": op.key, "call": alone}, key, "single"):
            ck.failure(key, what, {"op_key": op.key, "call": alone})
            return
    hkey = f"history:shared-var:{op.name}"
    if any(f["key"] == hkey for f in ck.failures):
        return
    what2 = (f"{op.name}: call #{i + 1} of a sequence of different operators sharing a Var ({flow.get('kind')}) is answered wrongly "
             f"only after the earlier calls: " + what)
    deps = {flow["vars"][v]["result_of"][0] for a in call["args"] for v in (a if isinstance(a, list) else [a])
            if v is not None and flow["vars"][v].get("result_of")}
    for j in range(i - 1, -1, -1):
        f2 = sub_flow(flow, deps | {j, i})
        if confirm({"flow": f2}, hkey, "pair"):
            ck.failure(hkey, what2, {"flow": f2})
            return
    f2 = sub_flow(flow, set(range(i + 1)))
    if confirm({"flow": f2}, hkey, "history"):
        ck.failure(hkey, what2, {"flow": f2})
        return
    brk(ck, "oracle", f"failure seen only inside this process: {key}", what[:600])


def shrink_history(op, hist, key):
    """keep only (one earlier call, the failing call) if that still fails with the same key"""
    n = len(hist["calls"])
    if n == 2:
        return hist
    for i in range(1, n):
        for j in range(i):
            h2 = {"vars": hist["vars"], "calls": [hist["calls"][j], hist["calls"][i]], "facets": ["first", "second"]}
            if confirm({"op_key": op.key, "history": h2}, key, "history"):
                return h2
    return hist


# ------------------------------------------------------------------------- correspondence
def _cmp(name, a, b, diffs):
    if a != b:
        diffs.append(f"{name}: real={json.dumps(a, default=str)[:300]} model={json.dumps(b, default=str)[:300]}")


def compare_singleton(real_m: dict, model_m: dict) -> list[str]:
    d: list[str] = []
    _cmp("n_nodes", real_m["n_nodes"], 1, d)
    for k in ("op", "domain", "inputs", "outputs", "attrs"):
        _cmp("node." + k, real_m["node"][k], model_m["node"][k], d)
    _cmp("node_name", real_m["node_name"], model_m["node_name"], d)
    _cmp("graph.input", real_m["ginputs"], model_m["ginputs"], d)
    _cmp("graph.initializer", real_m["inits"], model_m["inits"], d)
    _cmp("graph.output", real_m["goutputs"], model_m["goutputs"], d)
    _cmp("graph.output placeholders empty", real_m["goutputs_empty"], True, d)
    _cmp("opset_import", real_m["opset"], [model_m["opset"]], d)
    return d


def compare_hand(oracle_m: dict, model_m: dict) -> list[str]:
    d: list[str] = []
    for k in ("op", "domain", "inputs", "outputs"):
        _cmp("hand.node." + k, oracle_m["node"][k], model_m["node"][k], d)
    _cmp("hand.graph.input", oracle_m["ginputs"], model_m["ginputs"], d)
    _cmp("hand.graph.initializer", oracle_m["inits"], model_m["inits"], d)
    _cmp("hand.graph.output", oracle_m["goutputs"], model_m["goutputs"], d)
    return d


def out_keys(cls, call):
    import dataclasses

    keys = []
    for f in dataclasses.fields(cls.Outputs):
        if cls.Outputs._get_field_type(f).value == 2:
            keys += [f"{f.name}_{i}" for i in range(call.get("out_count") or 0)]
        else:
            keys.append(f.name)
    return keys


def correspond_case(ck, op, call, sp, ans, stats):
    try:
        _correspond_case(ck, op, call, sp, ans, stats)
    except Exception as e:  # noqa: BLE001  (an internal we read has changed: report, never crash)
        stats["not_observable"] += 1
        brk(ck, "correspondence", "singleton/construct not observable", f"{type(e).__name__}: {e}"[:300])


def _correspond_case(ck, op, call, sp, ans, stats):
    """Compare the model's answer `ans` with what the real constructor did (`sp`)."""
    cls = sp.get("node_cls") or L.node_class(op)
    name = f"{op.key}"
    if "error" in ans:
        brk(ck, "correspondence", "driver:" + name, ans["error"])
        return
    d: list[str] = []
    if not ans["wf"]:
        d.append("field keys of the call are not pairwise distinct / non-empty (model hypothesis WF)")
    if ans["clash"]:
        d.append("model predicts a ScopeError in the singleton scope")
    if not ans["kinds_ok"]:
        d.append("model's kindsOk rejects a call the real Inputs(...) accepted")
    patched = L.is_patched(cls)
    cap = sp["captured"]
    if cap:
        stats["singleton_compared"] += 1
        _cmp("infer_shapes flags (check_type, strict_mode, data_prop)", cap[0]["flags"], [True, True, True], d)
        if cap[0]["model"] is None:
            d.append("infer_shapes was not given a ModelProto")
        else:
            d += compare_singleton(L._model_json(cap[0]["model"]), ans["singleton"])
        if len(cap) != 1:
            d.append(f"infer_shapes called {len(cap)} times")
    if patched and L.calls_onnx(cls) and not ans["untyped"] and not cap:
        d.append("supplemented operator (its override calls the standard routine) did not request ONNX inference")
    if not patched:
        if ans["untyped"] and cap:
            d.append("an input is untyped but inference was still requested")
        if not ans["untyped"] and not cap:
            d.append("all inputs typed but inference was not requested")
        if "construct" in ans or ans["untyped"]:
            stats["construct_compared"] += 1
            if ans["untyped"]:
                exp = [[k, None] for k in out_keys(cls, call)]
            else:
                exp = ans["construct"]
            other = cap and "result" in cap[0] and any(L.has_other(L.proto_to_ty(o.type)) for o in cap[0]["result"].graph.output)
            if other:
                stats["construct_skipped_unrepresentable"] += 1
            elif exp == "inference":
                # whatever the judgement raised propagates out of the constructor call
                if sp["raised"] != cap[0].get("exc"):
                    d.append(f"model: {cap[0].get('exc')} (raised by inference) at the call; real: {sp['raised'] or 'returned ' + json.dumps(sp['types'])}")
            else:
                if sp["raised"] is not None:
                    d.append(f"model: returns {json.dumps(exp)[:200]}; real raised {sp['raised']}: {sp.get('msg', '')[:120]}")
                else:
                    _cmp("output Var types", [[k, t] for k, t in zip(out_keys(cls, call), sp["types"])], exp, d)
    # Type._to_onnx / Type._from_onnx vs the model's toProto / fromProto
    if sp.get("proto_obs_error"):
        brk(ck, "correspondence", "not observable: Type._to_onnx / Type._from_onnx", sp["proto_obs_error"])
    if sp.get("proto_obs") is not None and "to_proto" in ans:
        stats["type_proto_compared"] += len(sp["proto_obs"]["to"]) + len(sp["proto_obs"]["from"])
        _cmp("Type._to_onnx of the operand types (field presence included)", sp["proto_obs"]["to"], ans["to_proto"], d)
        _cmp("Type._from_onnx of the TypeProtos ONNX answered with", sp["proto_obs"]["from"], ans.get("from_proto", []), d)
    # ONNX's answer for the ml operators whose inference spox replaces vs the model's onnxMlElem
    if "ml_onnx" in ans and not ans["untyped"]:
        o = L.oracle_run(op, call)
        if not o["reject"] and o["types"] and isinstance(o["types"][0], dict) and "t" in o["types"][0]:
            stats["ml_onnx_compared"] += 1
            x = call["vars"][call["args"][0]]["ty"]
            exp_shape = x["s"] if op.name == "Binarizer" else None
            _cmp("ONNX's answer for an ml operator (element type, shape)", [o["types"][0]["t"], o["types"][0]["s"]], [ans["ml_onnx"], exp_shape], d)
    # loop / scan / sequence_map / if_: the types the body's formal arguments were declared with
    if "formals" in ans and sp.get("node") and "formals" in sp["node"]:
        stats["body_formals_compared"] += 1
        _cmp("declared types of the body's formal arguments", sp["node"]["formals"]["real"], ans["formals"], d)
    # the supplements that run the standard routine first: their own rules on top of its answer
    if "loop_own" in ans and sp["raised"] is None:
        stats["loop_own_compared"] += 1
        _cmp("Loop supplement (carried outputs: common type of body result and declared argument; other outputs: the standard routine's)",
             [[k, t] for k, t in zip(out_keys(cls, call), sp["types"])], ans["loop_own"], d)
    if "own_refines_std" in ans:
        # the hypothesis of supplemented_refines_partial (the own rules only refine the standard answer), per call
        stats["own_refines_std_checked"] += 1
        if ans["own_refines_std"] is not True:
            d.append("hypothesis of supplemented_refines_partial fails on this call: the supplement's own rules do not refine the standard routine's answer")
    if "compress_own" in ans:
        stats["compress_own_compared"] += 1
        if ans["compress_own"] == "inference":
            if sp["raised"] != "InferenceError":
                d.append(f"model compressOwn: InferenceError; real: {sp['raised'] or 'returned ' + json.dumps(sp['types'])}")
        elif sp["raised"] is not None:
            d.append(f"model compressOwn: {json.dumps(ans['compress_own'])}; real raised {sp['raised']}: {sp.get('msg', '')[:120]}")
        else:
            _cmp("Compress supplement", sp["types"], [ans["compress_own"]], d)
    # value propagation: types as `construct`, a value only on a typed output
    if "vp" in ans and ans["vp"] != "error" and sp["raised"] is None and sp.get("has_value") is not None and not patched:
        stats["value_prop_compared"] += 1
        _cmp("output Var (type, has value) under value propagation",
             [[k, t, hv] for k, t, hv in zip(out_keys(cls, call), sp["types"], sp["has_value"])],
             [[k, t, v is not None] for k, t, v in ans["vp"]], d)
    # round 10: every attached ndarray value passes the model's `propCheck` against the type `construct` reports
    if "values_fit" in ans and sp["raised"] is None and not patched:
        for k, fit in ans["values_fit"]:
            stats["attached_values_checked"] += 1
            if not fit:
                f = [x for x in (sp.get("value_facts") or []) if isinstance(x, list)]
                d.append(f"output {k} carries a value that does not fit the reported type (model propCheck false): value facts {f}, types {json.dumps(sp['types'])[:200]}")
    # the oracle's hand-built model is the model's `handModel`
    if not ans["untyped"] and not call.get("sub"):
        try:
            om = L._model_json(L.oracle_model(op, call))
            d += compare_hand(om, ans["hand"])
            stats["hand_compared"] += 1
        except Exception as e:  # noqa: BLE001
            d.append(f"oracle model could not be built: {type(e).__name__}: {e}")
    if d:
        stats["mismatches"] += 1
        brk(ck, "correspondence", f"singleton/construct vs model: {name}", "; ".join(d)[:1400] + " | call=" + json.dumps(call)[:600])


def kind_cases(rng, ops, n):
    """Ill- and well-kinded argument lists handed directly to the real `Inputs(...)` dataclass."""
    import dataclasses

    from spox import Tensor, argument
    import numpy as np

    x = argument(Tensor(np.float32, (2,)))
    cases = []
    cand = [o for o in ops if not o.shared_with]
    for _ in range(n):
        op = rng.choice(cand)
        cls = L.node_class(op)
        if cls is None:
            raise LookupError(f"node class of {op.key} not found")
        fields = dataclasses.fields(cls.Inputs)
        if not fields:
            continue
        args, real_args = [], {}
        for f in fields:
            k = rng.choice(["var", "var", "none", "list", "list0"])
            if rng.random() < 0.6:  # mostly the right kind
                k = {0: "var", 1: rng.choice(["var", "none"]), 2: rng.choice(["list", "list0"])}[cls.Inputs._get_field_type(f).value]
            if k == "var":
                args.append(0)
                real_args[f.name] = x
            elif k == "none":
                args.append(None)
                real_args[f.name] = None
            elif k == "list":
                args.append([0, 0])
                real_args[f.name] = [x, x]
            else:
                args.append([])
                real_args[f.name] = []
        try:
            cls.Inputs(**real_args)
            ok = True
        except TypeError:
            ok = False
        req = {"sig": L.sig_of(cls), "args": args, "attrs": [], "vars": [[0, {"t": 1, "s": [2]}, None]], "out_variadic": 0}
        cases.append((op, req, ok))
    return cases


def sweep(ck, work, rng, stats, per_op, families):
    """The independent generated calls of `work` (operators, in order): oracle + correspondence."""
    known_keys = _known_keys()
    made: dict = collections.defaultdict(list)  # calls already made in this process, per operator

    def one_case(op, reqs, pending):
        call = L.gen_call(rng, op)
        if "skip" in call:
            per_op[op.key]["skipped"] += 1
            stats["skipped:" + call["skip"]] += 1
            return
        families[call["family"]] += 1
        _trace({"op_key": op.key, "call": call})
        sp = L.run_spox(op, call)
        key, what, info = judge(op, call, sp)
        per_op[op.key][info["class"]] += 1
        ck.count((op.key, info["class"], call["family"], len(call["attrs"]), tuple(type(a).__name__ for a in call["args"])))
        if key is not None:
            if key in known_keys:
                ck.failure(key, what, {"op_key": op.key, "call": call})
            elif not any(f["key"] == key for f in ck.failures):
                register(ck, op, key, what, call, made[op.key])
        else:
            ck.sample({"op": op.key, "call": call, "verdict": info["class"]}, limit=4)
        if "skip" not in call and len(made[op.key]) < 60:
            made[op.key].append(call)
        for oe in sp.get("obs_errors", []):
            brk(ck, "correspondence", "not observable: " + oe.split(":")[0], oe)
        try:
            req = L.model_request(op, call, sp)
        except Exception as e:  # noqa: BLE001
            stats["not_observable"] += 1
            brk(ck, "correspondence", "constructor call not observable (model request)", f"{type(e).__name__}: {e}"[:300])
            return
        if req is None:
            stats["no_node_observed"] += 1
            if sp["raised"] is None:  # (a constructor may raise before it creates the node)
                brk(ck, "correspondence", "no node object observed for a call", f"e.g. {op.key}: {sp['raised']}: {sp.get('msg')}"[:300])
            return
        reqs.append(req)
        pending.append((op, call, sp))

    CH = 3000
    sent = 0
    for lo in range(0, len(work), CH):
        reqs, pending = [], []
        for op in work[lo:lo + CH]:
            try:
                one_case(op, reqs, pending)
            except Exception as e:  # noqa: BLE001  (never crash the sweep; the verdicts of other cases stand)
                stats["case_errors"] += 1
                brk(ck, "harness", "a generated call could not be run", f"e.g. {op.key}: {type(e).__name__}: {e}"[:300])
        answers = ck.driver().ask_many("C05", reqs) if reqs else []
        sent += len(reqs)
        if len(answers) != len(reqs):
            brk(ck, "correspondence", "driver", f"{len(answers)} answers for {len(reqs)} requests")
        for (op, call, sp), ans in zip(pending, answers):
            correspond_case(ck, op, call, sp, ans, stats)
        if ck.thorough and (lo // CH) % 10 == 9:
            ck.log(f"... {lo + CH} calls")
        if len(ck.broken_items) >= MAX_BROKEN and len(ck.failures) >= 5:
            ck.log("many mismatches and failures already - stopping the sweep early")
            break
    return sent



DATA_DEP = {"NonZero", "Unique", "Compress", "Where", "Reshape", "Expand", "Tile", "Range", "ConstantOfShape",
            "Slice", "TopK", "Gather", "Pad", "Resize", "OneHot", "Squeeze", "Unsqueeze", "Split", "Trilu",
            "Shape", "Size", "Concat", "Flatten", "MaxPool", "Upsample", "GatherND", "DepthToSpace"}


class _Batch:
    """model requests collected and sent to the driver in batches"""

    def __init__(self, ck, stats):
        self.ck, self.stats, self.reqs, self.pending = ck, stats, [], []

    def add(self, op, call, sp):
        try:
            req = L.model_request(op, call, sp)
        except Exception as e:  # noqa: BLE001
            self.stats["not_observable"] += 1
            brk(self.ck, "correspondence", "constructor call not observable (model request)", f"{type(e).__name__}: {e}"[:300])
            return
        if req is not None:
            self.reqs.append(req)
            self.pending.append((op, call, sp))
        if len(self.reqs) >= 3000:
            self.flush()

    def flush(self):
        if self.reqs:
            for (op_, call, sp), ans in zip(self.pending, self.ck.driver().ask_many("C05", self.reqs)):
                correspond_case(self.ck, op_, call, sp, ans, self.stats)
            self.reqs, self.pending = [], []


def phase_histories(ck, rng, by_key, items, stats, pstats):
    """sequences of calls of one operator in one process that differ in one facet"""
    known = _known_keys()
    batch = _Batch(ck, stats)
    for op_key, facet in items:
        op = by_key[op_key]
        try:
            hist = L.gen_history(rng, op, facet)
            if hist is None:
                pstats["not_applicable"] += 1
                continue
            for rev in (False, True):
                h = hist if not rev else {"vars": hist["vars"], "calls": hist["calls"][::-1], "facets": hist["facets"][::-1]}
                pstats["histories"] += 1
                for f in h["facets"]:
                    if f != "base":
                        pstats["facet:" + f] += 1
                for i, key, what, info, call, sp in judge_history(op, h, known):
                    pstats["calls"] += 1
                    ck.count(("history", op.key, info["class"], i, tuple(h["facets"])))
                    if key is not None:
                        if key in known:
                            ck.failure(key, what, {"op_key": op.key, "history": h})
                        elif not any(f["key"] == key for f in ck.failures):
                            hs = {"vars": h["vars"], "calls": h["calls"][: i + 1], "facets": h["facets"][: i + 1]}
                            if confirm({"op_key": op.key, "history": hs}, key, "history"):
                                ck.failure(key, what, {"op_key": op.key, "history": shrink_history(op, hs, key)})
                            else:
                                brk(ck, "oracle", f"failure seen only inside this process: {key}", what[:600])
                    batch.add(op, call, sp)
        except Exception as e:  # noqa: BLE001
            stats["case_errors"] += 1
            brk(ck, "harness", "a call history could not be run", f"e.g. {op.key}: {type(e).__name__}: {e}"[:300])
    batch.flush()


def phase_flows(ck, rng, by_key, n, stats, pstats):
    """one Var (constant / argument / earlier result) through different operators"""
    known = _known_keys()
    mods = [m for m, _, _ in L.MODULES]
    weights = [(m, 3 if ".ml." not in m else 1) for m in mods]
    batch = _Batch(ck, stats)
    nx = max(1, n // 4)  # cross-MODULE sequences: the identical call through two modules of different schema versions
    for idx in range(n + nx):
        try:
            flow = L.gen_xmodule_flow(rng) if idx >= n else L.gen_flow(rng, L._pick(rng, weights))
            if flow is None:
                pstats["not_generated"] += 1
                continue
            pstats["flows"] += 1
            pstats["kind:" + flow["kind"]] += 1
            _trace({"flow": flow})
            if flow["calls"][0].get("vp") == "onnxruntime":
                got = L.isolated(lambda: judge_flow(by_key, flow, known))
                if got is None or got[0] != "ok":
                    pstats["onnxruntime_child_died" if got is None else "onnxruntime_child_error"] += 1
                    continue
                judged = got[1]
            else:
                judged = judge_flow(by_key, flow, known)
            for i, op, key, what, info, call, sp in judged:
                pstats["calls"] += 1
                pstats[info["class"]] += 1
                ck.count(("flow", op.key, info["class"], i, flow["kind"]))
                if key is not None:
                    if key in known:
                        ck.failure(key, what, {"op_key": op.key, "call": call})
                    elif not any(f["key"] == key for f in ck.failures):
                        register_flow(ck, flow, i, op, key, what, call)
                batch.add(op, call, sp)
        except Exception as e:  # noqa: BLE001
            stats["case_errors"] += 1
            brk(ck, "harness", "a flow could not be run", f"{type(e).__name__}: {e}"[:300])
    batch.flush()


def phase_constfed(ck, rng, by_key, keys, stats, pstats, per_op):
    """every operand a known constant, value propagation ON (library default / reference / onnxruntime)"""
    known = _known_keys()
    batch = _Batch(ck, stats)
    for op_key in keys:
        op = by_key[op_key]
        try:
            call = L.gen_call(rng, op, force="constfed")
            if "skip" in call:
                continue
            _trace({"op_key": op.key, "call": call})
            if call.get("vp") == "onnxruntime":
                if L.oracle_run(op, call)["reject"]:
                    call["vp"] = "reference"  # onnxruntime is only handed nodes ONNX accepts ...
            if call.get("vp") == "onnxruntime":
                got = L.isolated(lambda: (lambda sp_: (sp_, judge(op, call, sp_)))(L.run_spox(op, call)))  # ... in a child
                if got is None or got[0] != "ok":
                    pstats["onnxruntime_child_died" if got is None else "onnxruntime_child_error"] += 1
                    continue
                sp, (key, what, info) = got[1]
            else:
                sp = L.run_spox(op, call)
                key, what, info = judge(op, call, sp)
            pstats[call["family"] + ":" + call.get("vp", "none")] += 1
            pstats[info["class"]] += 1
            per_op[op.key]["vp:" + info["class"]] += 1
            ck.count(("constfed", op.key, info["class"], call.get("vp")))
            if key is not None:
                if key in known:
                    ck.failure(key, what, {"op_key": op.key, "call": call})
                elif not any(f["key"] == key for f in ck.failures):
                    register(ck, op, key, what, call, [])
            batch.add(op, call, sp)
        except Exception as e:  # noqa: BLE001
            stats["case_errors"] += 1
            brk(ck, "harness", "a constant-fed call could not be run", f"e.g. {op.key}: {type(e).__name__}: {e}"[:300])
    batch.flush()


def _task_worker(args):
    """One task in a forked worker: returns plain data, never raises."""
    seed, tier, phase, idx, payload = args
    try:
        ck = core.Check("C05", tier, seed)
        by_key = {o.key: o for o in L.load_vocabulary()}
        rng = random.Random(f"C05-{seed}-{phase}-{idx}")
        stats, families, pstats = collections.Counter(), collections.Counter(), collections.Counter()
        per_op = collections.defaultdict(collections.Counter)
        if phase == "histories":
            phase_histories(ck, rng, by_key, payload, stats, pstats)
        elif phase == "flows":
            phase_flows(ck, rng, by_key, payload, stats, pstats)
        elif phase == "constfed":
            phase_constfed(ck, rng, by_key, payload, stats, pstats, per_op)
        else:
            pstats["sent"] = sweep(ck, [by_key[k] for k in payload], rng, stats, per_op, families)
        if ck._driver:
            ck._driver.close()
        return {"stats": dict(stats), "families": dict(families), "phase_stats": dict(pstats),
                "per_op": {k: dict(v) for k, v in per_op.items()}, "failures": ck.failures,
                "known": ck.known_hits, "broken": ck.broken_items, "evaluations": ck.evaluations,
                "distinct": list(ck._distinct), "suppressed": _suppressed[0], "samples": ck.samples}
    except BaseException as e:  # noqa: BLE001
        return {"error": f"{type(e).__name__}: {e}"[:300]}


def run_tasks(ck, tasks):
    """Run the tasks in forked children, at most one per CPU, collecting pickled results over pipes.
    A child that dies (native crash in a backend) or hangs is reported per task, never fatal."""
    import os
    import pickle
    import select
    import signal
    import time

    ck.driver()  # build the model executable once, before forking
    args = [(ck.seed, ck.tier, ph, i, payload) for ph, i, payload in tasks]
    nproc = max(1, min(16, os.cpu_count() or 1, len(args)))
    limit = ck.pick(600, 3000)  # seconds per task
    results = [None] * len(args)
    pending = list(enumerate(args))
    running = {}  # read fd -> [idx, pid, chunks, t0]
    while pending or running:
        while pending and len(running) < nproc:
            idx, a = pending.pop(0)
            r, w = os.pipe()
            pid = os.fork()
            if pid == 0:
                code = 0
                try:
                    os.close(r)
                    for fd in list(running):
                        os.close(fd)
                    os.environ["C05_TRACE"] = str(core.WORK / f"c05-trace-{a[2]}-{a[3]}.json")
                    data = pickle.dumps(_task_worker(a))
                    with os.fdopen(w, "wb") as f:
                        f.write(data)
                except BaseException:  # noqa: BLE001
                    code = 3
                finally:
                    os._exit(code)
            os.close(w)
            running[r] = [idx, pid, [], time.time()]
        ready, _, _ = select.select(list(running), [], [], 2.0)
        for fd in ready:
            blob = os.read(fd, 1 << 20)
            if blob:
                running[fd][2].append(blob)
                continue
            idx, pid, chunks, _t = running.pop(fd)
            os.close(fd)
            _, status = os.waitpid(pid, 0)
            try:
                results[idx] = pickle.loads(b"".join(chunks)) if chunks and status == 0 else {"died": status}
            except Exception as e:  # noqa: BLE001
                results[idx] = {"error": f"unreadable result: {type(e).__name__}"}
        for fd, (idx, pid, chunks, t0) in list(running.items()):
            if time.time() - t0 > limit:
                try:
                    os.kill(pid, signal.SIGKILL)
                except OSError:
                    pass
    return results


def _budget(ck, op):
    if op.name in L.SUBGRAPH_OPS:
        return 0
    if op.shared_with:
        return ck.pick(5, 40)
    return ck.pick(70, 1000)


def run(ck: core.Check):
    # tie G: classes that override infer_output_types / propagate_values, regenerated from the source
    try:
        from translator import c05_overrides

        gen = c05_overrides.generate()
        if {tuple(k) for k in gen["inference"]} != set(L.SUPPLEMENTED):
            brk(ck, "generated", "inference overrides differ from the oracle's SUPPLEMENTED table",
                f"source: {sorted(set(map(tuple, gen['inference'])) ^ set(L.SUPPLEMENTED))}"[:600])
        if {k[1] for k in gen["propagation"]} != {"Constant"}:
            brk(ck, "generated", "propagate_values overrides differ from {Constant}", str(gen["propagation"])[:400])
        ck.cov["overrides_in_source"] = {k: [list(x) for x in v] for k, v in gen.items() if k != "rows"}
    except Exception as e:  # noqa: BLE001
        brk(ck, "generated", "override table could not be extracted", f"{type(e).__name__}: {e}"[:300])
    # tie G (inventory): normalised-AST hashes of the functions the model writes down, against the
    # baseline the check was last validated on. A difference fails nothing, it escalates the counts.
    boost = 1
    try:
        cur = c05_overrides.covered_hashes()
        base = json.loads((core.VERIF / "harness" / "c05_source_baseline.json").read_text())
        changed = sorted(k for k in set(cur) | set(base) if cur.get(k) != base.get(k))
        ck.cov["modelled_functions"] = {"count": len(cur), "changed_since_baseline": changed}
        if changed:
            boost = 2
            ck.log(f"modelled functions changed since the baseline ({len(changed)}): {changed[:6]} - doubling the sweep")
            ck.notes.append(f"modelled functions differ from the baseline (sweep doubled): {changed}")
    except Exception as e:  # noqa: BLE001
        boost = 2
        ck.cov["modelled_functions"] = {"error": f"{type(e).__name__}: {e}"[:200]}
    res = ck.lean(["SpoxModel.Props.C05"], audit="SpoxModel.Audit.C05")
    if ck.thorough:
        ck.leanchecker(["SpoxModel.Props.C05", "SpoxModel.Model.MLOnnx", "SpoxModel.Drv.C05"])
    ops = L.load_vocabulary()
    by_key = {o.key: o for o in ops}
    rng = ck.rng
    stats = collections.Counter()
    per_op: dict[str, collections.Counter] = collections.defaultdict(collections.Counter)
    families = collections.Counter()

    # 0. known findings: replay the committed witnesses first (so they are reported on every run)
    for f in sorted(FINDINGS_DIR.glob("C05-*.json")):
        doc = json.loads(f.read_text())
        case = doc["case"]
        op = by_key.get(case["op_key"])
        if op is None:
            continue
        try:
            k, what, _ = judge(op, case["call"])
        except Exception as e:  # noqa: BLE001
            brk(ck, "harness", "a known-finding witness could not be replayed", f"{f.name}: {type(e).__name__}: {e}"[:300])
            continue
        if k is not None:
            ck.failure(k, what, case)

    # 1. the four families of generated cases, as independent tasks over a forked worker pool
    #    (fixed numbers of slices: the cases of a seed do not depend on the number of CPUs)
    hwork = []
    for op in ops:
        if op.shared_with or op.name in L.SUBGRAPH_OPS:
            continue
        multi = L._variadic_output(op) or op.name in L.BODY_OPS
        for k in range(ck.pick(40, 250) if multi else ck.pick(4, 20)):
            hwork.append((op.key, "out_count" if multi and k % 2 == 0 else None))
    cwork = []
    for op in ops:
        if op.shared_with or op.name in L.BODY_OPS:
            continue
        cwork += [op.key] * (ck.pick(50, 300) if op.name in DATA_DEP else ck.pick(8, 50))
    work = []
    for op in ops:
        work += [op.key] * (_budget(ck, op) * boost)
    for lst in (hwork, cwork, work):
        rng.shuffle(lst)  # a slice mixes operators; order is still a function of the seed
    nflows = ck.pick(1500, 9000)
    nh, nf, nc, nw = ck.pick((6, 6, 8, 12), (8, 8, 16, 32))
    tasks = [("histories", i, hwork[i::nh]) for i in range(nh)]
    tasks += [("flows", i, nflows // nf + (1 if i < nflows % nf else 0)) for i in range(nf)]
    tasks += [("constfed", i, cwork[i::nc]) for i in range(nc)]
    tasks += [("sweep", i, work[i::nw]) for i in range(nw)]
    results = run_tasks(ck, tasks)
    phase_stats = {ph: collections.Counter() for ph in ("histories", "flows", "constfed", "sweep")}
    died: list = []
    for (phase, idx, _), r in zip(tasks, results):
        if r is not None and "died" in r:
            # a native crash / hang inside a backend took the worker down: the case that was running is
            # in the task's trace file; no verdict can be drawn from it
            died.append(f"{phase}[{idx}] status={r['died']}")
            continue
        if r is None or "error" in r:
            brk(ck, "harness", "a worker task failed", f"{phase}[{idx}]: {(r or {}).get('error', 'no result')}")
            continue
        stats.update(r["stats"])
        families.update(r["families"])
        phase_stats[phase].update(r["phase_stats"])
        for k, v in r["per_op"].items():
            per_op[k].update(v)
        for f in r["failures"]:
            ck.failure(f["key"], f["what"], f["case"])
        for h in r["known"]:
            ck.failure(h["key"], h["what"], h["case"])
        for b_ in r["broken"]:
            brk(ck, b_["kind"], b_["name"], b_["detail"])
        ck.evaluations += r["evaluations"]
        ck._distinct.update(r["distinct"])
        _suppressed[0] += r["suppressed"]
        for smp in r["samples"]:
            ck.sample(smp, limit=4)
    hs, fs, cs = phase_stats["histories"], phase_stats["flows"], phase_stats["constfed"]
    ck.log(f"{hs['histories']} call histories ({hs['calls']} calls), {fs['flows']} cross-operator flows ({fs['calls']} calls), "
           f"{len(cwork)} constant-fed calls with value propagation on, {len(work)} sweep calls ({phase_stats['sweep']['sent']} sent to the model)")
    if died:
        ck.log(f"worker tasks lost to a native crash / hang (no verdict): {died}")
        ck.notes.append(f"worker tasks lost to a native crash or hang in a backend: {died}")
    ck.cov["worker_tasks_lost"] = died
    ck.cov["histories"] = dict(hs)
    ck.cov["flows"] = dict(fs)
    ck.cov["constant_fed_value_prop_on"] = dict(cs)

    # 2. kind checks of Inputs(...)
    try:
        kc = kind_cases(rng, ops, ck.pick(400, 4000))
    except Exception as e:  # noqa: BLE001
        kc = []
        brk(ck, "correspondence", "Inputs(...) kind checks not observable", f"{type(e).__name__}: {e}"[:300])
    kans = ck.driver().ask_many("C05", [r for _, r, _ in kc]) if kc else []
    for (op, req, ok), ans in zip(kc, kans):
        stats["kind_cases"] += 1
        stats["kind_rejected"] += 0 if ok else 1
        if "error" in ans or ans["kinds_ok"] != ok:
            stats["mismatches"] += 1
            brk(ck, "correspondence", f"kind check: {op.key}", f"real Inputs(...) {'accepted' if ok else 'raised TypeError'}; model {ans}"[:600] + f" args={req['args']}")

    # 3. round 10: Type._subtype / Shape.__le__ / PropValue.check / the attach loop of Node.inference
    #    against Model/Subtype.lean on generated inputs (near misses of fitting pairs)
    try:
        from harness import lib_c05_subtype as LS

        ck.cov["subtype_check_tie"] = LS.run_stage(ck, brk, ck.pick(2000, 20000), ck.pick(2000, 20000), ck.pick(400, 4000))
    except Exception as e:  # noqa: BLE001
        brk(ck, "correspondence", "subtype / PropValue.check tie could not be run", f"{type(e).__name__}: {e}"[:300])

    # ------------------------------------------------------------------ evidence
    totals = collections.Counter()
    for c in per_op.values():
        totals.update(c)
    starved = sorted(k for k, c in per_op.items() if not any(x.startswith("acc") or x.startswith("mixed") for x in c) and not by_key[k].shared_with)
    never_rej = sum(1 for k, c in per_op.items() if not any(x.startswith("rej") for x in c) and not by_key[k].shared_with)
    ck.cov.update({
        "operators": len(set(work)),
        "distinct_node_classes": len([o for o in ops if not o.shared_with]),
        "not_generated_operators": sorted(L.SUBGRAPH_OPS),
        "calls": len(work),
        "verdict_totals": dict(totals),
        "families": dict(families),
        "correspondence": dict(stats, mismatch_reports_suppressed=_suppressed[0]),
        "operators_without_an_accepted_call": starved,
        "operators_never_rejected": never_rej,
        "per_operator": {k: " ".join(f"{a}={n}" for a, n in sorted(v.items())) for k, v in sorted(per_op.items()) if not by_key[k].shared_with},
    })
    ck.exhaustive = False
    ck.rule = ("seeded random constructor calls over every (module, operator) pair: 70 (quick) / 1000 (thorough) per distinct node "
               "class, 5 / 40 per re-exported one; non-trivial = distinct (operator, accept/reject class, calling-form family, "
               "#explicit attributes, argument kinds)")
    ck.assumptions += [
        "onnx.shape_inference.infer_shapes is invariant under injective renaming of value names and ignores graph inputs / initializers the node does not read (hypotheses InferOK of eager_agrees; observed by the oracle, which uses its own names and no extra inputs)",
        "an attribute left at its default denotes the same node whether omitted or written with the schema default (the oracle accepts either representative: ONNX's ArgMax/ArgMin inference treats them differently for rank-0 inputs)",
        "value propagation: the sweep runs with it switched off; a separate slice (every operand a known constant; data-dependent operators weighted) and 45 % of the flows run with it ON (library default, reference, onnxruntime), judged for EQUAL types against fresh strict inference with the constants as initializers",
        "cross-operator flows: 2-4 calls of different operators in one process through which one Var flows (constant with a value / typed argument / result of the first call) in differently named slots; each call judged against fresh inference",
        "call histories: 2-4 calls of one operator in one process on shared Vars, differing in one facet (output count, one attribute, a constant's value, an optional input, an input shape), both orders; each call judged against fresh inference",
        "If / Loop / Scan / SequenceMap are generated with Identity bodies (over outer-scope values resp. body inputs)",
    ]
    ck.trusted_base += [
        "harness/lib_c05.py: schema-driven generator, capture of the inference request by wrapping onnx.shape_inference.infer_shapes and Node.inference, canonicalisation of TypeProtos",
    ]


def replay(ck: core.Check, doc) -> bool:
    if doc.get("kind") == "obligation":
        # no concrete input was found: re-run the proof + correspondence (same seed) and report
        ck.seed = doc.get("seed", 0)
        ck.rng = random.Random(ck.seed)
        run(ck)
        for b in ck.broken_items[:5]:
            print(f"still broken: {b['kind']}: {b['name']}: {b['detail'][:300]}")
        return bool(ck.broken_items or ck.failures)
    case = doc["case"]
    ops = {o.key: o for o in L.load_vocabulary()}
    if "flow" in case:
        known = _known_keys()
        bad = []
        for i, op, key, what, info, call, sp in judge_flow(ops, case["flow"], known):
            print(f"call #{i + 1} {op.key}: {json.dumps(info['spox'], default=str)[:300]} -> {key}")
            if key is not None and key not in known:
                print(f"{key}: {what}"[:600])
                bad.append(key)
        return bool(bad)
    op = ops[case["op_key"]]
    if "history" in case:
        known = _known_keys()
        bad = []
        for i, key, what, info, call, sp in judge_history(op, case["history"], known):
            print(f"call #{i + 1}: {json.dumps(info['spox'], default=str)[:300]} -> {key}")
            if key is not None and (key == doc.get("key") or key not in known):
                print(f"{key}: {what}"[:600])
                bad.append(key)
        return bool(bad)
    key, what, info = judge(op, case["call"])
    print(json.dumps(info, default=str)[:1500])
    if key is not None:
        print(f"{key}: {what}")
    known = {f["key"] for f in core.load_findings() if f["property"] == "C05" and f.get("status") == "known"}
    if key is not None and key != doc.get("key") and key in known:
        print(f"(the input now only shows the listed known finding {key}, not {doc.get('key')})")
        return False
    return key is not None
