"""C08 — inline(m) denotes exactly the function of m, for any valid m.

proof  : Props/C08.lean (bind_spec & error cases, rename_injective, inline_sem, normalise_pure, ...)
tie G  : translator/inline_facts.py (AST of _public.inline: defensive copy before the first mutation)
tie H  : every stage of inline(m)(call) + _Inline.to_onnx run on the real code and on the model
         (driver) for generated models x call forms x build-scope states; evaluator vs onnxruntime
oracle : (model-free) m under onnxruntime vs. the built outer model (once, twice, shared callable,
         chained, inside If bodies, next to other opset versions); bytes of m before/after; TypeError
         for wrong calls; ValueError for local functions; returned types = declared output types
"""
from __future__ import annotations

import json
import random
import warnings
from typing import Any, Optional

import numpy as np
import onnx
from onnx import TensorProto as TP

from harness import core
from harness import lib_inline as L
from harness import lib_inline_versions as LV

# ------------------------------------------------------------------------------------------------
# helpers on the real side
# ------------------------------------------------------------------------------------------------

ORT_FALLBACKS = {"unoptimised": 0}
_WORKER = None


def ort_run(model: onnx.ModelProto, feeds: dict) -> list:
    """The model under onnxruntime - in a child process (harness/lib_ortworker.py): on some invalid models
    onnxruntime does not raise but aborts the process; that is a per-case `RuntimeAborted`, never the end of the check.
    A model its graph optimiser refuses with its own known defect (`GetIndexFromName ... _new_reshape` on valid
    Shape/Flatten/Softmax/Reshape -> Reshape chains) is tried again there with the optimiser switched off."""
    global _WORKER
    from harness import lib_ortworker

    if _WORKER is None:
        _WORKER = lib_ortworker.OrtWorker()
    try:
        return _WORKER.run(model.SerializeToString(), feeds)
    finally:
        ORT_FALLBACKS["unoptimised"] = _WORKER.fallbacks
        ORT_FALLBACKS["aborted"] = _WORKER.crashes


def _worker():
    global _WORKER
    from harness import lib_ortworker

    if _WORKER is None:
        _WORKER = lib_ortworker.OrtWorker()
    return _WORKER


def safe_full_check(model: onnx.ModelProto) -> None:
    """onnx.checker.check_model(model, full_check=True), in the child process (raises what the checker raises,
    `RuntimeAborted` when onnx's shape inference crashes natively)."""
    _worker().full_check(model.SerializeToString())


def safe_convert(model: onnx.ModelProto, target: int) -> onnx.ModelProto:
    """onnx.version_converter.convert_version(model, target) ALONE (no spox), in the child process."""
    out = onnx.ModelProto()
    out.ParseFromString(_worker().convert(model.SerializeToString(), target))
    return out


def np_dtype(elem: int):
    return onnx.helper.tensor_dtype_to_np_dtype(elem)


def spox_type(tj: Any):
    from spox import Optional as SOptional
    from spox import Sequence, Tensor
    from spox._type_system import Type

    if tj is None:
        return Type()
    if "t" in tj:
        e, dims = tj["t"]
        return Tensor(np_dtype(e), None if dims is None else tuple(dims))
    if "seq" in tj:
        return Sequence(spox_type(tj["seq"]))
    return SOptional(spox_type(tj["opt"]))


def public_type_json(t) -> Any:
    """A spox type as JSON, through the public attributes only (dtype, shape, elem_type)."""
    from spox import Optional as SOptional
    from spox import Sequence, Tensor

    if isinstance(t, Tensor):
        e = onnx.helper.np_dtype_to_tensor_dtype(np.dtype(t.dtype))
        return {"t": [e, None if t.shape is None else [d if isinstance(d, (int, str)) else None for d in t.shape]]}
    if isinstance(t, Sequence):
        return {"seq": public_type_json(t.elem_type)}
    if isinstance(t, SOptional):
        return {"opt": public_type_json(t.elem_type)}
    return None


def runtime_shape_of(m: onnx.ModelProto) -> Optional[list]:
    """TypeGen models carry their run-time shape in the graph's doc_string (declarations may hide it)."""
    d = m.graph.doc_string
    if d.startswith("runtime-shape:"):
        return json.loads(d[len("runtime-shape:"):])
    return None


def concrete(tj: Any, rng: Optional[random.Random] = None, how: str = "same", runtime: Optional[list] = None) -> Any:
    """An argument type for a declared input type: symbolic dims replaced by what the data has."""
    e, dims = tj["t"]
    if runtime is not None and e == TP.FLOAT and how == "same":
        return {"t": [e, list(runtime)]}
    if dims is None:
        return {"t": [e, [2] if e != TP.BOOL else []]}
    out = []
    for d in dims:
        if isinstance(d, int):
            out.append(d)
        elif how == "same":
            out.append(2)
        else:
            out.append(rng.choice([2, None, "K", d]))
    return {"t": [e, out]}


def concrete_for(m: onnx.ModelProto, i, rng: Optional[random.Random] = None, how: str = "same") -> Any:
    return concrete(L.type_json(i.type), rng, how, runtime_shape_of(m))


def closure_of(f) -> dict:
    try:
        return dict(zip(f.__code__.co_freevars, (c.cell_contents for c in f.__closure__)))
    except Exception:  # noqa: BLE001
        return {}


# ------------------------------------------------------------------------------------------------
# tie H: one request for the model, the same stages on the real code
# ------------------------------------------------------------------------------------------------


def gen_call(rng: random.Random, m: onnx.ModelProto) -> dict:
    """A call form: number of positionals, keyword names, argument types."""
    ins = [i.name for i in m.graph.input]
    defaults = {i.name for i in m.graph.initializer}
    tjs = {i.name: L.type_json(i.type) for i in m.graph.input}
    rt = runtime_shape_of(m)
    n = len(ins)
    style = rng.random()
    if style < 0.6:  # a correct call
        npos = rng.randrange(0, n + 1)
        kws = [k for k in ins[npos:] if not (k in defaults and rng.random() < 0.6)]
        rng.shuffle(kws)
    elif style < 0.67:  # surplus positionals
        npos, kws = n + rng.randrange(1, 3), []
    elif style < 0.74:  # duplicate
        npos = rng.randrange(1, n + 1)
        kws = [rng.choice(ins[:npos])] + [k for k in ins[npos:] if rng.random() < 0.8]
    elif style < 0.81:  # unknown keyword
        npos = rng.randrange(0, n + 1)
        non_input_inits = [i.name for i in m.graph.initializer if i.name not in ins] + \
            [s_.values.name for s_ in m.graph.sparse_initializer if s_.values.name not in ins]
        extra = ["nope", "x_9", ins[0] + "_", "Inline_0__x__"] + 3 * non_input_inits + [o.name for o in m.graph.output if o.name not in ins]
        kws = list(ins[npos:]) + [rng.choice(extra)]
    elif style < 0.92:  # something missing
        npos = rng.randrange(0, n + 1)
        kws = [k for k in ins[npos:] if rng.random() < 0.5]
    else:  # anything
        npos = rng.randrange(0, n + 2)
        kws = [k for k in ins + ["q"] if rng.random() < 0.4]
    kws = list(dict.fromkeys(kws))

    def arg_type(name):
        tj = tjs.get(name) or {"t": [TP.FLOAT, [2]]}
        if "t" not in tj:
            return tj
        r = rng.random()
        if r < 0.82:
            return concrete(tj, rng, "same", rt)
        if r < 0.9:
            return concrete(tj, rng, "vary")
        e, dims = concrete(tj, rng, "same", rt)["t"]
        k = rng.randrange(6)
        if k == 0:
            return {"t": [TP.INT64 if e != TP.INT64 else TP.FLOAT, dims]}
        if k == 1:
            return {"t": [e, list(dims) + [1]]}
        if k == 2:
            return {"t": [e, [3 if isinstance(d, int) else d for d in dims]]}
        if k == 5 and dims:
            # same rank, ONE constant replaced by another constant (0 <-> non-zero included)
            j = rng.randrange(len(dims))
            d = dims[j]
            other = rng.choice([x for x in (0, 1, 2, 3, 5) if x != d]) if isinstance(d, int) else 0
            return {"t": [e, [other if q == j else x for q, x in enumerate(dims)]]}
        if k == 3:
            return {"t": [e, None]}
        return {"t": [e, [None for _ in dims]]}

    pos_types = [arg_type(ins[i] if i < n else ins[-1]) for i in range(npos)]
    kw_types = [arg_type(k) for k in kws]
    return {"npos": npos, "kws": kws, "posTypes": pos_types, "kwTypes": kw_types}


def gen_ctx(rng: random.Random, m: onnx.ModelProto) -> dict:
    """State of the build scope in which `_Inline.to_onnx` runs (node name, outer names, counters)."""
    node = rng.choice(["Inline_0", "Inline_0", "Inline_1", "Inline_10", "If_0_then_branch__Inline_0", "Loop_2_body__Inline_3"])
    n_in, n_out = len(m.graph.input), len(m.graph.output)
    outer_pool = ["z0", "z1", "z2", "z3", "z4", "x", "y", "t", "Abs_0_Y", "Add_3_C", "arg", "Inline_7_outputs_0"]
    rng.shuffle(outer_pool)
    arg_names = outer_pool[:n_in]
    res_names = [f"{node}_outputs_{k}" for k in range(n_out)]
    inner = sorted({n for nd in m.graph.node for n in list(nd.input) + list(nd.output) + [nd.name]} - {""}) or ["x"]
    hostile = rng.random() < 0.35
    var_used, var_ctr, node_used, node_ctr = [], [], [], []
    if hostile:
        for _ in range(rng.randrange(1, 4)):
            nm = rng.choice(inner)
            k = rng.randrange(6)
            if k == 0:
                var_used.append(f"{node}__{nm}")
            elif k == 1:
                var_ctr.append([f"{node}__{nm}", rng.randrange(0, 3)])
            elif k == 2:
                var_used.append(f"{node}__{nm}_0")
                var_ctr.append([f"{node}__{nm}", 0])
            elif k == 3:
                node_ctr.append([f"{node}__{nm}", rng.randrange(0, 3)])
            elif k == 4:
                node_used.append(f"{node}__{nm}")
            else:
                var_ctr.append([f"Inline_1__{nm}", 1])
    var_ctr = [list(x) for x in dict((a, b) for a, b in var_ctr).items()]
    node_ctr = [list(x) for x in dict((a, b) for a, b in node_ctr).items()]
    return {
        "nodeName": node,
        "argNames": arg_names,
        "resNames": res_names,
        "var": {"used": list(dict.fromkeys(arg_names + res_names + var_used)), "counters": var_ctr},
        "node": {"used": list(dict.fromkeys([node] + node_used)), "counters": node_ctr},
        "_extra_var": var_used,
        "_extra_node": node_used,
        "_adapt": {
            "target": rng.choice([next((o.version for o in m.opset_import if o.domain in ("", "ai.onnx")), 17), 14, 17, 18, 19, 20, 21]),
            "extraVarNames": rng.sample(["q0", "q1", "Add_9_C", f"{node}__zz", "Inline_99__x"], rng.randrange(0, 3)),
        },
    }


def gen_seq(rng: random.Random, ctx: dict, other: Optional[onnx.ModelProto]) -> dict:
    """Further Inline nodes emitted after the first one in the same scope: node names (mostly the build's own
    pairwise incomparable `Inline_i` names; sometimes one INSIDE the first node's family, or the first name again
    with another counter state), chained on the first node's results when the signature allows, a shared-argument
    second call, a node of ANOTHER model."""
    k1 = ctx["nodeName"]
    pool = [k for k in ["Inline_1", "Inline_2", "Inline_10", "Inline_20", "If_0_then_branch__Inline_0",
                        "If_0_else_branch__Inline_0", "Loop_2_body__Inline_3", "Inline_0"] if k != k1]
    rng.shuffle(pool)
    names = pool[:2]
    shape = "incomparable"
    r = rng.random()
    if r < 0.12:
        names[0] = k1 + "__Inline_0"     # a name inside the first node's family (what a body of an inlined ... would be)
        shape = "nested-in-first-family"
    elif r < 0.2:
        names[1] = names[0] + "__" + rng.choice(["x", "Inline_0", "y_0"])
        shape = "nested-in-second-family"
    return {"names": names, "shape": shape, "chain": rng.random() < 0.6, "other": other if rng.random() < 0.6 else None}


def seq_stage(out: dict, sq: dict, m, f, node1, vars1, pos, kw, ctx: dict, lits, Scope) -> None:  # noqa: N803
    """Registers every node / value name first (as `Scope.update` does), then calls `to_onnx` of the nodes in order in
    that ONE Scope; the model side is `Inline.toOnnxSeq` on the same initial name spaces."""
    from spox import argument, inline

    sites = [{"nodeName": ctx["nodeName"], "argNames": list(ctx["argNames"]), "resNames": list(ctx["resNames"])}]
    nodes_objs = [node1]
    names_of: dict = {}
    for v, n in zip(node1.inputs.inputs, ctx["argNames"]):
        names_of[id(v)] = (v, n)
    for v, n in zip(node1.outputs.outputs, ctx["resNames"]):
        names_of[id(v)] = (v, n)
    forms = []
    # site 2: the same callable again - chained on the results of the first node when possible, else same arguments
    k2, k3 = sq["names"]
    res2 = None
    if sq["chain"] and len(vars1) == len(m.graph.input):
        try:
            res2 = f(*vars1)
            forms.append("chained")
        except Exception:  # noqa: BLE001 - result types do not fit the inputs
            res2 = None
    if res2 is None:
        res2 = f(*pos, **kw)
        forms.append("shared-arguments")
    node2 = list(res2.values())[0]._op
    todo = [(node2, k2, None)]
    if sq["other"] is not None:
        m3 = sq["other"]
        try:
            pos3 = [argument(spox_type(L.type_json(i.type))) for i in m3.graph.input]
            res3 = inline(m3)(*pos3)
            todo.append((list(res3.values())[0]._op, k3, m3))
            forms.append("other-model")
        except Exception:  # noqa: BLE001 - public API refused the other model / call: nothing to compare
            pass
    fresh_i = 0
    for nd, k, mm in todo:
        args = []
        for v in nd.inputs.inputs:
            if id(v) not in names_of:
                names_of[id(v)] = (v, f"w{fresh_i}")
                fresh_i += 1
            args.append(names_of[id(v)][1])
        ress = []
        for i, v in enumerate(nd.outputs.outputs):
            names_of[id(v)] = (v, f"{k}_outputs_{i}")
            ress.append(f"{k}_outputs_{i}")
        site = {"nodeName": k, "argNames": args, "resNames": ress}
        if mm is not None:
            site["graph"] = L.abstract_graph(mm.graph, lits)
        sites.append(site)
        nodes_objs.append(nd)
    all_names = [n for _, n in names_of.values()]
    if len(set(all_names)) != len(all_names) or len({s["nodeName"] for s in sites}) != len(sites):
        out["seq_skipped"] = "names not distinct"
        return
    scope = Scope()
    for nd, st in zip(nodes_objs, sites):
        scope.node[nd] = st["nodeName"]
    for v, n in names_of.values():
        scope.var[v] = n
    for n in ctx["_extra_var"]:
        scope.var.reserved.add(n)
    for n in ctx["_extra_node"]:
        scope.node.reserved.add(n)
    for b, c in ctx["var"]["counters"]:
        scope.var.base_name_counters[b] = c
    for b, c in ctx["node"]["counters"]:
        scope.node.base_name_counters[b] = c
    out["seq_req"] = {
        "var": {"used": list(dict.fromkeys(all_names + ctx["_extra_var"])), "counters": ctx["var"]["counters"]},
        "node": {"used": list(dict.fromkeys([s["nodeName"] for s in sites] + ctx["_extra_node"])), "counters": ctx["node"]["counters"]},
        "sites": sites,
    }
    out["seq_forms"] = forms + [sq["shape"]]
    emitted = []
    try:
        for nd in nodes_objs:
            emitted.extend(nd.to_onnx(scope))
    except Exception as e:  # noqa: BLE001 - the outcome of the sequence
        out["seq"] = type(e).__name__
        return

    def space(sp):
        names = set(sp.reserved) | {k for k in sp.of_name}
        return {"used": sorted(names), "counters": sorted([b, c] for b, c in sp.base_name_counters.items())}

    out["seq"] = {"nodes": [L.abstract_node(n, lits) for n in emitted], "var": space(scope.var), "node": space(scope.node)}


def compare_seq(real: dict, model: dict) -> Optional[str]:
    rs, ms = real.get("seq"), model.get("seq")
    if rs is None:
        return None
    if ms is None:
        return "seq: model gave no answer"
    if isinstance(rs, str) or isinstance(ms, str):
        return None if rs == ms else f"seq: real {rs if isinstance(rs, str) else 'ok'} model {ms if isinstance(ms, str) else 'ok'}"
    if rs["nodes"] != ms["nodes"]:
        return f"seq nodes: real {json.dumps(rs['nodes'])[:500]} model {json.dumps(ms['nodes'])[:500]}"
    for sp in ("var", "node"):
        if sorted(set(ms[sp]["used"])) != rs[sp]["used"]:
            return f"seq {sp} names after: real {rs[sp]['used']} model {sorted(set(ms[sp]['used']))}"
        if sorted(ms[sp]["counters"]) != rs[sp]["counters"]:
            return f"seq {sp} counters after: real {rs[sp]['counters']} model {sorted(ms[sp]['counters'])}"
    return None


def real_stages(m: onnx.ModelProto, call: dict, ctx: dict, lits: L.Lits) -> dict:
    """Run inline(m), the call and `_Inline.to_onnx` on the real code; canonicalise each stage."""
    from spox import argument, inline

    out: dict[str, Any] = {}
    try:
        from spox._scope import Scope
    except Exception as e:  # noqa: BLE001
        Scope = None  # noqa: N806
        out["unobservable"] = f"spox._scope.Scope: {type(e).__name__}: {e}"
    try:
        f = inline(m)
    except Exception as e:  # noqa: BLE001
        out["prepare"] = type(e).__name__
        return out
    cl = closure_of(f)
    prep: dict[str, Any] = {}
    if "in_names" in cl:
        prep["inNames"] = list(cl["in_names"])
    if "in_defaults" in cl:
        prep["defaults"] = list(cl["in_defaults"])
    if "out_names" in cl:
        prep["outNames"] = list(cl["out_names"])
    copy = cl.get("model")
    if isinstance(copy, onnx.ModelProto):
        prep["graph"] = L.abstract_graph(copy.graph, lits)
        prep["inTypes"] = [L.type_json(i.type) for i in copy.graph.input]
        prep["outTypes"] = [L.type_json(o.type) for o in copy.graph.output]
        out["copy_is_m"] = copy is m
    out["prepare"] = prep

    pos = [argument(spox_type(t)) for t in call["posTypes"]]
    kw = {k: argument(spox_type(t)) for k, t in zip(call["kws"], call["kwTypes"])}
    try:
        res = f(*pos, **kw)
    except Exception as e:  # noqa: BLE001
        out["call"] = type(e).__name__
        return out
    try:
        vars_ = list(res.values())
        node = vars_[0]._op
        slots = []
        in_names = [i.name for i in m.graph.input]
        inits = {i.name: onnx.numpy_helper.to_array(i) for i in m.graph.initializer}
        for idx, v in enumerate(node.inputs.inputs):
            labels = [["pos", j] for j, p in enumerate(pos) if p is v] + [["kw", k] for k, p in kw.items() if p is v]
            if not labels:
                val = getattr(v, "_value", None)
                arr = getattr(val, "value", None)
                own = in_names[idx] if idx < len(in_names) else None
                match = [n for n, a in inits.items() if isinstance(arr, np.ndarray) and a.shape == arr.shape and np.array_equal(a, arr)]
                if own in match:
                    labels = [["dflt", own]]
                elif match:
                    labels = [["dflt", match[0]]]
                else:
                    labels = [["dflt", "?"]]
            slots.append(labels)
        out["call"] = slots
        out["resNames"] = list(res.keys())
        out["resTypes"] = [public_type_json(v.type) if v.type is not None else "untyped" for v in vars_]
    except Exception as e:  # noqa: BLE001 - the internals the harness reads are gone: not a verdict
        out["unobservable"] = f"slots of the Inline node: {type(e).__name__}: {e}"
        return out

    # _Inline.to_onnx in a prepared scope
    if Scope is None:
        return out
    try:
        scope = Scope()
        scope.node[node] = ctx["nodeName"]
        for v, n in zip(node.inputs.inputs, ctx["argNames"]):
            scope.var[v] = n
        for v, n in zip(node.outputs.outputs, ctx["resNames"]):
            scope.var[v] = n
        for n in ctx["_extra_var"]:
            scope.var.reserved.add(n)
        for n in ctx["_extra_node"]:
            scope.node.reserved.add(n)
        for b, c in ctx["var"]["counters"]:
            scope.var.base_name_counters[b] = c
        for b, c in ctx["node"]["counters"]:
            scope.node.base_name_counters[b] = c
        to_onnx = node.to_onnx
    except Exception as e:  # noqa: BLE001
        out["unobservable"] = f"preparing a Scope for _Inline.to_onnx: {type(e).__name__}: {e}"
        return out
    try:
        nodes = to_onnx(scope)
    except Exception as e:  # noqa: BLE001 - the outcome of to_onnx itself
        out["emit"] = type(e).__name__
        return out
    try:
        def space(sp):
            names = set(sp.reserved) | {k for k in sp.of_name}
            return {"used": sorted(names), "counters": sorted([b, c] for b, c in sp.base_name_counters.items())}

        out["emit"] = {
            "nodes": [L.abstract_node(n, lits) for n in nodes],
            "var": space(scope.var),
            "node": space(scope.node),
        }
    except Exception as e:  # noqa: BLE001
        out["unobservable"] = f"reading the result of _Inline.to_onnx: {type(e).__name__}: {e}"
        return out
    # several Inline nodes emitted one after the other in ONE real Scope (model: `toOnnxSeq`, theorem `inline_compose`)
    sq = ctx.get("_seq")
    if sq is not None:
        try:
            seq_stage(out, sq, m, f, node, vars_, pos, kw, ctx, lits, Scope)
        except Exception as e:  # noqa: BLE001
            out["unobservable"] = f"sequence of to_onnx calls in one Scope: {type(e).__name__}: {e}"
    # adapt_inline: conversion decision, re-rename in a fresh Scope, node.model restored
    ad = ctx.get("_adapt")
    if ad is not None:
        try:
            import spox._adapt as A

            var_names = dict(zip(node.inputs.inputs, ctx["argNames"]))
            var_names.update(zip(node.outputs.outputs, ctx["resNames"]))
            for extra in ad["extraVarNames"]:
                var_names[argument(spox_type({"t": [TP.FLOAT, [2]]}))] = extra
            base = node.model
            rec: dict[str, Any] = {"called": False, "raised": None, "result": None, "version": None}
            real_conv = onnx.version_converter.convert_version

            def spy(model, version):
                rec["called"] = True
                rec["version"] = version
                try:
                    res = real_conv(model, version)
                    # adapt_inline edits the converter's result in place (_initializers_to_constants): the model is
                    # given the RAW result and applies that step itself (`initsToConstants`)
                    rec["result"] = onnx.ModelProto()
                    rec["result"].CopyFrom(res)
                except Exception as e:  # noqa: BLE001
                    rec["raised"] = type(e).__name__
                    raise
                return res

            adapt_fn = A.adapt_inline
        except Exception as e:  # noqa: BLE001
            out["unobservable"] = f"adapt_inline: {type(e).__name__}: {e}"
            return out
        onnx.version_converter.convert_version = spy
        try:
            try:
                got = adapt_fn(node, list(nodes), {"": ad["target"]}, var_names, ctx["nodeName"])
                out["adapt"] = {"nodes": [L.abstract_node(n, lits) for n in got]}
            except Exception as e:  # noqa: BLE001
                out["adapt"] = type(e).__name__
        finally:
            onnx.version_converter.convert_version = real_conv
        out["adapt_called"] = rec["called"]
        out["adapt_conv_raised"] = rec["raised"]
        out["adapt_version"] = rec["version"]
        out["adapt_target"] = ad["target"]
        if rec["result"] is not None:
            out["adapt_converted"] = L.abstract_graph(rec["result"].graph, lits)
        try:
            out["adapt_model_restored"] = node.model is base
        except Exception:  # noqa: BLE001
            pass
        # the same node adapted again under OTHER outer names (another build): nothing may be remembered
        try:
            arg2 = list(reversed(ctx["argNames"]))
            res2 = [n + "_r" for n in ctx["resNames"]]
            node2 = ctx["nodeName"] + "7"
            var_names2 = dict(zip(node.inputs.inputs, arg2))
            var_names2.update(zip(node.outputs.outputs, res2))
            onnx.version_converter.convert_version = spy
            try:
                got2 = adapt_fn(node, list(nodes), {"": ad["target"]}, var_names2, node2)
                out["adapt2"] = {"nodes": [L.abstract_node(n, lits) for n in got2]}
            except Exception as e:  # noqa: BLE001
                out["adapt2"] = type(e).__name__
            finally:
                onnx.version_converter.convert_version = real_conv
            out["ctx2"] = {"nodeName": node2, "argNames": arg2, "resNames": res2,
                           "var": {"used": list(dict.fromkeys(arg2 + res2)), "counters": []},
                           "node": {"used": [node2], "counters": []}}
        except Exception as e:  # noqa: BLE001
            out["unobservable"] = f"adapt_inline (second call): {type(e).__name__}: {e}"
    return out


def compare_stages(real: dict, model: dict, all_distinct: bool = True) -> Optional[str]:
    """None if the model's answer matches the real outcome, else a short description."""
    if "error" in model:
        return f"driver error {model['error']}"
    rp, mp = real.get("prepare"), model.get("prepare")
    if isinstance(rp, str) or isinstance(mp, str):
        return None if rp == mp else f"prepare: real {rp} model {mp if isinstance(mp, str) else 'ok'}"
    for k in ("inNames", "defaults", "outNames", "graph", "inTypes", "outTypes"):
        if k in rp and rp[k] != mp[k]:
            return f"prepare.{k}: real {json.dumps(rp[k])[:300]} model {json.dumps(mp[k])[:300]}"
    rc, mc = real.get("call"), model.get("call")
    if rc is None:  # facet not observable (registered separately)
        return None
    if isinstance(rc, str) or isinstance(mc, str):
        return None if rc == mc else f"call: real {rc} model {mc}"
    if len(rc) != len(mc) or any(ms not in labels for labels, ms in zip(rc, mc)):
        return f"call slots: real {rc} model {mc}"
    if real.get("resNames") != mp["outNames"]:
        return f"result names: real {real.get('resNames')} model {mp['outNames']}"
    if real.get("resTypes") != mp["outTypes"]:
        return f"result types: real {real.get('resTypes')} model {mp['outTypes']}"
    re_, me = real.get("emit"), model.get("emit")
    if re_ is None:
        return None
    if isinstance(re_, str) or isinstance(me, str):
        return None if re_ == me else f"emit: real {re_ if isinstance(re_, str) else 'ok'} model {me if isinstance(me, str) else 'ok'}"
    if re_["nodes"] != me["nodes"]:
        return f"emitted nodes: real {json.dumps(re_['nodes'])[:600]} model {json.dumps(me['nodes'])[:600]}"
    ra, ma = real.get("adapt"), model.get("adapt")
    if real.get("adapt_called") and real.get("adapt_version") != real.get("adapt_target"):
        return f"adapt: converter asked for version {real.get('adapt_version')}, the target opset is {real.get('adapt_target')}"
    if ra is not None and not real.get("adapt_conv_raised"):
        if isinstance(ra, str) or isinstance(ma, str):
            if ra != ma:
                return f"adapt: real {ra if isinstance(ra, str) else 'ok'} model {ma if isinstance(ma, str) else 'ok'}"
        elif ma is None:
            return "adapt: model gave no answer"
        else:
            if bool(real.get("adapt_called")) != bool(ma["converts"]):
                return f"adapt decision: real converter called={real.get('adapt_called')} model converts={ma['converts']}"
            if ra["nodes"] != ma["nodes"]:
                return f"adapt nodes: real {json.dumps(ra['nodes'])[:500]} model {json.dumps(ma['nodes'])[:500]}"
        if real.get("adapt_model_restored") is False:
            return "adapt_inline left node.model swapped"
    for sp in ("var", "node"):
        if sorted(set(me[sp]["used"])) != re_[sp]["used"]:
            return f"{sp} names after: real {re_[sp]['used']} model {sorted(set(me[sp]['used']))}"
        if sorted(me[sp]["counters"]) != re_[sp]["counters"]:
            return f"{sp} counters after: real {re_[sp]['counters']} model {sorted(me[sp]['counters'])}"
    return None


# ------------------------------------------------------------------------------------------------
# model-free oracle
# ------------------------------------------------------------------------------------------------

class Infra(Exception):
    """Trouble of the harness / third-party runtime on m itself (exit 2, never a verdict)."""


FORMS = ["once", "twice", "shared-callable", "chained", "if-body", "mixed-opset", "nested-if-twice", "loop-body", "history", "name-history"]
# forms of the version family: an inner form built next to an operator that forces the target opset
# (`mixed+<form>`), or next to an ai.onnx.ml operator of a later ai.onnx.ml version (`ml-mixed`)
MIXED_FORMS = ["mixed+once", "mixed+twice", "mixed+chained", "mixed+if-body", "mixed+nested-if-twice", "mixed+loop-body", "ml-mixed"]


def input_values(rng: random.Random, m: onnx.ModelProto) -> dict:
    vals = {}
    for i in m.graph.input:
        e = i.type.tensor_type.elem_type
        if e == TP.BOOL:
            vals[i.name] = np.array(rng.random() < 0.5)
        elif e == TP.INT64:
            vals[i.name] = np.array(rng.randrange(-5, 6), np.int64)
        else:
            dims = (L.type_json(i.type) or {"t": [e, None]})["t"][1]
            shape = [2] if dims is None else [d if isinstance(d, int) else 2 for d in dims]
            if runtime_shape_of(m) is not None:
                shape = list(runtime_shape_of(m))
            n = int(np.prod(shape)) if shape else 1
            vals[i.name] = np.array([rng.randrange(-4, 5) + 0.25 * rng.randrange(4) for _ in range(n)], np.float32).reshape(shape)
    return vals


def pick_call_style(rng: random.Random, m: onnx.ModelProto):
    """How to pass m's inputs: (npos, omitted defaults)."""
    ins = [i.name for i in m.graph.input]
    defaults = {i.name for i in m.graph.initializer}
    npos = rng.randrange(0, len(ins) + 1)
    omit = [k for k in ins[npos:] if k in defaults and rng.random() < 0.5]
    return npos, omit


def same(a, b) -> bool:
    a, b = np.asarray(a), np.asarray(b)
    if a.shape != b.shape or a.dtype != b.dtype:
        return False
    if np.array_equal(a, b, equal_nan=a.dtype.kind == "f"):
        return True
    if a.dtype.kind != "f":
        return False
    # the built model and m run other kernels / fusions (converted operators, bodies): last-bit differences, which a
    # subtraction of nearly equal values turns into absolute errors of the size of the tensor's scale * 1e-7
    fin = np.abs(b[np.isfinite(b)])
    scale = float(fin.max()) if fin.size else 0.0
    return bool(np.allclose(a, b, rtol=1e-5, atol=1e-6 + 1e-5 * scale, equal_nan=True))


def all_nodes(g: onnx.GraphProto):
    for nd in g.node:
        yield nd
        for a in nd.attribute:
            if a.type == onnx.AttributeProto.GRAPH:
                yield from all_nodes(a.g)
            elif a.type == onnx.AttributeProto.GRAPHS:
                for sg in a.graphs:
                    yield from all_nodes(sg)


def converter_blame(m: onnx.ModelProto, vals_list: list) -> Optional[str]:
    """Known third-party defect: onnx.version_converter has no adapter for Hardmax 12 -> 13 (the operator
    changed meaning: coerce-to-2D before 13, one axis from 13 on) and copies the node verbatim. A wrong
    result is blamed on it only if the converter ALONE (no spox involved) changes what m computes on the
    same input values."""
    try:
        opset = next((o.version for o in m.opset_import if o.domain in ("", "ai.onnx")), 17)
        if opset >= 13 or not any(nd.op_type == "Hardmax" and nd.domain in ("", "ai.onnx") for nd in all_nodes(m.graph)):
            return None
        conv = safe_convert(m, 13)
        for vals in vals_list:
            a, b = ort_run(m, vals), ort_run(conv, vals)
            if any(not same(x, y) for x, y in zip(a, b)):
                return "version-converter:changes-meaning:Hardmax"
    except Exception:  # noqa: BLE001
        return None
    return None


def converter_invalid(m: onnx.ModelProto) -> Optional[str]:
    """Known third-party defect: onnx.version_converter numbers the values it introduces per graph, so a body
    and a body nested in it (or the top level) can both get `_v_<n>`: the converted model is not in SSA form.
    Blamed only if the converter ALONE (no spox involved) turns m into a model onnx.checker refuses for that reason."""
    try:
        opset = next((o.version for o in m.opset_import if o.domain in ("", "ai.onnx")), 17)
        for t in (14, 17, 18, 19, 20, 21):
            if t <= opset:
                continue
            conv = safe_convert(m, t)
            try:
                safe_full_check(conv)
            except Exception as e:  # noqa: BLE001
                if "single static assignment" in str(e):
                    return "version-converter:invalid-model:duplicate-names"
    except Exception:  # noqa: BLE001
        return None
    return None


def converter_asserts(m: onnx.ModelProto) -> Optional[str]:
    """Known third-party defect: the Softmax / LogSoftmax 12 -> 13 adapter of onnx.version_converter replaces the
    uses of the operator's result; when a use sits in a body capturing it, an internal assertion fails
    (RuntimeError ... ir.h ... owningGraph). Blamed only if the converter ALONE raises it on m."""
    try:
        opset = next((o.version for o in m.opset_import if o.domain in ("", "ai.onnx")), 17)
        for t in (14, 18, 21):
            if t <= opset:
                continue
            try:
                safe_convert(m, t)
            except Exception as e:  # noqa: BLE001
                if type(e).__name__ == "RuntimeError" and "owningGraph" in str(e):
                    return "version-converter:RuntimeError:captured-result"
    except Exception:  # noqa: BLE001
        return None
    return None


ML_LABEL_ENCODER_VERSION = {3: 2, 4: 4, 5: 4}  # spox ml module -> the version its label_encoder asks for


def ml_bump(ml_module_version: int, op, x):
    """The value of x (float), plus 0 computed by an ai.onnx.ml operator that forces ai.onnx.ml >= 2 / 4."""
    import importlib

    ml = importlib.import_module(f"spox.opset.ai.onnx.ml.v{ml_module_version}")
    zero = ml.label_encoder(x, keys_floats=[1e30], values_floats=[0.0], default_float=0.0)
    return op.add(x, zero)


def ml_schema_differs(m: onnx.ModelProto, ml_module_version: Optional[int]) -> bool:
    """m holds an ai.onnx.ml operator that is defined differently in the version the outer program asks for."""
    if ml_module_version is None:
        return False
    try:
        src = max((o.version for o in m.opset_import if o.domain == "ai.onnx.ml"), default=None)
        tgt = ML_LABEL_ENCODER_VERSION.get(ml_module_version)
        if src is None or tgt is None or src >= tgt:
            return False
        for nd in all_nodes(m.graph):
            if nd.domain == "ai.onnx.ml":
                a = onnx.defs.get_schema(nd.op_type, src, "ai.onnx.ml").since_version
                b = onnx.defs.get_schema(nd.op_type, tgt, "ai.onnx.ml").since_version
                if a != b:
                    return True
    except Exception:  # noqa: BLE001
        return False
    return False


def classify_build_error(m: onnx.ModelProto, e: BaseException, ml_v: Optional[int] = None) -> str:
    ins = {i.name for i in m.graph.input}
    cls = type(e).__name__
    if cls == "ValidationError" and ml_schema_differs(m, ml_v):
        return "second-domain-version-clash:ValidationError"
    if cls == "ValidationError" and "single static assignment" in str(e):
        k = converter_invalid(m)
        if k:
            return k
    if cls == "RuntimeError" and "owningGraph" in str(e):
        k = converter_asserts(m)
        if k:
            return k
    if cls == "ConvertError":  # onnx.version_converter (adapt_inline), third-party
        return f"version-converter:{cls}:{'sparse' if 'Sparse tensors' in str(e) else 'other'}"
    if cls == "ScopeError":
        return "name-clash:ScopeError"
    opset = next((o.version for o in m.opset_import if o.domain in ("", "ai.onnx")), 17)
    if cls == "ValidationError" and opset < 14 and ("Unrecognized attribute" in str(e) or "No Op registered" in str(e)):
        return "old-opset-not-converted:ValidationError"
    if any(o.name in ins for o in m.graph.output):
        return f"passthrough-output:{cls}"
    return f"build-raises:{cls}"


def bump(v: int, x):
    """The value of x, through an operator that exists only from opset v on (forces the target opset)."""
    op = L.opset_module(v)
    if v in (19, 21):
        return op.identity(x)
    if v in (18, 20):
        return op.reduce_max(x, None, keepdims=1, noop_with_empty_axes=1)
    return x


def naming_facts(scope, node, inline_cls) -> dict:
    """Where every visible name of a build scope comes from (the hypotheses `NameFacts` of
    build_scope_prefixFree), read off the real Scope just before `_Inline.to_onnx(node)`."""
    try:
        k = scope.node[node]
        users, bases, viol = [], [], []
        inlines = [n for o, n in scope.node.name_of.items() if isinstance(o, inline_cls) and o is not node]
        for var, name in scope.var.name_of.items():
            if getattr(var, "_name", None) is not None:
                users.append(name)
                continue
            op_ = var._op
            if op_ not in scope.node.name_of:
                users.append(name)  # `Scope.of(...)` of adapt_inline: every name is given, none generated
                continue
            field = next((f for f, v in op_.outputs.get_vars().items() if v is var), None)
            base = f"{scope.node[op_]}_{field}"
            if name == base or name.startswith(base + "_"):
                bases.append(base)
            else:
                viol.append(f"value name {name} is neither preset nor {base}[_c]")
        def from_inline(n):
            return any(n.startswith(q + "__") for q in inlines)
        for n in scope.var.reserved:
            if not from_inline(n):
                viol.append(f"reserved value name {n} does not come from another Inline node")
        for b in scope.var.base_name_counters:
            if b not in bases and not from_inline(b):
                viol.append(f"value counter key {b} belongs to no visible generated name")
        node_names = list(scope.node.name_of.values())
        for b in scope.node.base_name_counters:
            if not from_inline(b):
                node_names.append(b)
        for n in scope.node.reserved:
            if not from_inline(n):
                viol.append(f"reserved node name {n} does not come from another Inline node")
        d = {"k": k, "users": sorted(set(users)), "varBases": sorted(set(bases)), "inlines": sorted(set(inlines)),
             "nodeNames": sorted(set(node_names))}
        if viol:
            d["violations"] = viol[:5]
        return d
    except Exception as e:  # noqa: BLE001
        return {"unobservable": f"{type(e).__name__}: {e}"}


def chainable(m: onnx.ModelProto, float_ins, float_outs) -> bool:
    """Feeding the first float output back into the float inputs is a legal call."""
    if not float_outs or not float_ins:
        return False
    _, od = L.type_json(next(o for o in m.graph.output if o.name == float_outs[0]).type)["t"]
    for i in m.graph.input:
        if i.name in float_ins:
            _, idims = L.type_json(i.type)["t"]
            if od is not None and idims is not None and (
                len(od) != len(idims)
                or any(isinstance(a, int) and isinstance(b, int) and a != b for a, b in zip(od, idims))
            ):
                return False
    return True


def partner_model(v: int, rank: int = 1) -> onnx.ModelProto:
    """A second model to inline next to m, written against opset v, spelled in the way that is valid ONLY around v:
    Reduce*<axes attribute> below 18, Reduce*(axes input) from 18 on (ReduceSum: attribute below 13). float32 of any
    shape of rank >= 1 in, same shape out: p(x) = x + reduce(x over axis 0, keepdims)."""
    H, NH = onnx.helper, onnx.numpy_helper
    kind = {11: "ReduceSum", 12: "ReduceSum", 13: "ReduceMean", 16: "ReduceL1", 17: "ReduceMax", 18: "ReduceMean", 19: "ReduceMax", 20: "ReduceMin", 21: "ReduceL1"}[v]
    if v >= 18:
        nodes = [H.make_node("Constant", [], ["ax"], value=NH.from_array(np.array([0], np.int64), "ax")),
                 H.make_node(kind, ["px", "ax"], ["pr"], keepdims=1)]
    else:
        nodes = [H.make_node(kind, ["px"], ["pr"], axes=[0], keepdims=1)]
    nodes.append(H.make_node("Add", ["px", "pr"], ["py"]))
    vi = lambda n: H.make_tensor_value_info(n, TP.FLOAT, [None] * rank)  # noqa: E731
    pm = H.make_model(H.make_graph(nodes, "partner", [vi("px")], [vi("py")]), opset_imports=[H.make_operatorsetid("", v)], ir_version=7 if v < 15 else 8)
    safe_full_check(pm)
    return pm


PLACES = ["top", "then", "else", "loop", "nested"]


def oracle_two_models(m: onnx.ModelProto, seed: int) -> list[tuple[str, str]]:
    """TWO different inlined models (m and a partner written against another opset 11-21) in one program, each at the
    top level / in a then / else branch / in a Loop body / nested two bodies deep, either order, the partner on m's result
    or independent - and NO other operator that asks for a newer opset (If-16, Loop-16, Squeeze-13, Neg-13, Constant-13
    only): the opset of the built model is decided by the inlined models alone. Both results, for both values of the
    condition, must be what m and the partner compute. Model-free."""
    from spox import Tensor, argument, build, inline

    rng = random.Random(seed)
    fails: list[tuple[str, str]] = []
    before = m.SerializeToString(deterministic=True)
    m_ref = fresh(before)
    ins = [i.name for i in m.graph.input]
    outs = [o.name for o in m.graph.output]
    opset = next((o.version for o in m.opset_import if o.domain in ("", "ai.onnx")), 17)
    float_ins = [i.name for i in m.graph.input if i.type.tensor_type.elem_type == TP.FLOAT]
    float_outs = [o.name for o in m.graph.output if o.type.tensor_type.elem_type == TP.FLOAT]
    vals1 = input_values(rng, m)
    vals2 = {k: (np.asarray(-v) if v.dtype != np.bool_ else np.array(not bool(v))) for k, v in vals1.items()}
    try:
        d1 = dict(zip(outs, ort_run(m_ref, vals1)))
        d2 = dict(zip(outs, ort_run(m_ref, vals2)))
    except Exception as e:  # noqa: BLE001
        raise Infra(f"onnxruntime cannot run m itself: {e}") from e
    if not float_outs or not float_ins or np.asarray(d1[float_outs[0]]).ndim < 1 or np.asarray(d1[float_outs[0]]).size == 0 \
            or vals1[float_ins[0]].ndim < 1 or vals1[float_ins[0]].size == 0:
        return fails
    link = float_outs[0]
    pv = rng.choice([v for v in (11, 12, 13, 16, 17, 18, 18, 19, 20, 21, 21) if v != opset])
    dependent_wish = rng.random() < 0.6
    pm = None
    where_m, where_p = rng.choice(PLACES), rng.choice(PLACES)
    partner_first = rng.random() < 0.5
    dependent = (not partner_first) and where_m == "top" and dependent_wish
    pm = partner_model(pv, np.asarray(d1[link]).ndim if dependent else vals1[float_ins[0]].ndim)
    label = f"two-models(m@{opset} {where_m}, partner@{pv} {where_p}, {'partner first' if partner_first else 'm first'}{', partner on m' if dependent else ''})"
    op = L.opset_module(17)
    try:
        with warnings.catch_warnings():
            warnings.simplefilter("ignore")
            A = {i.name: argument(spox_type(concrete_for(m, i))) for i in m.graph.input}
            c = argument(Tensor(np.bool_, ()))
            f, g = inline(m), inline(pm)
            negA = {n: (op.neg(A[n]) if n in float_ins else op.not_(A[n])) for n in ins}

            def place(where, thunk, fallback):
                if where == "top":
                    return thunk()
                if where == "then":
                    return op.if_(c, then_branch=lambda: [thunk()], else_branch=lambda: [fallback()])[0]
                if where == "else":
                    return op.if_(c, then_branch=lambda: [fallback()], else_branch=lambda: [thunk()])[0]
                if where == "nested":
                    return op.if_(c, then_branch=lambda: [op.if_(c, then_branch=lambda: [thunk()], else_branch=lambda: [fallback()])[0]],
                                  else_branch=lambda: [fallback()])[0]
                (stacked,) = op.loop(op.const(np.array(1, np.int64)), None, v_initial=[], body=lambda i, cnd: [op.const(np.array(True)), thunk()])
                return op.squeeze(stacked, op.const(np.array([0], np.int64)))

            def do_m():
                return place(where_m, lambda: f(*[A[n] for n in ins])[link], lambda: f(*[negA[n] for n in ins])[link])

            holder: dict = {}

            def do_p():
                px = holder["m"] if dependent else A[float_ins[0]]
                return place(where_p, lambda: g(px)["py"], lambda: op.neg(px))

            if partner_first:
                holder["p"] = do_p()
                holder["m"] = do_m()
            else:
                holder["m"] = do_m()
                holder["p"] = do_p()
            built = build({**{f"arg_{j}": A[n] for j, n in enumerate(ins)}, "outer_cond": c}, {"res_m": holder["m"], "res_p": holder["p"]})
    except Exception as e:  # noqa: BLE001
        return [(classify_build_error(m, e), f"{label}: building raised {type(e).__name__}: {str(e)[:300]}")]
    imports = [(o.domain, o.version) for o in built.opset_import]
    for cv in (True, False):
        taken_m = where_m in ("top", "loop") or (cv and where_m in ("then", "nested")) or (not cv and where_m == "else")
        taken_p = where_p in ("top", "loop") or (cv and where_p in ("then", "nested")) or (not cv and where_p == "else")
        exp_m = (d1 if taken_m else d2)[link]
        px = exp_m if dependent else vals1[float_ins[0]]
        try:
            exp_p = ort_run(pm, {"px": np.asarray(px)})[0] if taken_p else -np.asarray(px)
        except Exception as e:  # noqa: BLE001
            raise Infra(f"onnxruntime cannot run the partner model: {e}") from e
        try:
            got = dict(zip([o.name for o in built.graph.output], ort_run(built, {**{f"arg_{j}": vals1[n] for j, n in enumerate(ins)}, "outer_cond": np.array(cv)})))
        except Exception as e:  # noqa: BLE001
            fails.append((f"outer-model-rejected:{type(e).__name__}", f"{label}: onnxruntime refuses the built model (imports {imports}): {str(e)[:300]}"))
            break
        bad = [k for k, ex in (("res_m", exp_m), ("res_p", exp_p)) if not same(got[k], ex)]
        if bad:
            k = bad[0]
            key = converter_blame(m_ref, [vals1, vals2]) or "result-mismatch:two-models"
            fails.append((key, f"{label}, cond={cv} (imports {imports}): output {k}: built {np.asarray(got[k]).tolist()} but the inlined model computes {np.asarray(exp_m if k == 'res_m' else exp_p).tolist()}"))
            break
    if m.SerializeToString(deterministic=True) != before:
        fails.append(("m-modified", f"{label}: the caller's model changed"))
    return fails


AMBIENTS = ["vp:NONE", "vp:REFERENCE", "vp:ONNXRUNTIME", "tw:NONE", "tw:CRITICAL", "tw:INITIAL", "tw:OUTPUTS", "oo:plain", "oo:promo"]


def ambient_ctx(name: Optional[str]):
    """One documented ambient setting of spox (`spox._future`): value propagation backend, type warning level, operator
    overloading. Nothing the property says depends on them: the same verdicts are demanded inside each."""
    import contextlib

    if name is None:
        return contextlib.nullcontext()
    from spox import _future as F

    kind, val = name.split(":")
    if kind == "vp":
        return F.value_prop_backend(getattr(F.ValuePropBackend, val))
    if kind == "tw":
        return F.type_warning_level(getattr(F.TypeWarningLevel, val))
    return F.operator_overloading(L.opset_module(17), type_promotion=(val == "promo"))


def oracle_compose(m: onnx.ModelProto, form: str, seed: int, ambient: Optional[str] = None) -> list[tuple[str, str]]:
    if ambient is None:
        return _oracle_compose(m, form, seed)
    try:
        cm = ambient_ctx(ambient)
    except Exception as e:  # noqa: BLE001 - the setting does not exist on this tree: not a verdict
        return _oracle_compose(m, form, seed)
    with cm:
        fs = _oracle_compose(m, form, seed)
    return [(k, f"[inside {ambient}] {w}") for k, w in fs]


def _oracle_compose(m: onnx.ModelProto, form: str, seed: int) -> list[tuple[str, str]]:
    """Build an outer program around inline(m) and compare with m itself under onnxruntime.
    Returns a list of (key, description) failures of the property. Model-free."""
    from spox import Tensor, argument, build, inline

    if form == "two-models":
        return oracle_two_models(m, seed)
    rng = random.Random(seed)
    fails: list[tuple[str, str]] = []
    before = m.SerializeToString(deterministic=True)
    m_ref = fresh(before)  # what "m itself computes" is judged on a private copy
    ins = [i.name for i in m.graph.input]
    outs = [o.name for o in m.graph.output]
    opset = next((o.version for o in m.opset_import if o.domain in ("", "ai.onnx")), 17)
    label = form
    mixed_v: Optional[int] = None  # every float result goes through an operator that exists only from this opset on
    ml_v: Optional[int] = None  # ... and through an ai.onnx.ml operator of this spox ml module
    if form.startswith("mixed+"):
        form = form[len("mixed+"):]
        mixed_v = rng.choice([v for v in (18, 18, 19, 20, 21) if v > opset])
    elif form == "ml-mixed":
        form = "once"
        ml_v = rng.choice([3, 4])
        mixed_v = rng.choice([None, 18, 19, 21])
    if mixed_v is not None:
        # collision seeking: a version another domain of m is imported at is a preferred target
        other_vs = sorted({o.version for o in m.opset_import if o.domain not in ("", "ai.onnx") and 18 <= o.version <= 21 and o.version > opset})
        if other_vs and rng.random() < 0.7:
            mixed_v = rng.choice(other_vs)
        outer_v = mixed_v
    else:
        outer_v = max(opset, 17) if form != "mixed-opset" else rng.choice([v for v in (17, 18, 19, 20, 21) if v != opset])
    op = L.opset_module(outer_v)
    float_ins = [i.name for i in m.graph.input if i.type.tensor_type.elem_type == TP.FLOAT]
    float_outs = [o.name for o in m.graph.output if o.type.tensor_type.elem_type == TP.FLOAT]

    def arg_for(i):
        tj = concrete_for(m, i)
        return argument(spox_type(tj))

    def direct(vals: dict, omit=()):
        try:
            return dict(zip(outs, ort_run(m_ref, {k: v for k, v in vals.items() if k not in omit})))
        except Exception as e:  # noqa: BLE001 - m itself is not runnable: not a verdict on inline
            raise Infra(f"onnxruntime cannot run m itself: {e}") from e

    vals1 = input_values(rng, m)
    vals2 = {k: (np.asarray(-v) if v.dtype != np.bool_ else np.array(not bool(v))) for k, v in vals1.items()}
    fshape = tuple(vals1[float_ins[0]].shape) if float_ins else (2,)

    blame_vals = [vals1, vals2]  # every input assignment m is evaluated on in this composition

    def mismatch(default_key: str) -> str:
        return converter_blame(m_ref, blame_vals) or default_key

    A = {i.name: arg_for(i) for i in m.graph.input}
    feeds = {f"arg_{j}": vals1[n] for j, n in enumerate(ins)}
    outer_in = {f"arg_{j}": A[n] for j, n in enumerate(ins)}

    def apply(f, argmap, npos, omit):
        pos = [argmap[n] for n in ins[:npos]]
        kw = {n: argmap[n] for n in ins[npos:] if n not in omit}
        return f(*pos, **kw)

    def neg_args():
        return {n: (op.neg(A[n]) if n in float_ins else op.not_(A[n])) for n in ins}

    expected: dict[str, Any] = {}
    results: dict[str, Any] = {}
    check_built_decl = None
    try:
        with warnings.catch_warnings():
            warnings.simplefilter("ignore")
            npos, omit = pick_call_style(rng, m)
            if form == "once":
                r = apply(inline(m), A, npos, omit)
                results = {f"res_{k}": r[o] for k, o in enumerate(outs)}
                d = direct(vals1, omit)
                expected = {f"res_{k}": d[o] for k, o in enumerate(outs)}
                declared = [L.strip_symbols(L.type_json(o.type)) for o in m.graph.output]
                got = [public_type_json(r[o].type) for o in outs]
                if list(r.keys()) != list(dict.fromkeys(outs)):
                    fails.append(("result-names", f"returned keys {list(r.keys())}, model outputs {outs}"))
                elif got != declared:
                    fails.append(("output-type-mismatch", f"returned types {got}, declared {declared}"))
                check_built_decl = declared
            elif form in ("twice", "shared-callable"):
                f1 = inline(m)
                f2 = f1 if form == "shared-callable" else inline(m)
                r1 = apply(f1, A, npos, omit)
                npos2, omit2 = pick_call_style(rng, m)
                r2 = apply(f2, neg_args(), npos2, omit2)
                d1, d2 = direct(vals1, omit), direct(vals2, omit2)
                for k, o in enumerate(outs):
                    results[f"res_a{k}"], expected[f"res_a{k}"] = r1[o], d1[o]
                    results[f"res_b{k}"], expected[f"res_b{k}"] = r2[o], d2[o]
            elif form in ("chained", "loop-body") and not chainable(m, float_ins, float_outs):
                return fails
            elif form == "loop-body":
                # the callable inside a Loop body: state x -> first float output of m(x, ..outer args..)
                f = inline(m)
                link = float_outs[0]
                trips = rng.randrange(1, 4)
                x0 = A[float_ins[0]]
                cur = vals1[float_ins[0]]
                for _ in range(trips):
                    blame_vals.append({n: (cur if n in float_ins else vals1[n]) for n in ins})
                    cur = direct(blame_vals[-1])[link]
                    if np.asarray(cur).shape != fshape:
                        return fails  # the state changes shape at run time: not a legal Loop state here

                def body(i, c, x):
                    am = {n: (x if n in float_ins else A[n]) for n in ins}
                    return [op.const(np.array(True)), apply(f, am, len(ins), [])[link]]

                (final,) = op.loop(op.const(np.array(trips, np.int64)), None, v_initial=[x0], body=body)
                # build() wants a known shape for results; Loop's carried output may lose it
                final = op.reshape(final, op.const(np.array(fshape, np.int64)))
                results["res_final"], expected["res_final"] = final, np.asarray(cur).reshape(fshape)
            elif form == "history":
                # the same callable (same private copy) built into several programs with different
                # opset surroundings, one after the other; the first program rebuilt at the end
                f = inline(m)
                d = direct(vals1, omit)
                first_bytes = None
                r = apply(f, A, npos, omit)  # ONE Inline node, built into several programs
                for step, v2 in enumerate([None, 18, 21, 19, None]):
                    res = {}
                    for k, o in enumerate(outs):
                        if v2 is not None and o in float_outs:
                            res[f"res_{k}"] = bump(v2, r[o])
                        else:
                            res[f"res_{k}"] = r[o]
                    built = build(dict(outer_in), res)
                    got = dict(zip([o.name for o in built.graph.output], ort_run(built, feeds)))
                    for k, o in enumerate(outs):
                        exp = d[o]
                        if not same(got[f"res_{k}"], exp):
                            fails.append((mismatch("result-mismatch:history"), f"history step {step} (surroundings {v2}): output {k}: inlined {np.asarray(got[f'res_{k}']).tolist()} but m computes {np.asarray(exp).tolist()}"))
                            break
                    if v2 is None:
                        b = built.SerializeToString(deterministic=True)
                        if first_bytes is None:
                            first_bytes = b
                        elif b != first_bytes:
                            fails.append(("history-dependent-build", "the same program (same Vars) built before and after other builds around the same Inline node differs"))
                if m.SerializeToString(deterministic=True) != before:
                    fails.append(("m-modified", "history: the caller's model changed"))
                return fails
            elif form == "name-history":
                # ONE Inline node built into several programs at the SAME target opset under different
                # outer names: permuted argument keys, other result names, an extra Inline node in front
                # (shifts Inline_k). Nothing of one build may leak into the next.
                f = inline(m)
                d = direct(vals1, omit)
                r = apply(f, A, npos, omit)
                r_front = apply(inline(m), neg_args(), len(ins), [])
                d_front = direct(vals2)
                vT = rng.choice([18, 19, 20, 21])
                n_in = len(ins)
                plans = [("plain", 0, "res", False), ("rotated-keys", 1, "res", False), ("renamed-results", 0, "out", False),
                         ("shifted-node", 0, "res", True), ("rotated+renamed+shifted", n_in - 1 if n_in > 1 else 0, "y", True), ("plain-again", 0, "res", False)]
                for label, rot, oname, front in plans:
                    keys = [f"arg_{(j + rot) % n_in}" for j in range(n_in)]
                    o_in = {keys[j]: A[n] for j, n in enumerate(ins)}
                    fd = {keys[j]: vals1[n] for j, n in enumerate(ins)}
                    res, exp = {}, {}
                    if front:
                        for k, o in enumerate(outs):
                            res[f"front_{k}"], exp[f"front_{k}"] = r_front[o], d_front[o]
                    for k, o in enumerate(outs):
                        res[f"{oname}_{k}"] = bump(vT, r[o]) if o in float_outs else r[o]
                        exp[f"{oname}_{k}"] = d[o]
                    try:
                        built = build(o_in, res)
                    except Exception as e:  # noqa: BLE001
                        fails.append((classify_build_error(m, e), f"name-history step {label}: build raised {type(e).__name__}: {str(e)[:250]}"))
                        break
                    try:
                        got = dict(zip([o.name for o in built.graph.output], ort_run(built, fd)))
                    except Exception as e:  # noqa: BLE001
                        fails.append((f"name-history:outer-model-rejected:{type(e).__name__}", f"name-history step {label}: onnxruntime refuses the built model: {str(e)[:250]}"))
                        break
                    bad = [k for k in exp if not same(got[k], exp[k])]
                    if bad:
                        k = bad[0]
                        fails.append((mismatch("result-mismatch:name-history"), f"name-history step {label}: output {k}: inlined {np.asarray(got[k]).tolist()} but m computes {np.asarray(exp[k]).tolist()}"))
                        break
                if m.SerializeToString(deterministic=True) != before:
                    fails.append(("m-modified", "name-history: the caller's model changed"))
                return fails
            elif form == "chained":
                f = inline(m)
                r1 = apply(f, A, npos, omit)
                d1 = direct(vals1, omit)
                link = float_outs[0]
                if np.asarray(d1[link]).shape != fshape:
                    return fails  # feeding it back is not a legal call at run time
                A2 = {n: (r1[link] if n in float_ins else A[n]) for n in ins}
                v2 = {n: (d1[link] if n in float_ins else vals1[n]) for n in ins}
                blame_vals.append(v2)
                r2 = apply(f, A2, len(ins), [])
                d2 = direct(v2)
                for k, o in enumerate(outs):
                    results[f"res_{k}"], expected[f"res_{k}"] = r2[o], d2[o]
                results["mid"], expected["mid"] = r1[link], d1[link]
            elif form in ("if-body", "nested-if-twice"):
                c = argument(Tensor(np.bool_, ()))
                outer_in["outer_cond"] = c
                cv = rng.random() < 0.5
                feeds["outer_cond"] = np.array(cv)
                f = inline(m)
                npos2, omit2 = pick_call_style(rng, m)
                if form == "if-body":
                    rs = op.if_(
                        c,
                        then_branch=lambda: [apply(f, A, npos, omit)[o] for o in outs],
                        else_branch=lambda: [apply(f, neg_args(), npos2, omit2)[o] for o in outs],
                    )
                    d = direct(vals1, omit) if cv else direct(vals2, omit2)
                else:
                    # one call outside, the same callable again inside both branches
                    r0 = apply(f, A, npos, omit)
                    rs = op.if_(
                        c,
                        then_branch=lambda: [apply(inline(m), A, npos, omit)[o] for o in outs],
                        else_branch=lambda: [apply(f, neg_args(), npos2, omit2)[o] for o in outs],
                    )
                    d = direct(vals1, omit) if cv else direct(vals2, omit2)
                    d0 = direct(vals1, omit)
                    for k, o in enumerate(outs):
                        results[f"res_o{k}"], expected[f"res_o{k}"] = r0[o], d0[o]
                for k, o in enumerate(outs):
                    results[f"res_{k}"], expected[f"res_{k}"] = rs[k], d[o]
            elif form == "mixed-opset":
                r = apply(inline(m), A, npos, omit)
                d = direct(vals1, omit)
                for k, o in enumerate(outs):
                    if o in float_outs:
                        results[f"res_{k}"], expected[f"res_{k}"] = bump(outer_v, r[o]), d[o]
                    else:
                        results[f"res_{k}"], expected[f"res_{k}"] = r[o], d[o]
            if mixed_v is not None or ml_v is not None:
                for k in list(results):
                    if getattr(results[k].type, "dtype", None) == np.float32:
                        if mixed_v is not None:
                            results[k] = bump(mixed_v, results[k])
                        if ml_v is not None:
                            results[k] = ml_bump(ml_v, op, results[k])
            outer = build(outer_in, results)
    except Infra:
        raise
    except Exception as e:  # noqa: BLE001
        fails.append((classify_build_error(m, e, ml_v), f"{label}: building around inline(m) raised {type(e).__name__}: {str(e)[:300]}"))
        outer = None
    if outer is not None and check_built_decl is not None and mixed_v is None and ml_v is None:
        # the built model declares, for the Vars inline(m) returned, m's output types literally (0 stays 0)
        built_decl = {o.name: L.strip_symbols(L.type_json(o.type)) for o in outer.graph.output}
        for k, dcl in enumerate(check_built_decl):
            if built_decl.get(f"res_{k}") != dcl:
                fails.append(("built-output-type-mismatch", f"{label}: the built model declares {built_decl.get(f'res_{k}')} for output {k}, m declares {dcl}"))
                break
    if outer is not None:
        try:
            got = dict(zip([o.name for o in outer.graph.output], ort_run(outer, feeds)))
        except Exception as e:  # noqa: BLE001
            fails.append((f"outer-model-rejected:{type(e).__name__}", f"{label}: onnxruntime refuses the built model (imports {[(o.domain, o.version) for o in outer.opset_import]}): {str(e)[:300]}"))
            got = None
        if got is not None:
            for k, exp in expected.items():
                if not same(got[k], exp):
                    fails.append((mismatch(f"result-mismatch:{label}"), f"{label}: output {k} (imports {[(o.domain, o.version) for o in outer.opset_import]}): inlined {np.asarray(got[k]).tolist()} but m computes {np.asarray(exp).tolist()}"))
                    break
    if m.SerializeToString(deterministic=True) != before:
        fails.append(("m-modified", f"{label}: the caller's model changed"))
    return fails


def used_domains(g: onnx.GraphProto, acc: set) -> set:
    for nd in g.node:
        acc.add("" if nd.domain in ("", "ai.onnx") else nd.domain)
        for a in nd.attribute:
            if a.type == onnx.AttributeProto.GRAPH:
                used_domains(a.g, acc)
            elif a.type == onnx.AttributeProto.GRAPHS:
                for sg in a.graphs:
                    used_domains(sg, acc)
    return acc


def count_ops(g: onnx.GraphProto, acc: dict) -> dict:
    for nd in g.node:
        if nd.domain not in ("", "ai.onnx"):
            acc[(nd.domain, nd.op_type)] = acc.get((nd.domain, nd.op_type), 0) + 1
        for a in nd.attribute:
            if a.type == onnx.AttributeProto.GRAPH:
                count_ops(a.g, acc)
            elif a.type == onnx.AttributeProto.GRAPHS:
                for sg in a.graphs:
                    count_ops(sg, acc)
    return acc


def oracle_build_only(m: onnx.ModelProto, seed: int) -> list[tuple[str, str]]:
    """Models with custom-domain nodes (anywhere, also only inside bodies): the model built around
    inline(m) must build, import every domain its nodes use and contain m's custom nodes. Model-free."""
    from spox import argument, build, inline

    fails = []
    try:
        with warnings.catch_warnings():
            warnings.simplefilter("ignore")
            A = [argument(spox_type(concrete_for(m, i))) for i in m.graph.input]
            r = inline(m)(*A)
            outer = build({f"arg_{j}": a for j, a in enumerate(A)}, {f"res_{k}": r[o.name] for k, o in enumerate(m.graph.output)})
    except Exception as e:  # noqa: BLE001
        return [(classify_build_error(m, e), f"build-only: building around inline(m) raised {type(e).__name__}: {str(e)[:300]}")]
    imported = {("" if o.domain in ("", "ai.onnx") else o.domain) for o in outer.opset_import}
    missing = used_domains(outer.graph, set()) - imported
    if missing:
        fails.append(("missing-opset-import", f"build-only: nodes use domains {sorted(missing)} that the built model does not import"))
    want, got = count_ops(m.graph, {}), count_ops(outer.graph, {})
    if want != got:
        fails.append(("custom-nodes-lost", f"build-only: custom nodes of m {want}, in the built model {got}"))
    return fails


HOSTILE_HIST: dict[str, int] = {}
ESCALATE = False


def oracle_hostile_names(m: onnx.ModelProto, seed: int, variants=None) -> list[tuple[str, str]]:
    """The complement of build_scope_prefixFree's condition: user-chosen argument / result names inside
    the `Inline_0__` family (or equal to a generated name). The build must raise or be correct - never
    a wrong or invalid model. Model-free."""
    from spox import argument, build, inline

    rng = random.Random(seed)
    fails = []
    m_ref = fresh(m.SerializeToString(deterministic=True))
    ins = [i.name for i in m.graph.input]
    outs = [o.name for o in m.graph.output]
    inner = sorted({n for nd in m.graph.node for n in list(nd.output) + [nd.name]} | {i.name for i in m.graph.initializer}
                   - set(ins) - set(outs) - {""})
    inner = [n for n in inner if n] or ["x"]
    vals = input_values(rng, m)
    try:
        d = dict(zip(outs, ort_run(m_ref, vals)))
    except Exception as e:  # noqa: BLE001
        raise Infra(f"onnxruntime cannot run m itself: {e}") from e
    for variant in (variants or [rng.choice(["arg-clash", "res-clash", "arg-family", "res-generated", "both"])]):
        t = rng.choice(inner)
        arg_keys = [f"arg_{j}" for j in range(len(ins))]
        res_keys = [f"res_{k}" for k in range(len(outs))]
        if variant in ("arg-clash", "both"):
            arg_keys[rng.randrange(len(ins))] = f"Inline_0__{t}"
        if variant == "arg-family":
            arg_keys[rng.randrange(len(ins))] = "Inline_0__no_such_inner_name"
        if variant in ("res-clash", "both"):
            res_keys[rng.randrange(len(outs))] = f"Inline_0__{rng.choice(inner)}"
        if variant == "res-generated":
            res_keys[rng.randrange(len(outs))] = f"Inline_0_outputs_{rng.randrange(len(outs))}"
        try:
            with warnings.catch_warnings():
                warnings.simplefilter("ignore")
                A = [argument(spox_type(concrete_for(m, i))) for i in m.graph.input]
                r = inline(m)(*A)
                built = build(dict(zip(arg_keys, A)), {rk: r[o] for rk, o in zip(res_keys, outs)})
        except Exception as e:  # noqa: BLE001 - refusing is fine
            key = f"{variant}:raised:{type(e).__name__}"
            HOSTILE_HIST[key] = HOSTILE_HIST.get(key, 0) + 1
            continue
        try:
            # (onnxruntime aborts the process on some invalid models: it runs in a child process, see ort_run)
            got = dict(zip([o.name for o in built.graph.output], ort_run(built, dict(zip(arg_keys, [vals[n] for n in ins])))))
        except Exception as e:  # noqa: BLE001
            fails.append(("invalid-model-under-hostile-names", f"{variant}: build accepted names {arg_keys} -> {res_keys} but onnxruntime refuses the model: {str(e)[:200]}"))
            continue
        bad = [rk for rk, o in zip(res_keys, outs) if not same(got[rk], d[o])]
        if bad:
            fails.append((converter_blame(m_ref, [vals]) or "wrong-model-under-hostile-names", f"{variant}: names {arg_keys} -> {res_keys}: output {bad[0]} = {np.asarray(got[bad[0]]).tolist()} but m computes {np.asarray(d[outs[res_keys.index(bad[0])]]).tolist()}"))
        else:
            key = f"{variant}:built-correctly"
            HOSTILE_HIST[key] = HOSTILE_HIST.get(key, 0) + 1
    return fails


def oracle_errors(m: onnx.ModelProto, seed: int, ambient: Optional[str] = None) -> list[tuple[str, str]]:
    """Wrong calls must raise TypeError at the call; local functions => ValueError. Model-free."""
    if ambient is not None:
        try:
            cm = ambient_ctx(ambient)
        except Exception:  # noqa: BLE001
            return oracle_errors(m, seed)
        with cm:
            return [(k, f"[inside {ambient}] {w}") for k, w in oracle_errors(m, seed)]
    from spox import argument, inline

    rng = random.Random(seed)
    fails = []
    before = m.SerializeToString(deterministic=True)
    ins = list(m.graph.input)
    names = [i.name for i in ins]
    defaults = {i.name for i in m.graph.initializer}

    def arg(i, wrong=False):
        tj = concrete_for(m, i)
        if wrong:
            e, dims = tj["t"]
            tj = {"t": [TP.INT64 if e != TP.INT64 else TP.FLOAT, dims]}
        return argument(spox_type(tj))

    def expect_type_error(label, pos, kw):
        try:
            with warnings.catch_warnings():
                warnings.simplefilter("ignore")
                inline(m)(*pos, **kw)
        except TypeError:
            return
        except Exception as e:  # noqa: BLE001
            fails.append((f"{label}:{type(e).__name__}", f"{label}: raised {type(e).__name__} instead of TypeError: {str(e)[:200]}"))
            return
        fails.append((f"{label}-accepted", f"{label}: the call was accepted (signature {names}, defaults {sorted(defaults)})"))

    full = [arg(i) for i in ins]
    expect_type_error("surplus-positional", full + [arg(ins[-1])], {})
    req = [n for n in names if n not in defaults]
    if req:
        drop = rng.choice(req)
        expect_type_error("missing-argument", [], {n: a for n, a in zip(names, full) if n != drop})
    j = rng.randrange(len(ins))
    expect_type_error("duplicate-argument", full[: j + 1], {n: a for n, a in list(zip(names, full))[j:]})
    expect_type_error("unknown-keyword", [], {**dict(zip(names, full)), "no_such_input": arg(ins[0])})
    for init_name in [i.name for i in m.graph.initializer if i.name not in names][:1]:
        # an initializer that is not an input is a constant, not a parameter
        expect_type_error("initializer-keyword", [], {**dict(zip(names, full)), init_name: arg(ins[0])})
    j = rng.randrange(len(ins))
    bad = list(full)
    bad[j] = arg(ins[j], wrong=True)
    if rng.random() < 0.5:
        expect_type_error("wrong-type", bad, {})
    else:
        expect_type_error("wrong-type", [], dict(zip(names, bad)))
    # same rank, one DECLARED constant dimension replaced by another constant (0 <-> non-zero included): cannot match
    cands = [(jj, q, d) for jj, i in enumerate(ins) for q, d in enumerate((L.type_json(i.type) or {"t": [0, None]})["t"][1] or [])
             if isinstance(d, int) and "t" in (L.type_json(i.type) or {})]
    if cands:
        jj, q, d = rng.choice(cands)
        tj = concrete_for(m, ins[jj])
        e, dims = tj["t"]
        other = rng.choice([x for x in (0, 1, 2, 3, 5) if x != d])
        bad2 = list(full)
        bad2[jj] = argument(spox_type({"t": [e, [other if qq == q else x for qq, x in enumerate(dims)]]}))
        expect_type_error("wrong-shape", bad2, {})
    try:
        inline(L.add_local_function(m))
        fails.append(("functions-accepted", "a model defining local functions was not refused"))
    except ValueError:
        pass
    except Exception as e:  # noqa: BLE001
        fails.append((f"functions:{type(e).__name__}", f"local functions: raised {type(e).__name__} instead of ValueError"))
    if m.SerializeToString(deterministic=True) != before:
        fails.append(("m-modified", "errors: the caller's model changed"))
    return fails


# ------------------------------------------------------------------------------------------------
# case generation
# ------------------------------------------------------------------------------------------------


def valid(m: onnx.ModelProto, runnable: bool, rng: random.Random) -> bool:
    try:
        safe_full_check(m)
        if runnable:
            ort_run(m, input_values(rng, m))
        return True
    except Exception:  # noqa: BLE001
        return False


def fixed_corner_models() -> list[tuple[onnx.ModelProto, dict]]:
    """The shapes behind the defects of the pinned tree + a few fixed hostile ones."""
    H, NH = onnx.helper, onnx.numpy_helper
    f2 = lambda n, s=(2,): H.make_tensor_value_info(n, TP.FLOAT, list(s))  # noqa: E731

    def mk(nodes, ins, outs, opset=17, **kw):
        return H.make_model(H.make_graph(nodes, "g", ins, outs, **kw), opset_imports=[H.make_operatorsetid("", opset)], ir_version=8)

    out = []
    out.append((mk([H.make_node("Add", ["x", "x"], ["y"])], [f2("x")], [f2("y"), f2("x")]), ["output-is-input"]))
    out.append((mk([H.make_node("Abs", ["a"], ["y"])], [f2("a"), f2("w")], [f2("y"), f2("w")],
                   initializer=[NH.from_array(np.array([1, 2], np.float32), "w")]), ["output-is-input", "default-valued-input"]))
    out.append((mk([H.make_node("Abs", ["a"], ["x"], name="x"), H.make_node("Neg", ["x"], ["x_0"]), H.make_node("Add", ["x", "x_0"], ["y"])],
                   [f2("a")], [f2("y")]), ["node-name-is-value-name"]))
    out.append((mk([H.make_node("Neg", ["a"], ["x_0"]), H.make_node("Abs", ["a"], ["x"], name="x"), H.make_node("Add", ["x", "x_0"], ["y"])],
                   [f2("a")], [f2("y")]), ["node-name-is-value-name"]))
    out.append((mk([H.make_node("Add", ["x", "w"], ["y"])], [f2("x")], [f2("y"), f2("w")],
                   initializer=[NH.from_array(np.array([1, 2], np.float32), "w")]), ["output-is-initializer"]))
    out.append((mk([H.make_node("Add", ["Inline_0__x", "Inline_0__x_0"], ["Inline_0__Inline_0__x"]),
                    H.make_node("Neg", ["Inline_0__Inline_0__x"], ["Inline_0_outputs_0"], name="Inline_0__x")],
                   [f2("Inline_0__x", ("N",)), f2("Inline_0__x_0", ("N",))], [f2("Inline_0_outputs_0", ("N",))], opset=13), ["hostile-names"]))
    rs = mk([H.make_node("ReduceSum", ["x"], ["y"], axes=[0], keepdims=1)], [f2("x")], [f2("y", (1,))], opset=12)
    rs.ir_version = 7
    out.append((rs, ["opset-12", "no-chain"]))
    rm = mk([H.make_node("ReduceMean", ["x"], ["y"], axes=[0], keepdims=1)], [f2("x")], [f2("y", (1,))], opset=13)
    out.append((rm, ["opset-13", "no-chain", "attribute-becomes-input-at-18"]))
    # duplicate output names are accepted by onnx.checker and onnxruntime (duplicate inputs are not)
    out.append((mk([H.make_node("Abs", ["a"], ["y"]), H.make_node("Neg", ["y"], ["w"])], [f2("a")], [f2("y"), f2("w"), f2("y")]),
                ["duplicate-output-names", "oracle-only"]))
    # Loop body holding an If that captures values of m's top level (two levels up)
    bvi = lambda n, e, sh: H.make_tensor_value_info(n, e, sh)  # noqa: E731
    then_g = H.make_graph([H.make_node("Add", ["xi", "x"], ["t"])], "then_g", [], [f2("t")])
    else_g = H.make_graph([H.make_node("Mul", ["xi", "w"], ["t"])], "else_g", [], [f2("t")])
    body_g = H.make_graph([H.make_node("Identity", ["ci"], ["co"]),
                           H.make_node("If", ["c"], ["u"], then_branch=then_g, else_branch=else_g),
                           H.make_node("Sub", ["u", "x"], ["xo"])], "loop_body",
                          [bvi("it", TP.INT64, []), bvi("ci", TP.BOOL, []), f2("xi")], [bvi("co", TP.BOOL, []), f2("xo")])
    out.append((mk([H.make_node("Constant", [], ["M"], value=NH.from_array(np.array(3, np.int64), "M")),
                    H.make_node("Loop", ["M", "", "x"], ["y"], body=body_g)],
                   [f2("x"), bvi("c", TP.BOOL, [])], [f2("y")],
                   initializer=[NH.from_array(np.array([2, 0.5], np.float32), "w")]),
                ["if-inside-loop", "loop-body-captures-outer", "initializer"]))
    sp = H.make_sparse_tensor(NH.from_array(np.array([3.0], np.float32), "s"), NH.from_array(np.array([1], np.int64), ""), [2])
    out.append((mk([H.make_node("Add", ["x", "s"], ["y"])], [f2("x")], [f2("y")], opset=14, sparse_initializer=[sp]),
                ["sparse-initializer", "opset-14"]))
    # --- the converter turns a former attribute into a graph INITIALIZER (pads of Pad-10): adapt_inline makes it a Constant
    p10 = mk([H.make_node("Pad", ["x"], ["p"], pads=[1, 0], mode="constant", value=0.5), H.make_node("Neg", ["p"], ["y"])],
             [f2("x")], [f2("y", (3,))], opset=10)
    p10.ir_version = 5
    out.append((p10, ["opset-10", "converter-introduces-initializer", "no-chain"]))
    p10b_t = H.make_graph([H.make_node("Pad", ["x"], ["t"], pads=[0, 1], mode="edge")], "then_g", [], [f2("t", (3,))])
    p10b_e = H.make_graph([H.make_node("Pad", ["x"], ["t"], pads=[1, 0], mode="reflect")], "else_g", [], [f2("t", (3,))])
    p10b = mk([H.make_node("Pad", ["x"], ["q"], pads=[0, 0]), H.make_node("If", ["c"], ["y"], then_branch=p10b_t, else_branch=p10b_e)],
              [f2("x"), bvi("c", TP.BOOL, [])], [f2("y", (3,)), f2("q")], opset=10)
    p10b.ir_version = 5
    out.append((p10b, ["opset-10", "converter-introduces-initializer", "body-initializer", "no-chain"]))
    # --- literal 0 dimensions, dim_param "", dimensions without fields in the declared types
    z = H.make_model(H.make_graph([H.make_node("Add", ["x", "y"], ["s"]), H.make_node("Abs", ["s"], ["o"])], "g",
                                  [f2("x", (0, 3)), f2("y", ("", 3))], [f2("o", (0, 3)), f2("s", (None, 3))], doc_string="runtime-shape:[0, 3]"),
                     opset_imports=[H.make_operatorsetid("", 17)], ir_version=8)
    out.append((z, ["declared-types", "zero-size", "decl:literal-0", "decl:dim_param-empty", "decl:dim-missing-fields", "no-chain"]))
    # --- initializers OWNED BY BODIES of m (If branches, Loop body, Scan body, depth 2): renamed with the body's names
    ib_t = H.make_graph([H.make_node("Add", ["x", "B"], ["t"])], "then_g", [], [f2("t")], initializer=[NH.from_array(np.array([1, 2], np.float32), "B")])
    ib_e = H.make_graph([H.make_node("Mul", ["x", "S"], ["t"])], "else_g", [], [f2("t")], initializer=[NH.from_array(np.array([3, 4], np.float32), "S")])
    out.append((mk([H.make_node("If", ["c"], ["y"], then_branch=ib_t, else_branch=ib_e)], [f2("x"), bvi("c", TP.BOOL, [])], [f2("y")]),
                ["body-initializer", "subgraph-captures-outer"]))
    ib_in = H.make_graph([H.make_node("Sub", ["xi", "D"], ["t"])], "then_g", [], [f2("t")], initializer=[NH.from_array(np.array([0.5, 0.25], np.float32), "D")])
    ib_in2 = H.make_graph([H.make_node("Add", ["xi", "B"], ["t"])], "else_g", [], [f2("t")])
    ib_lb = H.make_graph([H.make_node("Identity", ["ci"], ["co"]), H.make_node("If", ["c"], ["u"], then_branch=ib_in, else_branch=ib_in2),
                          H.make_node("Mul", ["u", "B"], ["xo"])], "loop_body",
                         [bvi("it", TP.INT64, []), bvi("ci", TP.BOOL, []), f2("xi")], [bvi("co", TP.BOOL, []), f2("xo")],
                         initializer=[NH.from_array(np.array([2, -1], np.float32), "B")])
    out.append((mk([H.make_node("Constant", [], ["M"], value=NH.from_array(np.array(2, np.int64), "M")),
                    H.make_node("Loop", ["M", "", "x"], ["y"], body=ib_lb)], [f2("x"), bvi("c", TP.BOOL, [])], [f2("y")],
                   initializer=[NH.from_array(np.array([7, 7], np.float32), "W")]),
                ["body-initializer", "if-inside-loop", "loop-body-captures-outer", "initializer"]))
    ib_sc = H.make_graph([H.make_node("Add", ["si", "K"], ["s1"]), H.make_node("Mul", ["s1", "xi"], ["so"]), H.make_node("Identity", ["so"], ["sc"])], "scan_body",
                         [f2("si"), f2("xi")], [f2("so"), f2("sc")], initializer=[NH.from_array(np.array([0.5, 1.5], np.float32), "K")])
    out.append((mk([H.make_node("Constant", [], ["sh"], value=NH.from_array(np.array([1, 2], np.int64), "sh")), H.make_node("Reshape", ["x", "sh"], ["seq"]),
                    H.make_node("Scan", ["x", "seq"], ["y", "st"], body=ib_sc, num_scan_inputs=1)], [f2("x")], [f2("y")]),
                ["body-initializer", "scan-body"]))
    # --- the version family: changed operators ONLY inside bodies, second domains, known converter defect
    f3 = lambda n: H.make_tensor_value_info(n, TP.FLOAT, [2, 3, 4])  # noqa: E731
    cb = bvi("c", TP.BOOL, [])
    t_g = H.make_graph([H.make_node("ReduceMean", ["x"], ["tm"], axes=[1], keepdims=1), H.make_node("Sub", ["x", "tm"], ["t"])], "then_g", [], [f3("t")])
    e_g = H.make_graph([H.make_node("Split", ["x"], ["ea", "eb"], axis=2), H.make_node("Concat", ["eb", "ea"], ["t"], axis=2)], "else_g", [], [f3("t")])
    out.append((mk([H.make_node("If", ["c"], ["y0"], then_branch=t_g, else_branch=e_g), H.make_node("Add", ["y0", "x"], ["y"])],
                   [f3("x"), cb], [f3("y")], opset=17), ["opset-17", "version-family", "sig@depth1", "placement:body-only"]))
    # depth 2: Loop body holding an If whose branches hold the changed operators; top level: Loop, Constant, Mul only
    t2 = H.make_graph([H.make_node("ReduceMax", ["xi"], ["tm"], axes=[0, 2], keepdims=1), H.make_node("Add", ["xi", "tm"], ["t"])], "then_g", [], [f3("t")])
    e2 = H.make_graph([H.make_node("ReduceL2", ["xi"], ["tm"], axes=[-1], keepdims=1), H.make_node("Sub", ["xi", "tm"], ["t"])], "else_g", [], [f3("t")])
    lb = H.make_graph([H.make_node("Identity", ["ci"], ["co"]), H.make_node("If", ["c"], ["xo"], then_branch=t2, else_branch=e2)], "loop_body",
                      [bvi("it", TP.INT64, []), bvi("ci", TP.BOOL, []), f3("xi")], [bvi("co", TP.BOOL, []), f3("xo")])
    out.append((mk([H.make_node("Constant", [], ["M"], value=NH.from_array(np.array(2, np.int64), "M")),
                    H.make_node("Loop", ["M", "", "x"], ["y0"], body=lb), H.make_node("Mul", ["y0", "x"], ["y"])],
                   [f3("x"), cb], [f3("y")], opset=16), ["opset-16", "version-family", "sig@depth2", "placement:body-only"]))
    # same signature, other meaning: Softmax-11 (coerce to 2D) only inside an If body
    t3 = H.make_graph([H.make_node("Softmax", ["x"], ["t"])], "then_g", [], [f3("t")])
    e3 = H.make_graph([H.make_node("LogSoftmax", ["x"], ["t"], axis=0)], "else_g", [], [f3("t")])
    sm = mk([H.make_node("If", ["c"], ["y"], then_branch=t3, else_branch=e3)], [f3("x"), cb], [f3("y")], opset=11)
    sm.ir_version = 7
    out.append((sm, ["opset-11", "version-family", "meaning@depth1", "placement:body-only"]))
    # a custom-domain node (onnxruntime contrib operator) and an ai.onnx.ml 1 node next to a changed default-domain operator
    two = H.make_model(H.make_graph(
        [H.make_node("ReduceMin", ["x"], ["r"], axes=[1], keepdims=1), H.make_node("Gelu", ["r"], ["g"], domain="com.microsoft"),
         H.make_node("Constant", [], ["s2"], value=NH.from_array(np.array([2, 4], np.int64), "s2")),
         H.make_node("Constant", [], ["s3"], value=NH.from_array(np.array([2, 1, 4], np.int64), "s3")),
         H.make_node("Reshape", ["g", "s2"], ["g2"]), H.make_node("Scaler", ["g2"], ["sc"], domain="ai.onnx.ml", offset=[0.5], scale=[2.0]),
         H.make_node("Reshape", ["sc", "s3"], ["g3"]), H.make_node("Add", ["x", "g3"], ["y"])],
        "g", [f3("x")], [f3("y")]), opset_imports=[H.make_operatorsetid("", 17), H.make_operatorsetid("com.microsoft", 1), H.make_operatorsetid("ai.onnx.ml", 1)], ir_version=8)
    out.append((two, ["opset-17", "version-family", "second-domain:ai.onnx.ml", "second-domain:com.microsoft", "sig@depth0"]))
    # no default-domain import at all (only contrib operators); the preamble Constant of spox is a default-domain node
    oc = H.make_model(H.make_graph([H.make_node("Gelu", ["x"], ["g"], domain="com.microsoft"), H.make_node("BiasGelu", ["g", "w"], ["y"], domain="com.microsoft")],
                                   "g", [f3("x")], [f3("y"), f3("x")], initializer=[NH.from_array(np.array([0.5, 1, 2, 3], np.float32), "w")]),
                      opset_imports=[H.make_operatorsetid("com.microsoft", 1)], ir_version=8)
    out.append((oc, ["version-family", "second-domain:com.microsoft", "no-default-domain-import", "output-is-input"]))
    # a changed operator inside the body of a SequenceMap (function operator with a graph attribute, opset 17)
    smb = H.make_graph([H.make_node("ReduceMean", ["e"], ["em"], axes=[1], keepdims=1), H.make_node("Sub", ["e", "em"], ["eo"])], "b", [f3("e")], [f3("eo")])
    out.append((mk([H.make_node("SequenceConstruct", ["x", "x"], ["s"]), H.make_node("SequenceMap", ["s"], ["s2"], body=smb),
                    H.make_node("Constant", [], ["i"], value=NH.from_array(np.array(1, np.int64), "i")), H.make_node("SequenceAt", ["s2", "i"], ["y"])],
                   [f3("x")], [f3("y")], opset=17), ["opset-17", "version-family", "sig@depth1", "SequenceMap-body"]))
    # known (third-party): Hardmax changed meaning at 13, the converter copies it verbatim
    hm = mk([H.make_node("Hardmax", ["x"], ["y"])], [f3("x")], [f3("y")], opset=11)
    hm.ir_version = 7
    out.append((hm, ["opset-11", "version-family", "hardmax-pre-13"]))
    # known (third-party): the Softmax 12 -> 13 adapter fails when the result is captured by a body
    cap = mk([H.make_node("Softmax", ["x"], ["sx"]),
              H.make_node("If", ["c"], ["y"], then_branch=H.make_graph([H.make_node("Neg", ["sx"], ["t"])], "then_g", [], [f3("t")]),
                          else_branch=H.make_graph([H.make_node("Abs", ["sx"], ["t"])], "else_g", [], [f3("t")]))],
             [f3("x"), cb], [f3("y")], opset=12)
    cap.ir_version = 7
    out.append((cap, ["opset-12", "version-family", "softmax-result-captured"]))
    # known (third-party): values the converter introduces at two nesting levels get the same name
    in2 = H.make_graph([H.make_node("Neg", ["u"], ["un0"]), H.make_node("Relu", ["un0"], ["un"]), H.make_node("ReduceMean", ["un"], ["um"], axes=[1], keepdims=1), H.make_node("Sub", ["u", "um"], ["t2"])], "then_g", [], [f3("t2")])
    in3 = H.make_graph([H.make_node("Abs", ["u"], ["un0"]), H.make_node("Floor", ["un0"], ["un"]), H.make_node("ReduceMax", ["un"], ["um"], axes=[1], keepdims=1), H.make_node("Add", ["u", "um"], ["t2"])], "else_g", [], [f3("t2")])
    lvl1 = lambda nm: H.make_graph([H.make_node("ReduceMin", ["x"], ["xm"], axes=[2], keepdims=1), H.make_node("Add", ["x", "xm"], ["u"]),  # noqa: E731
                                    H.make_node("If", ["c"], ["t"], then_branch=in2, else_branch=in3)], nm, [], [f3("t")])
    out.append((mk([H.make_node("If", ["c"], ["y"], then_branch=lvl1("then_g"), else_branch=lvl1("else_g"))], [f3("x"), cb], [f3("y")], opset=17),
                ["opset-17", "version-family", "changed-operators-at-two-nesting-levels"]))
    # known: ai.onnx.ml 1 LabelEncoder (classes_strings) next to an ai.onnx.ml >= 2 operator of the outer program
    le = H.make_model(H.make_graph(
        [H.make_node("Cast", ["x"], ["xi"], to=TP.INT64), H.make_node("LabelEncoder", ["xi"], ["xs"], domain="ai.onnx.ml", classes_strings=["a", "b", "c"], default_string="a"),
         H.make_node("LabelEncoder", ["xs"], ["xj"], domain="ai.onnx.ml", classes_strings=["c", "b", "a"], default_int64=-7),
         H.make_node("Cast", ["xj"], ["xf"], to=TP.FLOAT), H.make_node("Add", ["x", "xf"], ["y"])],
        "g", [f3("x")], [f3("y")]), opset_imports=[H.make_operatorsetid("", 17), H.make_operatorsetid("ai.onnx.ml", 1)], ir_version=8)
    out.append((le, ["opset-17", "version-family", "second-domain:ai.onnx.ml", "ml-1-label-encoder"]))
    return [(m, {"features": sorted(ft + ["corner"]), "runnable": True, "opset": next((o.version for o in m.opset_import if o.domain in ("", "ai.onnx")), 17), "kind": "corner"}) for m, ft in out]


def make_models(ck: core.Check, n_hand: int, n_spox: int, n_vbody: int = 0, n_types: int = 0):
    rng = ck.rng
    models = list(fixed_corner_models())
    n_corner = len(models)
    dropped = 0
    n_v = 0
    while n_v < n_vbody:
        # older opsets with the changed operators inside bodies / second domains (lib_inline_versions)
        m, meta = LV.VersionGen(rng).model()
        if valid(m, True, rng):
            models.append((m, meta))
            n_v += 1
        else:
            dropped += 1
            if dropped > 5 * n_vbody + 20:
                raise RuntimeError("version generator produces mostly invalid models")
    n_t = 0
    while n_t < n_types:
        m, meta = L.TypeGen(rng).model()
        if valid(m, True, rng):
            models.append((m, meta))
            n_t += 1
        else:
            dropped += 1
            if dropped > 10 * n_types + 50:
                raise RuntimeError("type generator produces mostly invalid models")
    while len(models) < n_corner + n_vbody + n_types + n_hand:
        m, meta = L.HandGen(rng).model()
        if valid(m, meta["runnable"], rng):
            models.append((m, meta))
        else:
            dropped += 1
            if dropped > 20 * n_hand + 50:
                raise RuntimeError("hand generator produces mostly invalid models")
    # every model is snapshotted as bytes the moment it exists; all later phases work on fresh copies
    snaps = [m.SerializeToString(deterministic=True) for m, _ in models]
    library = [fresh(b) for b, (m, meta) in zip(snaps, models) if meta["runnable"] and len(m.graph.output) >= 1
               and "version-family" not in meta["features"] and meta["kind"] not in ("vbody", "types")
               and "declared-types" not in meta["features"]][:40]
    with warnings.catch_warnings():
        warnings.simplefilter("ignore")
        made = 0
        while made < n_spox:
            try:
                m, meta = L.spox_program(rng, library)
            except Exception:  # noqa: BLE001 - e.g. the (fixed) pass-through bug on a mutated tree
                dropped += 1
                if dropped > 20 * (n_hand + n_spox) + 50:
                    raise
                continue
            if valid(m, True, rng):
                models.append((m, meta))
                snaps.append(m.SerializeToString(deterministic=True))
                library.append(fresh(snaps[-1]))
                made += 1
            else:
                dropped += 1
    return [(fresh(b), meta) for b, (_, meta) in zip(snaps, models)], snaps, dropped


def fresh(b: bytes) -> onnx.ModelProto:
    m = onnx.ModelProto()
    m.ParseFromString(b)
    return m


def purity(m: onnx.ModelProto) -> list[tuple[str, str]]:
    """inline(m) alone (and one call) must leave m's bytes alone. Model-free."""
    from spox import argument, inline

    before = m.SerializeToString(deterministic=True)
    try:
        with warnings.catch_warnings():
            warnings.simplefilter("ignore")
            f = inline(m)
            mid = m.SerializeToString(deterministic=True)
            f(*[argument(spox_type(concrete_for(m, i))) for i in m.graph.input])
    except Exception:  # noqa: BLE001 - judged elsewhere
        mid = m.SerializeToString(deterministic=True)
    after = m.SerializeToString(deterministic=True)
    if mid != before:
        return [("m-modified", "inline(m) changed the caller's model (bytes differ before/after)")]
    if after != before:
        return [("m-modified", "calling inline(m)(...) changed the caller's model (bytes differ before/after)")]
    return []


class IntLits(L.Lits):
    """Payload id = value + 1000 (what Drv.C08.intLit decodes)."""

    def of(self, proto) -> int:
        if isinstance(proto, onnx.SparseTensorProto):
            raise ValueError("no sparse payloads in the evaluator correspondence")
        return int(onnx.numpy_helper.to_array(proto)) + 1000


# ------------------------------------------------------------------------------------------------
# run / replay
# ------------------------------------------------------------------------------------------------


def run(ck: core.Check):
    from translator import inline_facts

    try:
        facts = inline_facts.generate()
    except Exception as e:  # noqa: BLE001
        facts = {"error": f"{type(e).__name__}: {e}"}
        ck.broken("generated", "C08 inline_facts not extractable", facts["error"])
    ck.cov["generated_facts"] = facts
    ck.lean(["SpoxModel.Props.C08"], audit="SpoxModel.Audit.C08")
    if ck.thorough:
        ck.leanchecker(["SpoxModel.Props.C08"])

    rng = ck.rng
    n_hand, n_spox = ck.pick((170, 60), (1100, 380))
    n_vbody = ck.pick(60, 300)
    # tie G (escalation, not an obligation): the functions the model transcribes changed since the baseline was
    # taken -> search the version family three times as wide and with every composition form
    changed = []
    try:
        import pathlib

        base = json.loads((pathlib.Path(__file__).resolve().parent.parent / "c08_source_baseline.json").read_text())
        now = facts.get("sourceHashes") or {}
        changed = sorted(k for k in set(base) | set(now) if base.get(k) != now.get(k))
    except Exception as e:  # noqa: BLE001
        changed = [f"baseline unreadable: {type(e).__name__}"]
    ck.cov["covered_sources_changed"] = changed
    global ESCALATE
    import os as _os

    ESCALATE = bool(changed) and not _os.environ.get("C08_NO_ESCALATE")  # (the mutation table is run without the escalation)
    if ESCALATE:
        ck.notes.append(f"covered source changed since the baseline ({', '.join(changed)}): version-family counts escalated")
        n_vbody *= 3
    n_types = ck.pick(30, 300)
    models, snaps, dropped = make_models(ck, n_hand, n_spox, n_vbody, n_types)
    ck.log(f"{len(models)} models generated ({dropped} invalid candidates dropped)")
    feature_hist: dict[str, int] = {}
    for _, meta in models:
        for ft in meta["features"]:
            feature_hist[ft] = feature_hist.get(ft, 0) + 1

    # ---- tie H: stages of inline(m)(call) + to_onnx, model vs real
    lits = L.Lits()
    reqs, reals, descr = [], [], []
    reqs2: list = []
    n_forms = ck.pick(4, 6)
    prev_model = None
    seq_hist: dict[str, int] = {}
    seq_mism = 0
    with warnings.catch_warnings():
        warnings.simplefilter("ignore")
        for mi, (_, meta) in enumerate(models):
            if "oracle-only" in meta["features"]:
                continue
            m = fresh(snaps[mi])
            variants = [m]
            if mi % 7 == 0:
                variants.append(L.add_local_function(m))
            for mv in variants:
                for _ in range(n_forms):
                    call, ctx = gen_call(rng, mv), gen_ctx(rng, mv)
                    # own PRNG: the sequence facet does not shift the stream of the other generators
                    ctx["_seq"] = gen_seq(random.Random(f"{ck.seed}-seq-{len(reqs)}"), ctx, prev_model)
                    try:
                        real = real_stages(mv, call, ctx, lits)
                    except Exception as e:  # noqa: BLE001
                        real = {"prepare": {}, "unobservable": f"stages: {type(e).__name__}: {e}"}
                    rq = {"model": L.abstract_model(mv, lits), "call": call,
                          "ctx": {k: v for k, v in ctx.items() if not k.startswith("_")}}
                    if "adapt" in real:
                        rq["adapt"] = {
                            "varNames": list(dict.fromkeys(ctx["argNames"] + ctx["resNames"] + ctx["_adapt"]["extraVarNames"])),
                            "importsAll": [[o.domain, o.version] for o in mv.opset_import],
                            "target": ctx["_adapt"]["target"],
                            "converted": real.get("adapt_converted"),
                        }
                    if "seq_req" in real:
                        rq["seq"] = real["seq_req"]
                    reqs.append(rq)
                    if "adapt2" in real and not real.get("adapt_conv_raised") and real.get("adapt_called"):
                        # second request: the model's adaptInline under the other names, first emission = the
                        # build's nodes under the FIRST names (what the real second call was handed)
                        reqs2.append((len(reqs) - 1, {"model": rq["model"], "call": call, "ctx": real["ctx2"],
                                                      "adapt": {**rq["adapt"], "varNames": real["ctx2"]["var"]["used"]}}))
                    reals.append(real)
                    descr.append((mi, call, ctx))
            prev_model = m
    try:
        answers = ck.driver().ask_many("C08", reqs)
    except Exception as e:  # noqa: BLE001
        ck.broken("correspondence", "C08 driver", str(e))
        answers = []
    mism = 0
    outcomes: dict[str, int] = {}
    unobs: dict[str, int] = {}
    adapt_hist: dict[str, int] = {}
    pf_hist: dict[str, int] = {}
    contract_hist: dict[str, int] = {}
    for (mi, call, ctx), real, ans in zip(descr, reals, answers):
        if "unobservable" in real:
            facet = real["unobservable"].split(":")[0]
            unobs[facet] = unobs.get(facet, 0) + 1
            if unobs[facet] == 1:
                ck.broken("correspondence", f"C08 {facet} not observable", real["unobservable"])
        try:
            d = compare_stages(real, ans)
        except Exception as e:  # noqa: BLE001
            d = f"comparison failed: {type(e).__name__}: {e}"
        oc = real["prepare"] if isinstance(real.get("prepare"), str) else (
            real["call"] if isinstance(real.get("call"), str) else (
                real["emit"] if isinstance(real.get("emit"), str) else "emitted"))
        outcomes[oc] = outcomes.get(oc, 0) + 1
        if "adapt" in real:
            ak = "converter-raised" if real.get("adapt_conv_raised") else ("converted" if real.get("adapt_called") else "kept")
            adapt_hist[ak] = adapt_hist.get(ak, 0) + 1
        am = ans.get("adapt") if isinstance(ans, dict) else None
        if isinstance(am, dict) and am.get("converts") and real.get("adapt_called") and not real.get("adapt_conv_raised"):
            contract_hist["checked"] = contract_hist.get("checked", 0) + 1
            if am.get("convInits"):
                contract_hist["converter-introduced-initializers"] = contract_hist.get("converter-introduced-initializers", 0) + 1
            if am.get("contract") is False:
                contract_hist["violated"] = contract_hist.get("violated", 0) + 1
                if contract_hist["violated"] <= 2:
                    ck.broken("correspondence", "C08 the converter's actual result violates the syntactic part of ConverterContract",
                              f"model#{mi} {json.dumps(L.summary(models[mi][0]))[:400]}")
        if isinstance(ans, dict) and ans.get("prefixFree") and real.get("emit") == "ScopeError":
            d_pf = "prefix-free scope but the real to_onnx raised ScopeError"
            ck.broken("correspondence", "C08 rename_total", d_pf)
        if isinstance(ans, dict) and "prefixFree" in ans:
            pf_hist[str(ans["prefixFree"])] = pf_hist.get(str(ans["prefixFree"]), 0) + 1
        if "seq" in real:
            try:
                dq = compare_seq(real, ans if isinstance(ans, dict) else {})
            except Exception as e:  # noqa: BLE001
                dq = f"seq comparison failed: {type(e).__name__}: {e}"
            oq = real["seq"] if isinstance(real["seq"], str) else "emitted"
            safe = isinstance(ans, dict) and ans.get("seqSafe")
            for key in [f"outcome:{oq}", f"sites:{len(real['seq_req']['sites'])}", "safe" if safe else "not-safe"] + [f"form:{x}" for x in real.get("seq_forms", [])]:
                seq_hist[key] = seq_hist.get(key, 0) + 1
            if safe and isinstance(real["seq"], str):
                dq = dq or f"toOnnxSeq_total: pairwise incomparable prefix families in a prefix-free scope, but the real sequence raised {real['seq']}"
            if dq:
                seq_mism += 1
                if seq_mism <= 3:
                    ck.broken("correspondence", "C08 sequence of Inline nodes in one scope (toOnnxSeq) model-vs-implementation",
                              f"{dq} | model#{mi} {json.dumps(L.summary(models[mi][0]))[:400]} seq={json.dumps({k: v for k, v in real['seq_req'].items() if k != 'sites'})[:300]} sites={json.dumps([{k: v for k, v in st.items() if k != 'graph'} for st in real['seq_req']['sites']])[:400]}")
        if real.get("copy_is_m"):
            d = d or "inline() works on the caller's model object itself"
        if d:
            mism += 1
            if mism <= 3:
                ck.broken("correspondence", "C08 stages model-vs-implementation",
                          f"{d} | model#{mi} {json.dumps(L.summary(models[mi][0]))[:500]} call={json.dumps(call)[:200]} ctx={json.dumps({k: v for k, v in ctx.items() if not k.startswith('_')})[:300]}")
    # adapt_inline called twice on one node under different names
    try:
        ans2 = ck.driver().ask_many("C08", [r for _, r in reqs2]) if reqs2 else []
    except Exception as e:  # noqa: BLE001
        ck.broken("correspondence", "C08 driver (adapt2)", str(e))
        ans2 = []
    mism2 = 0
    for (i, _), a in zip(reqs2, ans2):
        ra = reals[i]["adapt2"]
        ma = a.get("adapt")
        ok = (ra == ma) if isinstance(ra, str) or isinstance(ma, str) or ma is None else (
            (not ma["converts"]) or ra["nodes"] == ma["nodes"])
        if not ok:
            mism2 += 1
            if mism2 <= 2:
                ck.broken("correspondence", "C08 adapt_inline under other names (second call on the same node)",
                          f"real {json.dumps(ra)[:400]} model {json.dumps(ma)[:400]}")
    ck.log(f"stage correspondence done: {len(reqs)} cases")
    ck.cov["adapt_second_call_cases"] = len(reqs2)
    ck.cov["adapt_second_call_mismatches"] = mism2
    ck.cov["correspondence_cases"] = len(reqs)
    ck.cov["sequence_in_one_scope_cases"] = seq_hist
    ck.cov["sequence_in_one_scope_mismatches"] = seq_mism
    ck.cov["correspondence_mismatches"] = mism
    ck.cov["correspondence_outcomes"] = outcomes
    ck.cov["correspondence_unobservable"] = unobs
    ck.cov["adapt_correspondence"] = adapt_hist
    ck.cov["scope_prefix_free"] = pf_hist
    ck.cov["converter_contract_syntactic"] = contract_hist

    # ---- evaluator correspondence: Inline.evalModel (integer interpreter) vs onnxruntime
    ev_reqs, ev_expect = [], []
    n_eval = ck.pick(200, 1500)
    tries = 0
    while len(ev_reqs) < n_eval and tries < 20 * n_eval:
        tries += 1
        m, meta = L.HandGen(rng, scalar_int=True).model()
        vals = input_values(rng, m)
        try:
            safe_full_check(m)
            exp = ort_run(m, vals)
        except Exception:  # noqa: BLE001
            continue
        ev_reqs.append({"eval": L.abstract_graph(m.graph, IntLits()), "vals": [int(vals[i.name]) for i in m.graph.input]})
        ev_expect.append([int(x) for x in exp])
    try:
        ev_ans = ck.driver().ask_many("C08", ev_reqs)
    except Exception as e:  # noqa: BLE001
        ck.broken("correspondence", "C08 driver (eval)", str(e))
        ev_ans = []
    ev_mism = 0
    for rq, exp, ans in zip(ev_reqs, ev_expect, ev_ans):
        if ans.get("out") != exp:
            ev_mism += 1
            if ev_mism <= 2:
                ck.broken("correspondence", "C08 evalModel vs onnxruntime", f"model {ans} ort {exp} graph {json.dumps(rq)[:600]}")
    ck.log(f"evaluator correspondence done: {len(ev_reqs)} cases")
    ck.cov["evaluator_cases"] = len(ev_reqs)
    ck.cov["evaluator_mismatches"] = ev_mism

    # ---- model-free oracle (while it runs, observe the scopes the build hands to _Inline.to_onnx:
    #      rename_total's hypothesis "nothing visible or counted starts with <node>__")
    scope_obs = {"to_onnx_calls": 0, "prefix_free": 0}
    name_cases: list = []
    name_cap = ck.pick(4000, 12000)
    restore_hook = None
    try:
        import spox._inline as _I

        _orig_to_onnx = _I._Inline.to_onnx

        def _observed(self, scope, *a, **k):
            try:
                pre = scope.node[self] + "__"
                names: set = set()
                for sp in (scope.var, scope.node):
                    q = sp
                    while q is not None:
                        names |= {n for n in q.reserved if isinstance(n, str)} | {n for n in q.of_name if isinstance(n, str)}
                        names |= set(q.base_name_counters)
                        q = q.parent
                scope_obs["to_onnx_calls"] += 1
                free = not any(n.startswith(pre) for n in names)
                scope_obs["prefix_free"] += int(free)
                if len(name_cases) < name_cap:
                    name_cases.append((naming_facts(scope, self, _I._Inline), free))
            except Exception as e:  # noqa: BLE001
                scope_obs["unobservable"] = f"{type(e).__name__}: {e}"
            return _orig_to_onnx(self, scope, *a, **k)

        _I._Inline.to_onnx = _observed
        restore_hook = lambda: setattr(_I._Inline, "to_onnx", _orig_to_onnx)  # noqa: E731
    except Exception as e:  # noqa: BLE001
        scope_obs["unobservable"] = f"{type(e).__name__}: {e}"
    try:
        _oracle_phase(ck, models, snaps, rng, scope_obs, name_cases)
    finally:
        if restore_hook:
            restore_hook()
    del name_cases[name_cap:]
    ck.log(f"oracle phase done: {ck.cov.get('oracle_compositions')} compositions")
    if scope_obs.get("to_onnx_calls") and scope_obs["prefix_free"] != scope_obs["to_onnx_calls"]:
        ck.notes.append(f"{scope_obs['to_onnx_calls'] - scope_obs['prefix_free']} build scopes were not free of the node's prefix family (rename_total does not apply to them)")
    # build_scope_prefixFree: naming facts observed, condition evaluated by the model
    facts_bad = [c for c, _ in name_cases if c.get("violations")]
    if facts_bad:
        ck.broken("correspondence", "C08 naming facts (NameFacts) do not describe a build scope", json.dumps(facts_bad[0])[:600])
    nd = [c for c, _ in name_cases if "unobservable" not in c]
    try:
        safe_ans = ck.driver().ask_many("C08", [{"nameData": c} for c in nd]) if nd else []
    except Exception as e:  # noqa: BLE001
        ck.broken("correspondence", "C08 driver (nameData)", str(e))
        safe_ans = []
    n_safe = 0
    frees = [f for c, f in name_cases if "unobservable" not in c]
    for c, f, a in zip(nd, frees, safe_ans):
        if a.get("safe"):
            n_safe += 1
            if not f and not c.get("violations"):
                ck.broken("correspondence", "C08 build_scope_prefixFree: safe names but the scope is not prefix-free", json.dumps(c)[:600])
    scope_obs.update({"naming_cases": len(nd), "naming_safe": n_safe, "naming_facts_violated": len(facts_bad),
                      "naming_unobservable": len(name_cases) - len(nd)})
    ck.cov["build_scopes_observed"] = scope_obs
    ck.cov.update({"models": len(models), "invalid_candidates_dropped": dropped, "feature_histogram": feature_hist})
    _finish_evidence(ck)


class _Rec:
    """What a worker of the oracle phase reports for one model (replayed on the Check by the parent, in model order)."""

    def __init__(self):
        self.failures: list = []
        self.counts: list = []
        self.samples: list = []
        self.forms: list = []
        self.ambients: list = []

    def failure(self, key, what, case):
        self.failures.append((key, what, case))

    def count(self, key):
        self.counts.append(key)

    def sample(self, x, n):
        self.samples.append((x, n))


def _oracle_one(rec: _Rec, thorough: bool, mi: int, m, meta, snap: bytes, rng: random.Random):
    """Every model-free check of ONE model; rng is the model's own generator (seed, model index)."""
    ck = rec
    for key, what in purity(fresh(snap)):
        ck.failure(key, what, {"kind": "purity", "model": L.to_b64(fresh(snap)), "summary": L.summary(m)})
    if m.SerializeToString(deterministic=True) != snap:
        raise core_infra("a model of the case list changed although only copies are handed out")
    seed0 = rng.randrange(1 << 30)
    amb0 = rng.choice(AMBIENTS) if rng.random() < 0.3 else None
    for key, what in oracle_errors(fresh(snap), seed0, amb0):
        ck.failure(key, what, {"kind": "errors", "model": L.to_b64(m), "seed": seed0, "ambient": amb0, "summary": L.summary(m)})
    if not meta["runnable"]:
        seed1 = rng.randrange(1 << 30)
        for key, what in oracle_build_only(fresh(snap), seed1):
            ck.failure(key, what, {"kind": "build-only", "model": L.to_b64(fresh(snap)), "seed": seed1,
                                   "summary": L.summary(m), "features": meta["features"]})
        ck.count(("build-only", mi))
        return
    if "oracle-only" not in meta["features"]:
        seed2 = rng.randrange(1 << 30)
        hv = ["arg-clash", "res-clash", "arg-family", "res-generated", "both"] if meta["kind"] == "corner" else None
        for key, what in oracle_hostile_names(fresh(snap), seed2, hv):
            ck.failure(key, what, {"kind": "hostile-names", "model": L.to_b64(fresh(snap)), "seed": seed2,
                                   "variants": hv, "summary": L.summary(m), "features": meta["features"]})
    family = meta["kind"] == "vbody" or "version-family" in meta["features"]
    if family:
        # the version family: always next to operators of a later opset, in several compositions and histories
        forms = (list(FORMS) + list(MIXED_FORMS)) if (thorough or ESCALATE) else (
            ["once", "mixed+once", "history", "name-history"] + rng.sample(MIXED_FORMS[1:], 3) + rng.sample(FORMS[1:8], 2)) if meta["kind"] == "corner" else (
            ["once", "mixed+once"] + rng.sample(MIXED_FORMS[1:], 2) + rng.sample(["mixed-opset", "history", "name-history", "loop-body", "if-body"], 1))
    elif "declared-types" in meta["features"]:
        forms = ["once", "twice", "if-body", "chained", "mixed-opset"] if thorough else ["once", rng.choice(["twice", "if-body", "chained", "mixed-opset"])]
    else:
        if thorough or meta["kind"] == "corner":
            forms = list(FORMS)
        else:
            # the two history forms cost 5-6 builds each: one of them for a quarter of the models
            forms = ["once"] + rng.sample(FORMS[1:8], 3) + ([rng.choice(FORMS[8:])] if rng.random() < 0.25 else [])
    forms = list(forms) + ["two-models"] * (3 if thorough else (2 if family else 1))
    for form in forms:
        if form == "chained" and "no-chain" in meta["features"]:
            continue
        seed1 = rng.randrange(1 << 30)
        amb = rng.choice(AMBIENTS) if rng.random() < (0.5 if thorough else 0.3) else None
        fs = oracle_compose(fresh(snap), form, seed1, amb)
        rec.forms.append(form)
        if amb:
            rec.ambients.append(amb)
        ck.count(("compose", mi, form) if len(m.graph.node) >= 1 else None)
        for key, what in fs:
            ck.failure(key, what, {"kind": "compose", "form": form, "model": L.to_b64(m), "seed": seed1, "ambient": amb,
                                   "summary": L.summary(m), "features": meta["features"]})
    ck.sample({"model": L.summary(m), "features": meta["features"]}, 4)


N_WORKERS = 8


def _oracle_phase(ck, models, snaps, rng, scope_obs, name_cases=None):
    """The oracle over all models, in N_WORKERS forked children (the parent holds no threads: onnxruntime and the
    Lean driver are subprocesses). Every model has its own generator (base seed, index), so the verdicts do not depend
    on the partition. A child appends one frame per finished model to its file: a child that DIES (native crash inside
    spox.build's onnx calls on a mutated tree) loses only the model it was working on - that is registered and the rest
    of its share is handed to a new child. The parent replays all records on the Check in model order."""
    import os
    import pickle
    import traceback

    global _WORKER
    base = rng.randrange(1 << 30)
    name_cases = name_cases if name_cases is not None else []
    work = core.WORK
    work.mkdir(exist_ok=True)
    if _WORKER is not None:
        _WORKER.close()  # children start their own onnxruntime process
        _WORKER = None
    idx = list(range(len(models)))
    shares = [idx[k::N_WORKERS] for k in range(N_WORKERS)]
    done: dict[int, dict] = {}
    crashed: list[int] = []
    infra: list[str] = []

    def child(k: int, todo: list, path):
        # in the child: fresh observation state, results appended per model
        scope_obs.update({"to_onnx_calls": 0, "prefix_free": 0})
        del name_cases[:]
        HOSTILE_HIST.clear()
        with open(path, "ab") as fh:
            for mi in todo:
                m, meta = models[mi]
                rec = _Rec()
                n0 = len(name_cases)
                before = dict(scope_obs)
                try:
                    _oracle_one(rec, ck.thorough, mi, m, meta, snaps[mi], random.Random(base * 100003 + mi))
                    frame = {"mi": mi, "rec": rec.__dict__}
                except BaseException:  # noqa: BLE001 - reported to the parent (exit 2 there, as before)
                    frame = {"mi": mi, "infra": traceback.format_exc()}
                frame["name_cases"] = name_cases[n0:]
                frame["scope"] = {q: scope_obs.get(q, 0) - before.get(q, 0) for q in ("to_onnx_calls", "prefix_free")}
                if "unobservable" in scope_obs:
                    frame["scope_unobservable"] = scope_obs["unobservable"]
                frame["hostile"] = dict(HOSTILE_HIST)
                frame["ort"] = dict(ORT_FALLBACKS)
                pickle.dump(frame, fh)
                fh.flush()
            pickle.dump({"done": True}, fh)

    def launch(k: int, todo: list):
        path = work / f"c08_oracle_{os.getpid()}_{k}_{len(todo)}.pkl"
        if path.exists():
            path.unlink()
        pid = os.fork()
        if pid == 0:
            code = 0
            try:
                child(k, todo, path)
            except BaseException:  # noqa: BLE001
                code = 3
            finally:
                try:
                    if _WORKER is not None:
                        _WORKER.close()
                finally:
                    os._exit(code)
        return pid, path

    def collect(path):
        frames = []
        try:
            with open(path, "rb") as fh:
                while True:
                    try:
                        frames.append(pickle.load(fh))
                    except EOFError:
                        break
                    except Exception:  # noqa: BLE001 - a torn last frame
                        break
        except FileNotFoundError:
            pass
        try:
            path.unlink()
        except OSError:
            pass
        return frames

    pending = [(k, sh) + launch(k, sh) for k, sh in enumerate(shares) if sh]
    while pending:
        nxt = []
        for k, todo, pid, path in pending:
            os.waitpid(pid, 0)
            frames = collect(path)
            finished = bool(frames) and frames[-1].get("done")
            for fr in frames:
                if "mi" in fr:
                    done[fr["mi"]] = fr
            if not finished:
                got = [fr["mi"] for fr in frames if "mi" in fr]
                rest = [mi for mi in todo if mi not in got]
                if rest:
                    crashed.append(rest[0])
                    if rest[1:]:
                        nxt.append((k, rest[1:]) + launch(k, rest[1:]))
        pending = nxt

    form_hist: dict[str, int] = {}
    amb_hist: dict[str, int] = {}
    n_oracle = 0
    last_ort: dict = {}
    hostile: dict[str, int] = {}
    for mi in idx:
        fr = done.get(mi)
        if fr is None:
            continue
        if "infra" in fr:
            infra.append(fr["infra"])
            continue
        r = fr["rec"]
        for key, what, case in r["failures"]:
            ck.failure(key, what, case)
        for key in r["counts"]:
            ck.count(key)
        for x, n in r["samples"]:
            ck.sample(x, n)
        for f in r["forms"]:
            form_hist[f] = form_hist.get(f, 0) + 1
            n_oracle += 1
        for a_ in r.get("ambients", []):
            amb_hist[a_] = amb_hist.get(a_, 0) + 1
    # per-child cumulative tallies: the last frame of each child carries its totals
    by_child: dict[int, dict] = {}
    for mi in idx:
        fr = done.get(mi)
        if fr is not None:
            by_child[mi % N_WORKERS] = fr
            for q in ("to_onnx_calls", "prefix_free"):
                scope_obs[q] = scope_obs.get(q, 0) + fr["scope"][q]
            if "scope_unobservable" in fr:
                scope_obs["unobservable"] = fr["scope_unobservable"]
            name_cases.extend(fr["name_cases"])
    for fr in by_child.values():
        for q, v in fr["hostile"].items():
            hostile[q] = hostile.get(q, 0) + v
        for q, v in fr["ort"].items():
            last_ort[q] = last_ort.get(q, 0) + v
    for mi in crashed:
        ck.broken("oracle", "C08 the process died inside the model-free checks of a model (native crash under spox.build)",
                  f"model#{mi} {json.dumps(L.summary(models[mi][0]))[:400]} features={models[mi][1]['features']}")
    if infra:
        raise core_infra("oracle worker: " + infra[0][-1500:])
    ck.cov.update({"oracle_compositions": n_oracle, "oracle_forms": form_hist, "hostile_outer_names": dict(sorted(hostile.items())),
                   "onnxruntime_retries_without_optimiser": last_ort.get("unoptimised", 0),
                   "onnxruntime_process_aborts": last_ort.get("aborted", 0), "oracle_workers": N_WORKERS, "compositions_inside_ambient_settings": dict(sorted(amb_hist.items())),
                   "oracle_worker_crashes": len(crashed)})


def _finish_evidence(ck):
    ck.exhaustive = False
    ck.rule = (
        "seeded random: hand-built corner-shape models (default-valued / unused inputs, outputs that are inputs or "
        "initializers, sparse initializers, custom-domain nodes, opsets 13-21, hostile names, node names equal to value "
        "names, If bodies capturing outer values and sharing local names, empty optional inputs, stray value_info) and "
        "spox-built programs (incl. nested inlining of earlier models) x call forms (correct / surplus / duplicate / "
        "unknown / missing / mistyped) x build-scope states (hostile reserved names and counters) for the "
        "correspondence; x 10 composition forms under onnxruntime for the oracle; plus the version family (opset 11-17 "
        "models whose signature-changed / meaning-changed operators sit in If / Loop / Scan bodies at depth 1-2 or at the "
        "top level, next to ai.onnx.ml / com.microsoft nodes and unused imports) x 7 further forms built next to operators "
        "of opset 18-21 and ai.onnx.ml 2/4; non-trivial = model with >= 1 node"
    )
    ck.assumptions += [
        "onnxruntime's result on m is what 'm computes' (m is also checked with onnx.checker full_check)",
        "onnx.version_converter (adapt_inline) is third-party: observed by the oracle only; its defects on valid models "
        "(sparse payloads, Hardmax 12->13, duplicate fresh names, captured Softmax result) are known findings, blamed only "
        "when the converter alone shows them",
        "a model onnxruntime's optimiser refuses is run with the optimiser switched off before the refusal counts",
        "outer value names chosen by the user of build() do not start with a generated '<node>__' prefix (C02's concern)",
    ]
    ck.trusted_base += [
        "harness/lib_inline.py abstraction ModelProto -> abstract model (attribute bytes hashed, tensor payloads interned)",
        "translator/inline_facts.py statement classifier (copy-before-mutation), cross-checked by the byte oracle",
    ]


def core_infra(msg: str) -> Exception:
    return RuntimeError(msg)


def replay(ck: core.Check, doc) -> bool:
    case = doc["case"]
    m = L.from_b64(case["model"])
    with warnings.catch_warnings():
        warnings.simplefilter("ignore")
        if case["kind"] == "purity":
            fs = purity(m)
        elif case["kind"] == "hostile-names":
            fs = oracle_hostile_names(m, case["seed"], case.get("variants"))
        elif case["kind"] == "build-only":
            fs = oracle_build_only(m, case["seed"])
        elif case["kind"] == "errors":
            fs = oracle_errors(m, case["seed"], case.get("ambient"))
        else:
            fs = oracle_compose(m, case["form"], case["seed"], case.get("ambient"))
    for key, what in fs:
        print(f"{key}: {what}")
    known = {f["key"] for f in ck._findings if f["property"] == "C08" and f.get("status") == "known"}
    if doc.get("key") in known:
        return bool(fs)
    return any(k not in known for k, _ in fs)  # listed known findings are not what this replay is about
